package rules

import (
	"fmt"
	"go/ast"
	"go/token"
	"go/types"
	"strings"

	"golang.org/x/tools/go/cfg"
	"golang.org/x/tools/go/packages"

	"osmcheck/core"
)

// Anchors of the C13 rules.
//   exported API (class 1): annotate.Change, osm.Change{Create,Modify,Delete}, osm.OSM{Nodes,Ways,Relations},
//     osm.Action{Type,OSM,Old,New}, osm.Diff.Actions, osm.Action{Create,Modify,Delete}, osm.HistoryDatasourcer
//     {Node,Way,Relation}History/NotFound, osm.{Node,Way,Relation}{,s,ID}, fields Version/Visible/ID,
//     method FeatureID, core.Options.IgnoreMissingChildren.
//   role (class 2): addUpdate = the annotate function taking an osm.ActionType that Change calls with change.Modify / change.Delete;
//     findPrevious{Node,Way,Relation} = the annotate function called in addUpdate's loop over o.Nodes/Ways/Relations
//     returning (*osm.X, error); checkErr = the annotate function called there returning only error;
//     max/loc/old/err/currentVisible/ignoreMissing are found by dataflow role, not by name.
//   unexported names (class 3): none.

func init() {
	const chg = "annotate/change.go"
	register(&core.Property{
		ID:    "C13",
		Title: "Annotating a change yields the exact old/new diff for every element",
		Explanation: "Structural necessary conditions, decided on every path of annotate.Change, the function it calls for change.Modify/change.Delete (addUpdate), the three predecessor searches and the error mapper: " +
			"(S1) the Node/Way/Relation variants of the predecessor search, of the update loop and of the create loop are identical after type-directed renaming; " +
			"(S2) each predecessor search fetches the history of the element's own id with the history method of its own kind, propagates that error, scans the whole history without break, selects exactly under `cand.Version < own.Version && cand.Version > max` (both strict) with max starting at a constant <= 0 and the index recorded in the same branch, and after the loop returns hist[loc] when found, (nil,nil) only under ignoreMissing and the typed error carrying the element's FeatureID otherwise; " +
			"(S3) creates are appended before the Modify call, which dominates the Delete call, whose result is the returned Diff.Actions; action types are paired with the matching change section; the accumulator is threaded through every call and returned unchanged for a nil section; Nodes precede Ways precede Relations; every non-error path through a loop body appends exactly one action and never leaves the loop; " +
			"(S4) created elements and the old==nil fallback get Visible=true and a create action holding the change element; otherwise Visible is false iff the action type is ActionDelete, Type is the caller's action type, Old holds the history element and New the change element; " +
			"(S5) the error mapper returns nil for nil, nil for not-found only under ignoreMissing, the typed error with the passed id for not-found otherwise and the error itself in all other cases; every call site passes the search's error, the loop element's FeatureID and the caller's ignoreMissing, which is Options.IgnoreMissingChildren, and returns a non-nil result. " +
			"NOT decided: behaviour of user HistoryDatasourcer implementations (contents of histories, what NotFound answers), aliasing effects of writing Visible through the caller's element pointers, which of the two documented error types (NoHistoryError / NoVisibleChildError) is used, capacity/allocation of the action slice.",
		Assumptions: []string{"go/types, go/cfg (x/tools v0.29.0)", "valid OSM versions are >= 1", "HistoryDatasourcer.NotFound classifies errors as documented", "append semantics of the Go builtin"},
		LevelText:   "Structural necessary conditions of the change-annotation semantics, decided for every path of Change/addUpdate/findPrevious*/checkErr: sibling agreement after type-directed renaming, max-below predecessor search shape (strict comparisons, initial maximum below 1, index recorded with the maximum, not-found handling), create/modify/delete and node/way/relation order, exactly one action per element on every non-error path, visibility and Old/New roles by dataflow, error mapping truth table.",
		LevelNote:   "Trusts the Go type checker and go/cfg. History contents are arbitrary (the search shape is what makes the result independent of order and gaps). Datasource implementations are not analysed.",
		Technique:   "type-directed AST canonicalisation for sibling comparison + per-function CFG guard analysis (dominators, exclusive-edge reachability) + DAG path counting over loop bodies",
		DesignRef:   "DESIGN.md §5 C13",
		Rules: []*core.Rule{
			{ID: "S1", Floor: 9, Doc: "Node/Way/Relation siblings agree after type-directed renaming", Run: c13S1},
			{ID: "S2", Floor: 12, Doc: "predecessor search is a strict max-below scan with sound not-found handling", Run: c13S2},
			{ID: "S3", Floor: 11, Doc: "create<modify<delete, node<way<relation, exactly one action per element", Run: c13S3},
			{ID: "S4", Floor: 10, Doc: "visibility and Old/New roles", Run: c13S4},
			{ID: "S5", Floor: 8, Doc: "error mapping truth table and call sites", Run: c13S5},
		},
		Mutants: []core.Mutant{
			{Name: "find-node-le-own", File: chg, Find: "v < n.Version && v > max", Replace: "v <= n.Version && v > max", ExpectRule: "S2", ExpectConstruct: "select@findPreviousNode"},
			{Name: "find-relation-max-flipped", File: chg, Find: "v < r.Version && v > max", Replace: "v < r.Version && v < max", ExpectRule: "S2", ExpectConstruct: "select@findPreviousRelation"},
			{Name: "find-way-max-init-1", File: chg, Find: "loc, max := -1, -1", Nth: 2, Replace: "loc, max := -1, 1", ExpectRule: "S2", ExpectConstruct: "init@findPreviousWay"},
			{Name: "find-node-break-on-first", File: chg, Find: "\t\t\tmax = v\n\t\t\tloc = i\n", Replace: "\t\t\tmax = v\n\t\t\tloc = i\n\t\t\tbreak\n", ExpectRule: "S2", ExpectConstruct: "select@findPreviousNode"},
			{Name: "find-relation-missing-never-error", File: chg, Find: "\t\tif ignoreMissing {\n\t\t\treturn nil, nil\n\t\t}\n\t\treturn nil, &NoVisibleChildError{ID: r.FeatureID()}", Replace: "\t\treturn nil, nil", ExpectRule: "S2", ExpectConstruct: "notfound@findPreviousRelation"},
			{Name: "way-history-error-from-node-history", File: chg, Find: "ways, err := ds.WayHistory(ctx, w.ID)", Replace: "_, err := ds.NodeHistory(ctx, osm.NodeID(w.ID))\n\tways, _ := ds.WayHistory(ctx, w.ID)", ExpectRule: "S1", ExpectConstruct: "findPrevious/Way"},
			{Name: "way-error-id-as-node-id", File: chg, Find: "ID: w.FeatureID()", Replace: "ID: osm.NodeID(w.ID).FeatureID()", ExpectRule: "S1", ExpectConstruct: "findPrevious/Way"},
			{Name: "create-relation-as-modify", File: chg, Find: "\t\t\t\tType: osm.ActionCreate,\n\t\t\t\tOSM:  &osm.OSM{Relations: osm.Relations{r}},", Replace: "\t\t\t\tType: osm.ActionModify,\n\t\t\t\tOSM:  &osm.OSM{Relations: osm.Relations{r}},", ExpectRule: "S1", ExpectConstruct: "create-loop/Relation"},
			{Name: "create-ways-before-nodes", File: chg,
				Find:       "\t\tfor _, n := range o.Nodes {\n\t\t\tn.Visible = true\n\t\t\tactions = append(actions, osm.Action{\n\t\t\t\tType: osm.ActionCreate,\n\t\t\t\tOSM:  &osm.OSM{Nodes: osm.Nodes{n}},\n\t\t\t})\n\t\t}\n\n\t\tfor _, w := range o.Ways {\n\t\t\tw.Visible = true\n\t\t\tactions = append(actions, osm.Action{\n\t\t\t\tType: osm.ActionCreate,\n\t\t\t\tOSM:  &osm.OSM{Ways: osm.Ways{w}},\n\t\t\t})\n\t\t}\n",
				Replace:    "\t\tfor _, w := range o.Ways {\n\t\t\tw.Visible = true\n\t\t\tactions = append(actions, osm.Action{\n\t\t\t\tType: osm.ActionCreate,\n\t\t\t\tOSM:  &osm.OSM{Ways: osm.Ways{w}},\n\t\t\t})\n\t\t}\n\n\t\tfor _, n := range o.Nodes {\n\t\t\tn.Visible = true\n\t\t\tactions = append(actions, osm.Action{\n\t\t\t\tType: osm.ActionCreate,\n\t\t\t\tOSM:  &osm.OSM{Nodes: osm.Nodes{n}},\n\t\t\t})\n\t\t}\n",
				ExpectRule: "S3", ExpectConstruct: "kind-order@Change"},
			{Name: "modify-delete-order-swapped", File: chg,
				Find:       "actions, err := addUpdate(ctx, actions, change.Modify, osm.ActionModify, ds, ignoreMissing)\n\tif err != nil {\n\t\treturn nil, err\n\t}\n\n\t// delete\n\tactions, err = addUpdate(ctx, actions, change.Delete, osm.ActionDelete, ds, ignoreMissing)",
				Replace:    "actions, err := addUpdate(ctx, actions, change.Delete, osm.ActionDelete, ds, ignoreMissing)\n\tif err != nil {\n\t\treturn nil, err\n\t}\n\n\t// delete\n\tactions, err = addUpdate(ctx, actions, change.Modify, osm.ActionModify, ds, ignoreMissing)",
				ExpectRule: "S3", ExpectConstruct: "order@Change modify-before-delete"},
			{Name: "delete-section-as-modify", File: chg, Find: "change.Delete, osm.ActionDelete", Replace: "change.Delete, osm.ActionModify", ExpectRule: "S3", ExpectConstruct: "order@Change modify-before-delete"},
			{Name: "drop-append-way-fallback", File: chg, Find: "\t\t\tw.Visible = true\n\t\t\tactions = append(actions, osm.Action{\n\t\t\t\tType: osm.ActionCreate,\n\t\t\t\tOSM:  &osm.OSM{Ways: osm.Ways{w}},\n\t\t\t})\n\t\t\tcontinue", Replace: "\t\t\tw.Visible = true\n\t\t\tcontinue", ExpectRule: "S3", ExpectConstruct: "one-action@addUpdate/Way"},
			{Name: "nil-section-drops-actions", File: chg, Find: "if o == nil {\n\t\treturn actions, nil", Replace: "if o == nil {\n\t\treturn nil, nil", ExpectRule: "S3", ExpectConstruct: "threading@addUpdate"},
			{Name: "swap-old-new-relation", File: chg, Find: "Old:  &osm.OSM{Relations: osm.Relations{old}},\n\t\t\tNew:  &osm.OSM{Relations: osm.Relations{r}},", Replace: "Old:  &osm.OSM{Relations: osm.Relations{r}},\n\t\t\tNew:  &osm.OSM{Relations: osm.Relations{old}},", ExpectRule: "S4", ExpectConstruct: "update@addUpdate/Relation"},
			{Name: "delete-visible-true", File: chg, Find: "currentVisible = false", Replace: "currentVisible = true", ExpectRule: "S4", ExpectConstruct: "visible-flag@addUpdate"},
			{Name: "create-way-not-visible", File: chg, Find: "w.Visible = true", Replace: "w.Visible = false", ExpectRule: "S4", ExpectConstruct: "create@Change/Way"},
			{Name: "node-update-type-constant", File: chg, Find: "Type: actionType,\n\t\t\tOld:  &osm.OSM{Nodes", Replace: "Type: osm.ActionModify,\n\t\t\tOld:  &osm.OSM{Nodes", ExpectRule: "S4", ExpectConstruct: "update@addUpdate/Node"},
			{Name: "fallback-node-visible-from-flag", File: chg, Find: "n.Visible = true", Nth: 2, Replace: "n.Visible = currentVisible", ExpectRule: "S4", ExpectConstruct: "fallback@addUpdate/Node"},
			{Name: "checkerr-nil-without-ignore", File: chg, Find: "return &NoVisibleChildError{ID: id}", Replace: "return nil", ExpectRule: "S5", ExpectConstruct: "return@checkErr"},
			{Name: "checkerr-swallows-other-errors", File: chg, Find: "\treturn err\n}\n\nfunc findPreviousNode", Replace: "\treturn nil\n}\n\nfunc findPreviousNode", ExpectRule: "S5", ExpectConstruct: "return@checkErr"},
			{Name: "checkerr-ignore-inverted", File: chg, Find: "\t\tif ignoreMissing {\n\t\t\treturn nil\n\t\t}", Replace: "\t\tif !ignoreMissing {\n\t\t\treturn nil\n\t\t}", ExpectRule: "S5", ExpectConstruct: "return@checkErr"},
			{Name: "callsite-way-always-ignores", File: chg, Find: "checkErr(ds, ignoreMissing, err, w.FeatureID())", Replace: "checkErr(ds, true, err, w.FeatureID())", ExpectRule: "S5", ExpectConstruct: "call@addUpdate/Way"},
		},
	})
}

const c13OsmPath = core.ModulePath

// c13Kinds are the kind-dependent exported names of package osm (Node <-> Way <-> Relation).
var c13Kinds = [3]struct{ Elem, Elems, ID, Hist string }{
	{"Node", "Nodes", "NodeID", "NodeHistory"},
	{"Way", "Ways", "WayID", "WayHistory"},
	{"Relation", "Relations", "RelationID", "RelationHistory"},
}

// c13KindOfElem returns the kind of (a pointer to) osm.Node/Way/Relation, or -1.
func c13KindOfElem(t types.Type) int {
	np := namedPath(t)
	for k, kn := range c13Kinds {
		if np == c13OsmPath+"."+kn.Elem {
			return k
		}
	}
	return -1
}

// c13KindOfSlice returns the kind of a slice of element pointers (osm.Nodes, []*osm.Way, ...), or -1.
func c13KindOfSlice(t types.Type) int {
	if t == nil {
		return -1
	}
	if sl, ok := t.Underlying().(*types.Slice); ok {
		return c13KindOfElem(sl.Elem())
	}
	return -1
}

// c13Model holds the role-resolved mechanism of the property.
type c13Model struct {
	pk   *packages.Package
	info *types.Info
	fset *token.FileSet

	change, addUpdate, checkErr *FuncInfo
	find                        [3]*FuncInfo
	createLoops, updLoops       [3]*ast.RangeStmt
	modCall, delCall            *ast.CallExpr

	osmFields                            [3]*types.Var // osm.OSM.Nodes / Ways / Relations
	chgCreate, chgModify, chgDelete      *types.Var    // osm.Change fields
	actCreate, actModify, actDelete      types.Object  // osm.Action* constants
	actType, actOSM, actOld, actNew      *types.Var    // osm.Action fields
	diffActions                          *types.Var    // osm.Diff.Actions
	gChange, gAdd                        *cfg.CFG
	domChange, domAdd                    map[*cfg.Block]map[*cfg.Block]bool
	accParam, secParam, typParam, ignPar *types.Var // addUpdate parameters by role
}

func c13Field(st *types.Struct, name string) *types.Var {
	if st == nil {
		return nil
	}
	for i := 0; i < st.NumFields(); i++ {
		if st.Field(i).Name() == name {
			return st.Field(i)
		}
	}
	return nil
}

func c13FuncByObj(pk *packages.Package, fn *types.Func) *FuncInfo {
	for _, fi := range allFuncs(pk) {
		if fi.Obj == fn {
			return fi
		}
	}
	return nil
}

// c13ElemLoops finds the range loops over slices of node/way/relation pointers directly in body.
func c13ElemLoops(info *types.Info, body *ast.BlockStmt) ([3]*ast.RangeStmt, string) {
	var out [3]*ast.RangeStmt
	why := ""
	inspectNoLit(body, func(n ast.Node) bool {
		rs, ok := n.(*ast.RangeStmt)
		if !ok {
			return true
		}
		k := c13KindOfSlice(info.TypeOf(rs.X))
		if k < 0 {
			return true
		}
		if out[k] != nil {
			why = "more than one loop over " + c13Kinds[k].Elems
		}
		out[k] = rs
		return true
	})
	return out, why
}

// c13Load resolves the mechanism; it emits anchors and returns nil when something does not resolve.
func c13Load(r *core.R) *c13Model {
	pk, osmPk := r.P.Pkg("annotate"), r.P.Pkg("")
	if pk == nil || osmPk == nil {
		r.Anchor("packages osm and osm/annotate")
		return nil
	}
	m := &c13Model{pk: pk, info: pk.TypesInfo, fset: r.P.Fset}
	_, ost := structType(osmPk, "OSM")
	_, cst := structType(osmPk, "Change")
	_, ast_ := structType(osmPk, "Action")
	_, dst := structType(osmPk, "Diff")
	for k, kn := range c13Kinds {
		m.osmFields[k] = c13Field(ost, kn.Elems)
	}
	m.chgCreate, m.chgModify, m.chgDelete = c13Field(cst, "Create"), c13Field(cst, "Modify"), c13Field(cst, "Delete")
	m.actType, m.actOSM, m.actOld, m.actNew = c13Field(ast_, "Type"), c13Field(ast_, "OSM"), c13Field(ast_, "Old"), c13Field(ast_, "New")
	m.diffActions = c13Field(dst, "Actions")
	sc := osmPk.Types.Scope()
	m.actCreate, m.actModify, m.actDelete = sc.Lookup("ActionCreate"), sc.Lookup("ActionModify"), sc.Lookup("ActionDelete")
	if m.osmFields[0] == nil || m.osmFields[1] == nil || m.osmFields[2] == nil || m.chgCreate == nil || m.chgModify == nil || m.chgDelete == nil ||
		m.actType == nil || m.actOSM == nil || m.actOld == nil || m.actNew == nil || m.diffActions == nil || m.actCreate == nil || m.actModify == nil || m.actDelete == nil {
		r.Anchor("osm.OSM/Change/Action/Diff fields and osm.Action* constants")
		return nil
	}
	if m.change = findFunc(pk, "Change"); m.change == nil {
		r.Anchor("annotate.Change")
		return nil
	}
	var why string
	if m.createLoops, why = c13ElemLoops(m.info, m.change.Decl.Body); why != "" {
		r.Anchor("create loops of annotate.Change (" + why + ")")
		return nil
	}
	// addUpdate: the annotate function called with change.Modify / change.Delete
	var callees []*types.Func
	inspectNoLit(m.change.Decl.Body, func(n ast.Node) bool {
		call, ok := n.(*ast.CallExpr)
		if !ok {
			return true
		}
		fn := callee(m.info, call)
		if fn == nil || fn.Pkg() != pk.Types {
			return true
		}
		takesType := false
		for ps, i := fn.Type().(*types.Signature).Params(), 0; i < ps.Len(); i++ {
			if namedPath(ps.At(i).Type()) == c13OsmPath+".ActionType" {
				takesType = true
			}
		}
		if !takesType {
			return true // e.g. the capacity computation osmCount(change.Modify)
		}
		for _, a := range call.Args {
			switch fieldOf(m.info, a) {
			case m.chgModify:
				if m.modCall != nil && m.modCall != call {
					why = "change.Modify is handed to more than one call"
				}
				m.modCall = call
				callees = append(callees, fn)
			case m.chgDelete:
				if m.delCall != nil && m.delCall != call {
					why = "change.Delete is handed to more than one call"
				}
				m.delCall = call
				callees = append(callees, fn)
			}
		}
		return true
	})
	if m.modCall == nil || m.delCall == nil || why != "" || len(callees) != 2 || callees[0] != callees[1] {
		r.Anchor("the one annotate function Change calls once with change.Modify and once with change.Delete " + why)
		return nil
	}
	if m.addUpdate = c13FuncByObj(pk, callees[0]); m.addUpdate == nil {
		r.Anchor("declaration of " + callees[0].Name())
		return nil
	}
	if m.updLoops, why = c13ElemLoops(m.info, m.addUpdate.Decl.Body); why != "" {
		r.Anchor("element loops of " + m.addUpdate.Name() + " (" + why + ")")
		return nil
	}
	for k := range c13Kinds {
		if m.createLoops[k] == nil {
			r.Anchor("loop over created " + c13Kinds[k].Elems + " in annotate.Change")
			return nil
		}
		if m.updLoops[k] == nil {
			r.Anchor("loop over " + c13Kinds[k].Elems + " in " + m.addUpdate.Name())
			return nil
		}
	}
	// findPrevious* and checkErr by role
	errT := types.Universe.Lookup("error").Type()
	for k := range c13Kinds {
		var ce *types.Func
		inspectNoLit(m.updLoops[k].Body, func(n ast.Node) bool {
			call, ok := n.(*ast.CallExpr)
			if !ok {
				return true
			}
			fn := callee(m.info, call)
			if fn == nil || fn.Pkg() != pk.Types || fn.Type().(*types.Signature).Recv() != nil {
				return true
			}
			res := fn.Type().(*types.Signature).Results()
			switch {
			case res.Len() == 2 && c13KindOfElem(res.At(0).Type()) == k && types.Identical(res.At(1).Type(), errT):
				if fi := c13FuncByObj(pk, fn); fi != nil {
					m.find[k] = fi
				}
			case res.Len() == 1 && types.Identical(res.At(0).Type(), errT):
				ce = fn
			}
			return true
		})
		if m.find[k] == nil {
			r.Anchor("predecessor search called in the loop over " + c13Kinds[k].Elems + " of " + m.addUpdate.Name())
			return nil
		}
		if ce == nil || (m.checkErr != nil && m.checkErr.Obj != ce) {
			r.Anchor("error mapper called in the loop over " + c13Kinds[k].Elems + " of " + m.addUpdate.Name())
			return nil
		}
		if m.checkErr = c13FuncByObj(pk, ce); m.checkErr == nil {
			r.Anchor("declaration of " + ce.Name())
			return nil
		}
	}
	// addUpdate parameters by role: accumulator ([]osm.Action), section (*osm.OSM), action type, ignoreMissing (bool)
	sig := m.addUpdate.Obj.Type().(*types.Signature)
	nbool := 0
	for i := 0; i < sig.Params().Len(); i++ {
		p := sig.Params().At(i)
		switch {
		case namedPath(p.Type()) == c13OsmPath+".OSM":
			m.secParam = p
		case namedPath(p.Type()) == c13OsmPath+".ActionType":
			m.typParam = p
		case types.Identical(p.Type(), types.Typ[types.Bool]):
			m.ignPar = p
			nbool++
		default:
			if sl, ok := p.Type().Underlying().(*types.Slice); ok && namedPath(sl.Elem()) == c13OsmPath+".Action" {
				m.accParam = p
			}
		}
	}
	if m.secParam == nil || m.typParam == nil || m.ignPar == nil || nbool != 1 || m.accParam == nil {
		r.Anchor("parameters of " + m.addUpdate.Name() + " (action slice, *osm.OSM section, osm.ActionType, one bool)")
		return nil
	}
	m.gChange = newCFG(m.info, m.change.Decl.Body)
	m.domChange = dominators(m.gChange)
	m.gAdd = newCFG(m.info, m.addUpdate.Decl.Body)
	m.domAdd = dominators(m.gAdd)
	return m
}

// ---------------------------------------------------------------------------------------------
// CFG helpers

func c13LoopBlocks(g *cfg.CFG, rs *ast.RangeStmt) (head, done *cfg.Block) {
	for _, b := range g.Blocks {
		if b.Stmt == rs && b.Live {
			switch b.Kind {
			case cfg.KindRangeLoop:
				head = b
			case cfg.KindRangeDone:
				done = b
			}
		}
	}
	return
}

// c13CondOf returns the branch condition of a two-way block (nil for loop heads and others).
func c13CondOf(b *cfg.Block) ast.Expr {
	if !b.Live || len(b.Succs) != 2 || len(b.Nodes) == 0 {
		return nil
	}
	e, _ := b.Nodes[len(b.Nodes)-1].(ast.Expr)
	return e
}

// c13Atom is an atomic condition known to hold (val) at some program point.
type c13Atom struct {
	e   ast.Expr
	val bool
	blk *cfg.Block
}

// c13Split decomposes a condition with known truth value into atoms (a && b true, a || b false, !a).
func c13Split(e ast.Expr, val bool, blk *cfg.Block) []c13Atom {
	e = ast.Unparen(e)
	switch x := e.(type) {
	case *ast.UnaryExpr:
		if x.Op == token.NOT {
			return c13Split(x.X, !val, blk)
		}
	case *ast.BinaryExpr:
		if (x.Op == token.LAND && val) || (x.Op == token.LOR && !val) {
			return append(c13Split(x.X, val, blk), c13Split(x.Y, val, blk)...)
		}
	}
	return []c13Atom{{e, val, blk}}
}

// c13GuardsAt lists the atomic conditions that hold on entry to target: for every dominating two-way
// block the target is reachable from exactly one edge without passing through that block again.
func c13GuardsAt(g *cfg.CFG, dom map[*cfg.Block]map[*cfg.Block]bool, target *cfg.Block) []c13Atom {
	var out []c13Atom
	for _, c := range g.Blocks {
		e := c13CondOf(c)
		if e == nil || c == target || !dom[target][c] {
			continue
		}
		c := c
		stop := func(b *cfg.Block) bool { return b == c }
		t := reachableFrom([]*cfg.Block{c.Succs[0]}, stop)[target]
		f := reachableFrom([]*cfg.Block{c.Succs[1]}, stop)[target]
		switch {
		case t && !f:
			out = append(out, c13Split(e, true, c)...)
		case f && !t:
			out = append(out, c13Split(e, false, c)...)
		}
	}
	return out
}

func c13Negate(op token.Token) token.Token {
	switch op {
	case token.LSS:
		return token.GEQ
	case token.GEQ:
		return token.LSS
	case token.GTR:
		return token.LEQ
	case token.LEQ:
		return token.GTR
	case token.EQL:
		return token.NEQ
	case token.NEQ:
		return token.EQL
	}
	return token.ILLEGAL
}

func c13Flip(op token.Token) token.Token {
	switch op {
	case token.LSS:
		return token.GTR
	case token.GTR:
		return token.LSS
	case token.LEQ:
		return token.GEQ
	case token.GEQ:
		return token.LEQ
	}
	return op
}

// c13Cmp reads an atom as a comparison x op y that holds (negating op when the atom is false).
func c13Cmp(a c13Atom) (x, y ast.Expr, op token.Token, ok bool) {
	be, isBin := ast.Unparen(a.e).(*ast.BinaryExpr)
	if !isBin {
		return nil, nil, token.ILLEGAL, false
	}
	op = be.Op
	switch op {
	case token.LSS, token.GTR, token.LEQ, token.GEQ, token.EQL, token.NEQ:
	default:
		return nil, nil, token.ILLEGAL, false
	}
	if !a.val {
		op = c13Negate(op)
	}
	return be.X, be.Y, op, true
}

func c13IsNil(info *types.Info, e ast.Expr) bool {
	id, ok := ast.Unparen(e).(*ast.Ident)
	if !ok {
		return false
	}
	_, isNil := info.Uses[id].(*types.Nil)
	return isNil
}

// c13NilTest reads an atom as `obj == nil` (true) / `obj != nil` (false) that holds.
func c13NilTest(info *types.Info, a c13Atom) (obj types.Object, isNil, ok bool) {
	x, y, op, okc := c13Cmp(a)
	if !okc || (op != token.EQL && op != token.NEQ) {
		return nil, false, false
	}
	switch {
	case c13IsNil(info, y):
		obj = objOf(info, x)
	case c13IsNil(info, x):
		obj = objOf(info, y)
	}
	if obj == nil {
		return nil, false, false
	}
	return obj, op == token.EQL, true
}

func c13ReturnOf(b *cfg.Block) *ast.ReturnStmt {
	for _, n := range b.Nodes {
		if rs, ok := n.(*ast.ReturnStmt); ok {
			return rs
		}
	}
	return nil
}

func c13ConstBool(info *types.Info, e ast.Expr) (val, ok bool) {
	tv, found := info.Types[e]
	if !found || tv.Value == nil {
		return false, false
	}
	switch tv.Value.String() {
	case "true":
		return true, true
	case "false":
		return false, true
	}
	return false, false
}

// c13AssignsTo lists (lhs index, statement) of every assignment/definition of obj in body.
type c13Assign struct {
	stmt ast.Node // *ast.AssignStmt, *ast.ValueSpec, *ast.IncDecStmt or *ast.RangeStmt
	rhs  ast.Expr // nil when not a 1:1 assignment
}

func c13AssignsTo(info *types.Info, body ast.Node, obj types.Object) []c13Assign {
	var out []c13Assign
	ast.Inspect(body, func(n ast.Node) bool {
		switch s := n.(type) {
		case *ast.AssignStmt:
			for i, l := range s.Lhs {
				if objOf(info, l) == obj {
					var rhs ast.Expr
					if len(s.Lhs) == len(s.Rhs) && (s.Tok == token.ASSIGN || s.Tok == token.DEFINE) {
						rhs = s.Rhs[i]
					}
					out = append(out, c13Assign{s, rhs})
				}
			}
		case *ast.ValueSpec:
			for i, nm := range s.Names {
				if info.Defs[nm] == obj {
					var rhs ast.Expr
					if len(s.Values) == len(s.Names) {
						rhs = s.Values[i]
					}
					out = append(out, c13Assign{s, rhs})
				}
			}
		case *ast.IncDecStmt:
			if objOf(info, s.X) == obj {
				out = append(out, c13Assign{s, nil})
			}
		case *ast.RangeStmt:
			if (s.Key != nil && objOf(info, s.Key) == obj) || (s.Value != nil && objOf(info, s.Value) == obj) {
				out = append(out, c13Assign{s, nil})
			}
		case *ast.UnaryExpr:
			if s.Op == token.AND && objOf(info, s.X) == obj {
				out = append(out, c13Assign{s, nil}) // address taken: may be written anywhere
			}
		}
		return true
	})
	return out
}

// c13ObjQ resolves an identifier or a package-qualified identifier (osm.ActionDelete).
func c13ObjQ(info *types.Info, e ast.Expr) types.Object {
	if sel, ok := ast.Unparen(e).(*ast.SelectorExpr); ok {
		if _, isPkg := objOf(info, sel.X).(*types.PkgName); isPkg {
			return info.Uses[sel.Sel]
		}
		return nil
	}
	return objOf(info, e)
}

func c13Within(n ast.Node, outer ast.Node) bool {
	return outer.Pos() <= n.Pos() && n.End() <= outer.End()
}

// ---------------------------------------------------------------------------------------------
// S1 sibling consistency

type c13Tok struct {
	s    string
	stmt ast.Node // innermost enclosing statement (diagnostic)
}

// c13Canon turns a sibling's syntax into a token stream in which identifiers are replaced by the role of
// the object they resolve to: kind-dependent API names of the sibling's own kind become placeholders,
// locals are numbered by first occurrence, variables of the enclosing function keep a per-group identity.
type c13Canon struct {
	m        *c13Model
	kind     int
	lo, hi   token.Pos
	locals   map[types.Object]int
	outer    map[types.Object]int // shared by the siblings of one group
	toks     []c13Tok
	stmts    []ast.Node // statement stack of the walk in progress
	nKindDep int
}

func (c *c13Canon) typeStr(t types.Type) string {
	switch x := t.(type) {
	case *types.Pointer:
		return "*" + c.typeStr(x.Elem())
	case *types.Slice:
		return "[]" + c.typeStr(x.Elem())
	case *types.Array:
		return fmt.Sprintf("[%d]%s", x.Len(), c.typeStr(x.Elem()))
	case *types.Map:
		return "map[" + c.typeStr(x.Key()) + "]" + c.typeStr(x.Elem())
	case *types.Basic:
		return x.Name()
	case *types.Named:
		o := x.Obj()
		if o.Pkg() == nil {
			return o.Name()
		}
		if o.Pkg().Path() == c13OsmPath {
			kn := c13Kinds[c.kind]
			switch o.Name() {
			case kn.Elem:
				c.nKindDep++
				return "<Elem>"
			case kn.Elems:
				c.nKindDep++
				return "<Elems>"
			case kn.ID:
				c.nKindDep++
				return "<ElemID>"
			}
		}
		return o.Pkg().Path() + "." + o.Name()
	}
	return types.TypeString(t, nil)
}

func (c *c13Canon) ident(id *ast.Ident) string {
	info := c.m.info
	obj := info.Uses[id]
	if obj == nil {
		obj = info.Defs[id]
	}
	if obj == nil {
		if id.Name == "_" {
			return "_"
		}
		return "?" + id.Name
	}
	switch o := obj.(type) {
	case *types.PkgName:
		return "pkg:" + o.Imported().Path()
	case *types.Nil:
		return "nil"
	case *types.Builtin:
		return "builtin:" + o.Name()
	case *types.TypeName:
		return "T:" + c.typeStr(o.Type())
	case *types.Const:
		if o.Pkg() == nil {
			return "U:" + o.Name()
		}
		return "C:" + o.Pkg().Path() + "." + o.Name()
	case *types.Func:
		sig := o.Type().(*types.Signature)
		if recv := sig.Recv(); recv != nil {
			if namedPath(recv.Type()) == c13OsmPath+".HistoryDatasourcer" && o.Name() == c13Kinds[c.kind].Hist {
				c.nKindDep++
				return "M:<History>"
			}
			return "M:" + c.typeStr(recv.Type()) + "." + o.Name()
		}
		if c.m.find[c.kind] != nil && o == c.m.find[c.kind].Obj {
			c.nKindDep++
			return "F:<findPrevious>"
		}
		if o.Pkg() == nil {
			return "F:" + o.Name()
		}
		return "F:" + o.Pkg().Path() + "." + o.Name()
	case *types.Var:
		if o.IsField() {
			if o == c.m.osmFields[c.kind] {
				c.nKindDep++
				return "fld:<OSM.Elems>"
			}
			return "fld:" + o.Name() + ":" + c.typeStr(o.Type())
		}
		if o.Pkg() != nil && o.Parent() == o.Pkg().Scope() {
			return "V:" + o.Pkg().Path() + "." + o.Name()
		}
		if c.lo <= o.Pos() && o.Pos() < c.hi {
			n, seen := c.locals[o]
			if !seen {
				n = len(c.locals) + 1
				c.locals[o] = n
				return fmt.Sprintf("L%d:%s", n, c.typeStr(o.Type()))
			}
			return fmt.Sprintf("L%d", n)
		}
		n, seen := c.outer[o]
		if !seen {
			n = len(c.outer) + 1
			c.outer[o] = n
		}
		return fmt.Sprintf("O%d", n)
	}
	return "?" + id.Name
}

func c13Has(b bool) string {
	if b {
		return "1"
	}
	return "0"
}

func (c *c13Canon) walk(root ast.Node) {
	type frame struct {
		close  bool
		isStmt bool
	}
	var stack []frame
	cur := func() ast.Node {
		if len(c.stmts) == 0 {
			return root
		}
		return c.stmts[len(c.stmts)-1]
	}
	emit := func(s string) { c.toks = append(c.toks, c13Tok{s, cur()}) }
	ast.Inspect(root, func(n ast.Node) bool {
		if n == nil {
			f := stack[len(stack)-1]
			stack = stack[:len(stack)-1]
			if f.close {
				emit(")")
			}
			if f.isStmt {
				c.stmts = c.stmts[:len(c.stmts)-1]
			}
			return true
		}
		switch x := n.(type) {
		case *ast.CommentGroup, *ast.Comment:
			return false
		case *ast.Ident:
			emit(c.ident(x))
			return false
		case *ast.BasicLit:
			emit(x.Kind.String() + ":" + x.Value)
			return false
		case *ast.ParenExpr:
			stack = append(stack, frame{})
			return true
		case *ast.BinaryExpr:
			// `a > b` and `b < a` are the same comparison: print the mirrored form
			if x.Op == token.GTR || x.Op == token.GEQ {
				emit("BinaryExpr" + c13Flip(x.Op).String() + "(")
				c.walk(x.Y)
				c.walk(x.X)
				emit(")")
				return false
			}
		}
		_, isStmt := n.(ast.Stmt)
		if isStmt {
			c.stmts = append(c.stmts, n)
		}
		t := strings.TrimPrefix(fmt.Sprintf("%T", n), "*ast.")
		switch x := n.(type) {
		case *ast.BinaryExpr:
			t += x.Op.String()
		case *ast.UnaryExpr:
			t += x.Op.String()
		case *ast.AssignStmt:
			t += x.Tok.String()
		case *ast.IncDecStmt:
			t += x.Tok.String()
		case *ast.BranchStmt:
			t += x.Tok.String()
		case *ast.RangeStmt:
			t += x.Tok.String() + c13Has(x.Key != nil) + c13Has(x.Value != nil)
		case *ast.CallExpr:
			t += c13Has(x.Ellipsis.IsValid())
		case *ast.IfStmt:
			t += c13Has(x.Init != nil) + c13Has(x.Else != nil)
		case *ast.ForStmt:
			t += c13Has(x.Init != nil) + c13Has(x.Cond != nil) + c13Has(x.Post != nil)
		case *ast.SliceExpr:
			t += c13Has(x.Low != nil) + c13Has(x.High != nil) + c13Has(x.Max != nil)
		case *ast.CaseClause:
			t += c13Has(x.List != nil)
		case *ast.SwitchStmt:
			t += c13Has(x.Init != nil) + c13Has(x.Tag != nil)
		case *ast.GenDecl:
			t += x.Tok.String()
		case *ast.ChanType:
			t += fmt.Sprint(x.Dir)
		case *ast.FuncType:
			t += c13Has(x.Results != nil)
		case *ast.Field:
			t += fmt.Sprint(len(x.Names))
		case *ast.ValueSpec:
			t += fmt.Sprint(len(x.Names)) + c13Has(x.Type != nil)
		}
		emit(t + "(")
		stack = append(stack, frame{close: true, isStmt: isStmt})
		return true
	})
}

type c13Sibling struct {
	name  string
	pos   token.Pos
	canon *c13Canon
}

func c13Canonical(m *c13Model, kind int, outer map[types.Object]int, extent ast.Node, parts ...ast.Node) *c13Canon {
	c := &c13Canon{m: m, kind: kind, lo: extent.Pos(), hi: extent.End(), locals: map[types.Object]int{}, outer: outer}
	for _, p := range parts {
		if p != nil {
			c.walk(p)
		}
	}
	return c
}

// c13Diff returns the index of the first differing token, or -1.
func c13Diff(a, b []c13Tok) int {
	for i := 0; i < len(a) && i < len(b); i++ {
		if a[i].s != b[i].s {
			return i
		}
	}
	if len(a) != len(b) {
		if len(a) < len(b) {
			return len(a)
		}
		return len(b)
	}
	return -1
}

func c13S1(r *core.R) {
	m := c13Load(r)
	if m == nil {
		return
	}
	groups := []struct {
		name string
		sib  func(k int, outer map[types.Object]int) c13Sibling
	}{
		{"findPrevious", func(k int, outer map[types.Object]int) c13Sibling {
			fd := m.find[k].Decl
			return c13Sibling{m.find[k].Name(), fd.Pos(), c13Canonical(m, k, outer, fd, fd.Type, fd.Body)}
		}},
		{"update-loop", func(k int, outer map[types.Object]int) c13Sibling {
			rs := m.updLoops[k]
			return c13Sibling{"loop over " + src(m.fset, rs.X) + " in " + m.addUpdate.Name(), rs.Pos(), c13Canonical(m, k, outer, rs, rs)}
		}},
		{"create-loop", func(k int, outer map[types.Object]int) c13Sibling {
			rs := m.createLoops[k]
			return c13Sibling{"loop over " + src(m.fset, rs.X) + " in Change", rs.Pos(), c13Canonical(m, k, outer, rs, rs)}
		}},
	}
	for _, g := range groups {
		outer := map[types.Object]int{}
		var sibs [3]c13Sibling
		for k := range c13Kinds {
			sibs[k] = g.sib(k, outer)
			r.Stat("sibling_tokens", len(sibs[k].canon.toks))
		}
		// majority vote: the odd one out is the one reported
		eq := func(i, j int) bool { return c13Diff(sibs[i].canon.toks, sibs[j].canon.toks) < 0 }
		for k := range c13Kinds {
			c := g.name + "/" + c13Kinds[k].Elem
			o1, o2 := (k+1)%3, (k+2)%3
			ref := -1
			switch {
			case eq(k, o1) && eq(k, o2):
			case eq(o1, o2): // the two others agree, this one differs
				ref = o1
			case eq(k, o1) || eq(k, o2): // this one agrees with one other: the third is the odd one
			default:
				ref = o1
			}
			if ref < 0 {
				if sibs[k].canon.nKindDep == 0 {
					r.Bad(c, sibs[k].pos, "%s mentions no %s-specific type, field or history method: it cannot be the %s variant", sibs[k].name, c13Kinds[k].Elem, c13Kinds[k].Elem)
					continue
				}
				r.OK(c, sibs[k].pos, "%s: %d canonical tokens (%d kind-dependent identifiers mapped to placeholders, %d locals) equal to its siblings'",
					sibs[k].name, len(sibs[k].canon.toks), sibs[k].canon.nKindDep, len(sibs[k].canon.locals))
				continue
			}
			a, b := sibs[k].canon.toks, sibs[ref].canon.toks
			i := c13Diff(a, b)
			ta, tb := c13Tok{"<end>", nil}, c13Tok{"<end>", nil}
			if i < len(a) {
				ta = a[i]
			}
			if i < len(b) {
				tb = b[i]
			}
			pos := sibs[k].pos
			sa, sb := "<end of body>", "<end of body>"
			if ta.stmt != nil {
				pos = ta.stmt.Pos()
				sa = src(m.fset, ta.stmt)
			}
			if tb.stmt != nil {
				sb = src(m.fset, tb.stmt) + " (" + r.P.Rel(tb.stmt.Pos()) + ")"
			}
			r.Bad(c, pos, "%s differs from its %s sibling after renaming %s->%s: first difference at `%s` [%s] versus `%s` [%s]; the %s variant therefore treats its elements differently from the other kinds",
				sibs[k].name, c13Kinds[ref].Elem, c13Kinds[k].Elem, c13Kinds[ref].Elem, sa, ta.s, sb, tb.s, c13Kinds[k].Elem)
		}
	}
}

// ---------------------------------------------------------------------------------------------
// S2 predecessor search

// c13TypedErr recognises `&T{ID: <expr>}` with T an error struct type of package annotate; it returns the ID expression.
func c13TypedErr(m *c13Model, e ast.Expr) (typ string, id ast.Expr, ok bool) {
	ue, isU := ast.Unparen(e).(*ast.UnaryExpr)
	if !isU || ue.Op != token.AND {
		return "", nil, false
	}
	cl, isCL := ast.Unparen(ue.X).(*ast.CompositeLit)
	if !isCL {
		return "", nil, false
	}
	t := m.info.TypeOf(cl)
	nt, isNamed := t.(*types.Named)
	if !isNamed || nt.Obj().Pkg() != m.pk.Types {
		return "", nil, false
	}
	errI := types.Universe.Lookup("error").Type().Underlying().(*types.Interface)
	if !types.Implements(types.NewPointer(nt), errI) {
		return "", nil, false
	}
	for _, el := range cl.Elts {
		kv, isKV := el.(*ast.KeyValueExpr)
		if !isKV {
			continue
		}
		if f, _ := objOf(m.info, kv.Key).(*types.Var); f != nil && f.IsField() && f.Name() == "ID" && namedPath(f.Type()) == c13OsmPath+".FeatureID" {
			id = kv.Value
		}
	}
	return nt.Obj().Name(), id, id != nil
}

// c13IsFeatureIDOf reports whether e is `<obj>.FeatureID()`.
func c13IsFeatureIDOf(info *types.Info, e ast.Expr, obj types.Object) bool {
	call, ok := ast.Unparen(e).(*ast.CallExpr)
	if !ok || len(call.Args) != 0 {
		return false
	}
	sel, ok := ast.Unparen(call.Fun).(*ast.SelectorExpr)
	if !ok || objOf(info, sel.X) != obj || obj == nil {
		return false
	}
	fn := callee(info, call)
	return fn != nil && fn.Name() == "FeatureID" && c13KindOfElem(fn.Type().(*types.Signature).Recv().Type()) >= 0
}

// c13FieldOfObj reports whether e is `<obj>.<name>` (a field).
func c13FieldOfObj(info *types.Info, e ast.Expr, obj types.Object, name string) bool {
	f := fieldOf(info, e)
	if f == nil || f.Name() != name || obj == nil {
		return false
	}
	return objOf(info, ast.Unparen(e).(*ast.SelectorExpr).X) == obj
}

func c13S2(r *core.R) {
	m := c13Load(r)
	if m == nil {
		return
	}
	for k := range c13Kinds {
		c13S2One(r, m, k)
	}
}

func c13S2One(r *core.R, m *c13Model, k int) {
	info := m.info
	fi := m.find[k]
	fn := fi.Name()
	kn := c13Kinds[k]
	body := fi.Decl.Body
	g := newCFG(info, body)
	dom := dominators(g)
	r.Stat("functions", 1)
	r.Stat("cfg_blocks", len(g.Blocks))

	// parameters by role
	sig := fi.Obj.Type().(*types.Signature)
	var elem, ign *types.Var
	nbool := 0
	for i := 0; i < sig.Params().Len(); i++ {
		p := sig.Params().At(i)
		if c13KindOfElem(p.Type()) == k {
			elem = p
		}
		if types.Identical(p.Type(), types.Typ[types.Bool]) {
			ign = p
			nbool++
		}
	}
	if elem == nil || ign == nil || nbool != 1 {
		r.Unknown("history@"+fn, fi.Decl.Pos(), "parameters not recognised: need one *osm.%s and exactly one bool (ignore-missing)", kn.Elem)
		return
	}

	// --- history fetch -------------------------------------------------------------------
	var hist, herr types.Object
	var hcall *ast.CallExpr
	var hstmt *ast.AssignStmt
	nHist := 0
	wrongKind := ""
	inspectNoLit(body, func(n ast.Node) bool {
		as, ok := n.(*ast.AssignStmt)
		if !ok || len(as.Rhs) != 1 {
			return true
		}
		call, ok := ast.Unparen(as.Rhs[0]).(*ast.CallExpr)
		if !ok {
			return true
		}
		cf := callee(info, call)
		if cf == nil || cf.Type().(*types.Signature).Recv() == nil || namedPath(cf.Type().(*types.Signature).Recv().Type()) != c13OsmPath+".HistoryDatasourcer" {
			return true
		}
		if !strings.HasSuffix(cf.Name(), "History") {
			return true
		}
		nHist++
		if cf.Name() != kn.Hist {
			wrongKind = cf.Name()
		}
		if len(as.Lhs) == 2 {
			hist, herr, hcall, hstmt = objOf(info, as.Lhs[0]), objOf(info, as.Lhs[1]), call, as
		}
		return true
	})
	c := "history@" + fn
	switch {
	case nHist != 1 || hcall == nil:
		r.Unknown(c, fi.Decl.Pos(), "expected exactly one `hist, err := ds.%s(ctx, elem.ID)` call, found %d history call(s)", kn.Hist, nHist)
		return
	case wrongKind != "":
		r.Bad(c, hcall.Pos(), "the predecessor of a %s is looked up with %s: `%s`; the old state would come from another element kind's history", kn.Elem, wrongKind, src(m.fset, hcall))
		return
	case hist == nil || herr == nil:
		r.Bad(c, hcall.Pos(), "the history or its error is discarded: `%s`", src(m.fset, hstmt))
		return
	case len(hcall.Args) != 2 || !c13FieldOfObj(info, hcall.Args[1], elem, "ID"):
		r.Bad(c, hcall.Pos(), "the history is not requested for the element's own id: `%s`", src(m.fset, hcall))
		return
	}
	// the loop over the history
	var loop *ast.RangeStmt
	inspectNoLit(body, func(n ast.Node) bool {
		if rs, ok := n.(*ast.RangeStmt); ok && objOf(info, rs.X) == hist {
			loop = rs
		}
		return true
	})
	if loop == nil {
		r.Unknown("select@"+fn, fi.Decl.Pos(), "no range loop over the history %s; accepted idiom: index + running-maximum scan", hist.Name())
		return
	}
	head, done := c13LoopBlocks(g, loop)
	if head == nil || done == nil {
		r.Unknown("select@"+fn, loop.Pos(), "history loop not found in the control-flow graph")
		return
	}
	// error of the history call: tested != nil before the loop, returned unchanged
	{
		okErr, why := false, "no `if err != nil { return nil, err }` between the history call and the search loop"
		hb, _ := blockOf(g, hcall.Pos())
		for _, b := range g.Blocks {
			e := c13CondOf(b)
			if e == nil || !dom[head][b] || hb == nil || !(b == hb || dom[b][hb]) {
				continue
			}
			for _, a := range c13Split(e, true, b) {
				obj, isNil, ok := c13NilTest(info, a)
				if !ok || obj != herr || isNil {
					continue
				}
				ret := c13ReturnOf(b.Succs[0])
				if ret == nil || len(ret.Results) != 2 {
					why = "the non-nil history error does not lead to a return"
					continue
				}
				if objOf(info, ret.Results[1]) != herr {
					why = "the history error is replaced by `" + src(m.fset, ret.Results[1]) + "`: checkErr can no longer classify it with ds.NotFound"
					continue
				}
				if !c13IsNil(info, ret.Results[0]) {
					why = "a non-nil element is returned together with the history error"
					continue
				}
				okErr = true
			}
		}
		if len(c13AssignsTo(info, body, herr)) != 1 || len(c13AssignsTo(info, body, hist)) != 1 {
			okErr, why = false, "the history or its error variable is reassigned"
		}
		if len(c13AssignsTo(info, body, elem)) != 0 {
			okErr, why = false, "the element parameter "+elem.Name()+" is reassigned: later uses no longer denote the change element"
		}
		if okErr {
			r.OK(c, hcall.Pos(), "`%s` fetches the history of the element's own id with the %s method; a non-nil error is returned unchanged before the search", src(m.fset, hstmt), kn.Elem)
		} else {
			r.Bad(c, hcall.Pos(), "%s", why)
		}
	}

	// --- selection ---------------------------------------------------------------------------
	c = "select@" + fn
	var cand, idx types.Object
	if loop.Key != nil {
		idx = objOf(info, loop.Key)
	}
	if loop.Value != nil {
		cand = objOf(info, loop.Value)
	}
	if idx == nil {
		r.Unknown(c, loop.Pos(), "the history loop has no index variable; accepted idiom records the index of the best candidate")
		return
	}
	// candVersion: cand.Version, hist[idx].Version or a local defined once from it
	var isCandVersion func(e ast.Expr, depth int) bool
	isCandVersion = func(e ast.Expr, depth int) bool {
		e = ast.Unparen(e)
		if f := fieldOf(info, e); f != nil && f.Name() == "Version" {
			x := ast.Unparen(e.(*ast.SelectorExpr).X)
			if cand != nil && objOf(info, x) == cand {
				return true
			}
			if ix, ok := x.(*ast.IndexExpr); ok && objOf(info, ix.X) == hist && objOf(info, ix.Index) == idx {
				return true
			}
			return false
		}
		if v := objOf(info, e); v != nil && depth == 0 && c13Within(c13Decl(v), loop.Body) {
			as := c13AssignsTo(info, body, v)
			return len(as) == 1 && as[0].rhs != nil && isCandVersion(as[0].rhs, 1)
		}
		return false
	}
	isOwnVersion := func(e ast.Expr) bool { return c13FieldOfObj(info, e, elem, "Version") }
	// max := the variable assigned the candidate's version inside the loop; loc := the variable assigned the index
	var maxV, locV types.Object
	var maxAs, locAs *ast.AssignStmt
	nMaxAs, nLocAs := 0, 0
	ast.Inspect(loop.Body, func(n ast.Node) bool {
		as, ok := n.(*ast.AssignStmt)
		if !ok || as.Tok != token.ASSIGN || len(as.Lhs) != len(as.Rhs) {
			return true
		}
		for i := range as.Lhs {
			l := objOf(info, as.Lhs[i])
			if l == nil || c13Within(c13Decl(l), loop) {
				continue
			}
			if isCandVersion(as.Rhs[i], 0) {
				maxV, maxAs = l, as
				nMaxAs++
			} else if objOf(info, as.Rhs[i]) == idx {
				locV, locAs = l, as
				nLocAs++
			}
		}
		return true
	})
	if maxV == nil || locV == nil || nMaxAs != 1 || nLocAs != 1 {
		r.Unknown(c, loop.Pos(), "search idiom not recognised: need exactly one `max = cand.Version` and one `loc = i` inside the loop over %s (found %d and %d)", hist.Name(), nMaxAs, nLocAs)
		return
	}
	bMax, _ := blockOf(g, maxAs.Pos())
	bLoc, _ := blockOf(g, locAs.Pos())
	region := reachableFrom([]*cfg.Block{head.Succs[0]}, func(b *cfg.Block) bool { return b == head })
	bad := ""
	switch {
	case bMax == nil || bLoc == nil || !region[bMax]:
		r.Unknown(c, maxAs.Pos(), "the assignments to %s/%s were not found in the loop's control-flow graph", maxV.Name(), locV.Name())
		return
	case bMax != bLoc:
		bad = fmt.Sprintf("`%s` and `%s` are in different branches: the recorded index is not the index of the running maximum", src(m.fset, maxAs), src(m.fset, locAs))
	}
	// every branch inside the loop must be a guard of the selection block; nothing may leave the loop
	guards := c13GuardsAt(g, dom, bMax)
	isGuardBlk := map[*cfg.Block]bool{}
	var inLoop []c13Atom
	for _, a := range guards {
		if region[a.blk] && a.blk != head {
			isGuardBlk[a.blk] = true
			inLoop = append(inLoop, a)
		}
	}
	for b := range region {
		if b == head || bad != "" {
			continue
		}
		if e := c13CondOf(b); e != nil && !isGuardBlk[b] {
			bad = fmt.Sprintf("the branch `%s` inside the search loop is not part of the selection condition: some history entries are treated differently", src(m.fset, e))
		}
		for _, s := range b.Succs {
			if !region[s] {
				bad = "the search loop is left early (break/goto): with an unsorted history a later entry with a greater version below the element's own is never seen"
			}
		}
		if len(b.Succs) == 0 {
			bad = "the search loop returns early: with an unsorted history a later entry with a greater version below the element's own is never seen"
		}
	}
	var sawOwn, sawMax bool
	for _, a := range inLoop {
		if bad != "" {
			break
		}
		x, y, op, ok := c13Cmp(a)
		if !ok {
			bad = fmt.Sprintf("selection conjunct `%s` is not a version comparison", src(m.fset, a.e))
			break
		}
		// orient as candVersion op other
		if !isCandVersion(x, 0) {
			x, y, op = y, x, c13Flip(op)
		}
		if !isCandVersion(x, 0) {
			bad = fmt.Sprintf("selection conjunct `%s` does not compare the candidate's Version", src(m.fset, a.e))
			break
		}
		switch {
		case isOwnVersion(y):
			sawOwn = true
			if op == token.LEQ {
				bad = fmt.Sprintf("`%s` admits a history entry with the element's own version: the element would be paired with itself as old state instead of the greatest version below", src(m.fset, a.e))
			} else if op != token.LSS {
				bad = fmt.Sprintf("`%s` (holding as `cand %s own`) does not select versions strictly below the element's own", src(m.fset, a.e), op)
			}
		case objOf(info, y) == maxV:
			sawMax = true
			if op == token.GEQ {
				bad = fmt.Sprintf("`%s` is not strict: of two history entries with the same version the later replaces the earlier", src(m.fset, a.e))
			} else if op != token.GTR {
				bad = fmt.Sprintf("`%s` (holding as `cand %s max`) does not keep the greatest version: the running maximum %s is only replaced by smaller versions", src(m.fset, a.e), op, maxV.Name())
			}
		default:
			bad = fmt.Sprintf("selection conjunct `%s` compares the candidate's Version with neither the element's own Version nor the running maximum", src(m.fset, a.e))
		}
	}
	if bad == "" && !sawOwn {
		bad = "the selection does not require the candidate's Version to be below the element's own Version: later versions present in the history are chosen"
	}
	if bad == "" && !sawMax {
		bad = "the selection does not compare against the running maximum: the last version below is chosen instead of the greatest (histories may be unsorted)"
	}
	if bad != "" {
		r.Bad(c, maxAs.Pos(), "%s", bad)
	} else {
		var gs []string
		for _, a := range inLoop {
			gs = append(gs, src(m.fset, a.e))
		}
		r.OK(c, maxAs.Pos(), "`%s; %s` execute in one block guarded exactly by {%s} (strict < own version, strict > running maximum); the loop body has no other branch and no exit", src(m.fset, maxAs), src(m.fset, locAs), strings.Join(gs, " && "))
	}

	// --- initial values ------------------------------------------------------------------------
	c = "init@" + fn
	initOf := func(v types.Object, inLoopStmt ast.Node) (int64, token.Pos, string) {
		var val int64
		var pos token.Pos
		n := 0
		for _, a := range c13AssignsTo(info, body, v) {
			if a.stmt == inLoopStmt {
				continue
			}
			n++
			pos = a.stmt.Pos()
			if c13Within(a.stmt, loop) {
				return 0, pos, fmt.Sprintf("%s is written a second time inside the loop: `%s`", v.Name(), src(m.fset, a.stmt))
			}
			if a.rhs == nil {
				if vs, ok := a.stmt.(*ast.ValueSpec); ok && len(vs.Values) == 0 {
					val = 0
					continue
				}
				return 0, pos, fmt.Sprintf("%s is written by `%s`, not by a constant initialisation", v.Name(), src(m.fset, a.stmt))
			}
			cv, ok := constInt(info, a.rhs)
			if !ok {
				return 0, pos, fmt.Sprintf("%s is initialised from the non-constant `%s`", v.Name(), src(m.fset, a.rhs))
			}
			val = cv
			if !posDominates(g, dom, a.stmt.Pos(), maxAs.Pos()) {
				return 0, pos, fmt.Sprintf("the initialisation of %s does not dominate the search loop", v.Name())
			}
		}
		if n != 1 {
			return 0, pos, fmt.Sprintf("%s has %d writes outside the selection branch; expected exactly one constant initialisation", v.Name(), n)
		}
		return val, pos, ""
	}
	maxInit, maxPos, why1 := initOf(maxV, maxAs)
	locInit, _, why2 := initOf(locV, locAs)
	switch {
	case why1 != "":
		r.Bad(c, maxPos, "%s", why1)
	case why2 != "":
		r.Bad(c, maxPos, "%s", why2)
	case maxInit > 0:
		r.Bad(c, maxPos, "the running maximum %s starts at %d: a history entry with version %d (a valid version >= 1) is never `> %s` and cannot be selected, e.g. version 1 as predecessor of version 2", maxV.Name(), maxInit, maxInit, maxV.Name())
	case locInit >= 0:
		r.Bad(c, maxPos, "the not-found sentinel of %s is %d, which is a valid index into the history", locV.Name(), locInit)
	default:
		r.OK(c, maxPos, "running maximum %s starts at the constant %d (< 1, below every valid version); %s starts at the sentinel %d (not an index); each is written only there and in the selection branch", maxV.Name(), maxInit, locV.Name(), locInit)
	}
	if why1 != "" || why2 != "" {
		return
	}

	// --- after the loop --------------------------------------------------------------------------
	c = "notfound@" + fn
	type retInfo struct {
		ret                *ast.ReturnStmt
		nf, ig             int // +1 true, -1 false, 0 unknown
		class              string
		typedName, problem string
	}
	var rets []retInfo
	for _, b := range g.Blocks {
		if !b.Live || !(b == done || dom[b][done]) {
			continue
		}
		ret := c13ReturnOf(b)
		if ret == nil {
			continue
		}
		ri := retInfo{ret: ret}
		for _, a := range c13GuardsAt(g, dom, b) {
			if !(a.blk == done || dom[a.blk][done]) {
				continue
			}
			if o := objOf(info, a.e); o == ign {
				ri.ig = map[bool]int{true: 1, false: -1}[a.val]
				continue
			}
			x, y, op, ok := c13Cmp(a)
			if !ok {
				ri.problem = "unrecognised guard `" + src(m.fset, a.e) + "`"
				continue
			}
			if objOf(info, x) != locV {
				x, y, op = y, x, c13Flip(op)
			}
			cv, isC := constInt(info, y)
			if objOf(info, x) != locV || !isC {
				ri.problem = "unrecognised guard `" + src(m.fset, a.e) + "`"
				continue
			}
			// loc ranges over {locInit} ∪ [0, len): decide whether the guard means found or not found
			switch {
			case (op == token.EQL && cv == locInit) || (op == token.LSS && cv > locInit && cv <= 0) || (op == token.LEQ && cv >= locInit && cv < 0):
				ri.nf = 1
			case (op == token.NEQ && cv == locInit) || (op == token.GEQ && cv > locInit && cv <= 0) || (op == token.GTR && cv >= locInit && cv < 0):
				ri.nf = -1
			default:
				ri.problem = fmt.Sprintf("the test `%s` does not separate the sentinel %d from valid indices", src(m.fset, a.e), locInit)
			}
		}
		if len(ret.Results) != 2 {
			ri.problem = "return without two results"
		} else {
			r0, r1 := ret.Results[0], ret.Results[1]
			switch {
			case c13IsNil(info, r0) && c13IsNil(info, r1):
				ri.class = "nilnil"
			case c13IsNil(info, r0):
				tn, id, ok := c13TypedErr(m, r1)
				if !ok {
					ri.problem = "the error `" + src(m.fset, r1) + "` is not a typed annotate error carrying an ID"
				} else if !c13IsFeatureIDOf(info, id, elem) {
					ri.problem = "the typed error's ID `" + src(m.fset, id) + "` is not the element's FeatureID()"
				}
				ri.class, ri.typedName = "typed", tn
			case c13IsNil(info, r1):
				ix, ok := ast.Unparen(r0).(*ast.IndexExpr)
				if !ok || objOf(info, ix.X) != hist || objOf(info, ix.Index) != locV {
					ri.problem = "the returned element `" + src(m.fset, r0) + "` is not " + hist.Name() + "[" + locV.Name() + "]"
				}
				ri.class = "found"
			default:
				ri.problem = "unrecognised return"
			}
		}
		rets = append(rets, ri)
	}
	seen := map[string]bool{}
	bad = ""
	var typed string
	var at token.Pos = done.Stmt.End()
	for _, ri := range rets {
		seen[ri.class] = true
		p := ""
		switch {
		case ri.problem != "":
			p = ri.problem
		case ri.class == "nilnil" && (ri.nf != 1 || ri.ig != 1):
			p = "`return nil, nil` (which the caller turns into a create action) is reached without both `no earlier version` and ignoreMissing holding: a missing earlier version is silently reported as a create instead of the typed error"
		case ri.class == "typed" && (ri.nf != 1 || ri.ig != -1):
			p = "the typed error is returned although an earlier version was found or missing versions are to be ignored"
		case ri.class == "found" && ri.nf != -1:
			p = "`" + src(m.fset, ri.ret) + "` is reachable with " + locV.Name() + " still at the sentinel"
		}
		if ri.class == "typed" {
			typed = ri.typedName
		}
		if p != "" && bad == "" {
			bad, at = p, ri.ret.Pos()
		}
	}
	for _, cl := range []string{"nilnil", "typed", "found"} {
		if bad == "" && !seen[cl] {
			bad = map[string]string{
				"nilnil": "no `return nil, nil` under ignoreMissing: a missing earlier version cannot turn the action into a create",
				"typed":  "a missing earlier version never yields the typed error, with or without ignoreMissing",
				"found":  "the selected history entry is never returned",
			}[cl]
		}
	}
	if len(rets) == 0 {
		r.Unknown(c, at, "no return after the search loop")
	} else if bad != "" {
		r.Bad(c, at, "%s", bad)
	} else {
		r.OK(c, at, "%d returns after the loop: %s[%s] only when %s left the sentinel; otherwise (nil, nil) exactly under ignoreMissing and &%s{ID: elem.FeatureID()} exactly without it", len(rets), hist.Name(), locV.Name(), locV.Name(), typed)
	}
}

// c13Decl returns a zero-width node at the declaration position of an object (for extent tests).
func c13Decl(o types.Object) ast.Node { return &ast.Ident{NamePos: o.Pos(), Name: o.Name()} }

// ---------------------------------------------------------------------------------------------
// S3 order and pairing

// c13AppendTo recognises `acc = append(acc, x...)` on the accumulator and returns the number of appended
// actions (-1 when the statement writes acc in another way).
func c13AppendTo(info *types.Info, n ast.Node, acc types.Object) (count int, touches bool, lit []ast.Expr) {
	as, ok := n.(*ast.AssignStmt)
	if !ok {
		return 0, false, nil
	}
	for i, l := range as.Lhs {
		if objOf(info, l) != acc {
			continue
		}
		if len(as.Lhs) != len(as.Rhs) || as.Tok != token.ASSIGN {
			return -1, true, nil
		}
		call, ok := ast.Unparen(as.Rhs[i]).(*ast.CallExpr)
		if !ok || builtinName(info, call) != "append" || call.Ellipsis.IsValid() || len(call.Args) < 1 || objOf(info, call.Args[0]) != acc {
			return -1, true, nil
		}
		return len(call.Args) - 1, true, call.Args[1:]
	}
	return 0, false, nil
}

// c13CountPaths computes the minimum and maximum number of appended actions over all paths through the
// body of loop rs that come back to the loop head; error returns are excluded, other exits are reported.
func c13CountPaths(m *c13Model, g *cfg.CFG, rs *ast.RangeStmt, acc types.Object) (min, max int, problem string, npaths int) {
	info := m.info
	head, _ := c13LoopBlocks(g, rs)
	if head == nil {
		return 0, 0, "loop not found in the control-flow graph", 0
	}
	type res struct {
		min, max, paths int
		none            bool // no non-error path to the head
	}
	memo := map[*cfg.Block]*res{}
	onStack := map[*cfg.Block]bool{}
	var visit func(b *cfg.Block) *res
	visit = func(b *cfg.Block) *res {
		if b == head {
			return &res{paths: 1}
		}
		if r, ok := memo[b]; ok {
			return r
		}
		if onStack[b] {
			problem = "the loop body contains an inner cycle; accepted idiom is a loop-free body"
			return &res{none: true}
		}
		onStack[b] = true
		defer func() { onStack[b] = false }()
		cnt := 0
		for _, n := range b.Nodes {
			k, touches, _ := c13AppendTo(info, n, acc)
			if touches && k < 0 {
				problem = fmt.Sprintf("`%s` writes the action list other than by appending to it", src(m.fset, n))
			}
			if k > 0 {
				cnt += k
			}
		}
		out := &res{none: true}
		if ret := c13ReturnOf(b); ret != nil {
			if len(ret.Results) == 0 || c13IsNil(info, ret.Results[len(ret.Results)-1]) {
				problem = fmt.Sprintf("`%s` leaves the loop without an error: the remaining elements get no action", src(m.fset, ret))
			}
			memo[b] = out
			return out
		}
		if len(b.Succs) == 0 {
			memo[b] = out
			return out
		}
		for _, s := range b.Succs {
			if s.Kind == cfg.KindRangeDone && s.Stmt == rs {
				problem = "a `break` leaves the loop: the remaining elements get no action"
				continue
			}
			sr := visit(s)
			if sr.none {
				continue
			}
			if out.none {
				out = &res{min: sr.min, max: sr.max, paths: sr.paths}
			} else {
				if sr.min < out.min {
					out.min = sr.min
				}
				if sr.max > out.max {
					out.max = sr.max
				}
				out.paths += sr.paths
			}
		}
		if !out.none {
			out.min += cnt
			out.max += cnt
		}
		memo[b] = out
		return out
	}
	rr := visit(head.Succs[0])
	if rr.none && problem == "" {
		problem = "no path through the loop body returns to the loop head"
	}
	return rr.min, rr.max, problem, rr.paths
}

// c13CallAssign finds the assignment statement whose single RHS is call.
func c13CallAssign(body ast.Node, call *ast.CallExpr) *ast.AssignStmt {
	var out *ast.AssignStmt
	ast.Inspect(body, func(n ast.Node) bool {
		if as, ok := n.(*ast.AssignStmt); ok && len(as.Rhs) == 1 && ast.Unparen(as.Rhs[0]) == ast.Expr(call) {
			out = as
		}
		return true
	})
	return out
}

// c13ErrReturned reports whether the error variable assigned by the statement `as` is tested `!= nil`
// in a block dominated by it, with the true edge returning that variable as last result.
func c13ErrReturned(info *types.Info, g *cfg.CFG, dom map[*cfg.Block]map[*cfg.Block]bool, as *ast.AssignStmt, errObj types.Object) bool {
	ab, _ := blockOf(g, as.Pos())
	if ab == nil || errObj == nil {
		return false
	}
	for _, b := range g.Blocks {
		e := c13CondOf(b)
		if e == nil || !(b == ab || dom[b][ab]) {
			continue
		}
		atoms := c13Split(e, true, b)
		if len(atoms) != 1 {
			continue
		}
		obj, isNil, ok := c13NilTest(info, atoms[0])
		if !ok || obj != errObj || isNil {
			continue
		}
		// nearest such test only: no other write to the error between is checked by the caller
		if ret := c13ReturnOf(b.Succs[0]); ret != nil && len(ret.Results) > 0 && objOf(info, ret.Results[len(ret.Results)-1]) == errObj {
			return true
		}
	}
	return false
}

func c13ArgFor(fn *types.Func, call *ast.CallExpr, p *types.Var) ast.Expr {
	sig := fn.Type().(*types.Signature)
	for i := 0; i < sig.Params().Len() && i < len(call.Args); i++ {
		if sig.Params().At(i) == p {
			return call.Args[i]
		}
	}
	return nil
}

func c13S3(r *core.R) {
	m := c13Load(r)
	if m == nil {
		return
	}
	info := m.info
	g, dom := m.gChange, m.domChange
	body := m.change.Decl.Body
	au := m.addUpdate.Obj

	// ---- Change: accumulator threading and order ------------------------------------------------
	modAs, delAs := c13CallAssign(body, m.modCall), c13CallAssign(body, m.delCall)
	accArgM, accArgD := c13ArgFor(au, m.modCall, m.accParam), c13ArgFor(au, m.delCall, m.accParam)
	acc0 := objOf(info, accArgM)
	c := "order@Change create-before-modify"
	if modAs == nil || delAs == nil || len(modAs.Lhs) != 2 || len(delAs.Lhs) != 2 || acc0 == nil {
		r.Unknown(c, m.modCall.Pos(), "the calls of %s are not of the form `acc, err = %s(..., acc, section, type, ...)`", au.Name(), au.Name())
		return
	}
	mb, _ := blockOf(g, m.modCall.Pos())
	db, _ := blockOf(g, m.delCall.Pos())
	bad := ""
	for k := range c13Kinds {
		rs := m.createLoops[k]
		head, _ := c13LoopBlocks(g, rs)
		if head == nil || mb == nil {
			bad = "create loop or modify call not found in the control-flow graph"
			break
		}
		// the loop ranges over the Create section
		root := rootObj(info, rs.X)
		okSrc := false
		if f := fieldOf(info, rs.X); f == m.osmFields[k] {
			x := ast.Unparen(rs.X).(*ast.SelectorExpr).X
			if fieldOf(info, x) == m.chgCreate {
				okSrc = true
			} else if root != nil {
				as := c13AssignsTo(info, body, root)
				okSrc = len(as) == 1 && as[0].rhs != nil && fieldOf(info, as[0].rhs) == m.chgCreate && objOf(info, x) == root
			}
		}
		if !okSrc {
			bad = fmt.Sprintf("the loop over `%s` does not range over change.Create.%s", src(m.fset, rs.X), c13Kinds[k].Elems)
			break
		}
		if reachableFrom([]*cfg.Block{mb}, nil)[head] {
			bad = fmt.Sprintf("the create loop over `%s` is reachable after the call handling change.Modify: create actions would follow modify actions", src(m.fset, rs.X))
			break
		}
		if !reachableFrom([]*cfg.Block{head}, nil)[mb] {
			bad = fmt.Sprintf("after the create loop over `%s` the call handling change.Modify is not reached", src(m.fset, rs.X))
			break
		}
		// the loop appends to the slice handed to the modify call
		n := 0
		ast.Inspect(rs.Body, func(x ast.Node) bool {
			if k, touches, _ := c13AppendTo(info, x, acc0); touches && k > 0 {
				n++
			}
			return true
		})
		if n == 0 {
			bad = fmt.Sprintf("the create loop over `%s` does not append to %s, the list handed to the modify call", src(m.fset, rs.X), acc0.Name())
			break
		}
	}
	if bad != "" {
		r.Bad(c, m.modCall.Pos(), "%s", bad)
	} else {
		r.OK(c, m.modCall.Pos(), "the three loops over change.Create append to %s, reach `%s` and are not reachable after it", acc0.Name(), src(m.fset, m.modCall))
	}

	c = "order@Change modify-before-delete"
	bad = ""
	typM, typD := c13ArgFor(au, m.modCall, m.typParam), c13ArgFor(au, m.delCall, m.typParam)
	secM, secD := c13ArgFor(au, m.modCall, m.secParam), c13ArgFor(au, m.delCall, m.secParam)
	ignM, ignD := c13ArgFor(au, m.modCall, m.ignPar), c13ArgFor(au, m.delCall, m.ignPar)
	_, _ = ignM, ignD
	acc1, err1 := objOf(info, modAs.Lhs[0]), objOf(info, modAs.Lhs[1])
	acc2, err2 := objOf(info, delAs.Lhs[0]), objOf(info, delAs.Lhs[1])
	var okRet *ast.ReturnStmt
	switch {
	case fieldOf(info, secM) != m.chgModify || c13ObjQ(info, typM) != m.actModify:
		bad = fmt.Sprintf("`%s` does not pair change.Modify with osm.ActionModify: modified elements get action type `%s`", src(m.fset, m.modCall), src(m.fset, typM))
	case fieldOf(info, secD) != m.chgDelete || c13ObjQ(info, typD) != m.actDelete:
		bad = fmt.Sprintf("`%s` does not pair change.Delete with osm.ActionDelete: deleted elements get action type `%s` (and visibility of that type)", src(m.fset, m.delCall), src(m.fset, typD))
	case mb == nil || db == nil || !posDominates(g, dom, m.modCall.Pos(), m.delCall.Pos()) || mb == db && m.modCall.Pos() > m.delCall.Pos():
		bad = "the call handling change.Modify does not precede the call handling change.Delete on every path: delete actions would come before modify actions"
	case acc1 == nil || objOf(info, accArgD) != acc1:
		bad = fmt.Sprintf("the delete call is handed `%s`, not the list returned by the modify call: the create/modify actions are lost", src(m.fset, accArgD))
	case acc2 == nil:
		bad = "the result of the delete call is discarded"
	case !c13ErrReturned(info, g, dom, modAs, err1) || !c13ErrReturned(info, g, dom, delAs, err2):
		bad = "the error of a modify/delete call is not returned: a missing history would go unreported"
	}
	if bad == "" {
		// success return: &osm.Diff{Actions: acc2}, nil dominated by the delete call
		inspectNoLit(body, func(n ast.Node) bool {
			ret, ok := n.(*ast.ReturnStmt)
			if !ok || len(ret.Results) != 2 || !c13IsNil(info, ret.Results[1]) {
				return true
			}
			okRet = ret
			return true
		})
		switch {
		case okRet == nil:
			bad = "no success return found in Change"
		case !posDominates(g, dom, m.delCall.Pos(), okRet.Pos()):
			bad = "the success return is not dominated by the delete call"
		default:
			found := false
			ast.Inspect(okRet.Results[0], func(n ast.Node) bool {
				if kv, ok := n.(*ast.KeyValueExpr); ok && objOf(info, kv.Key) == types.Object(m.diffActions) && objOf(info, kv.Value) == acc2 {
					found = true
				}
				return true
			})
			if !found {
				bad = fmt.Sprintf("`%s` does not return the list produced by the delete call as Diff.Actions", src(m.fset, okRet))
			}
		}
	}
	if bad != "" {
		r.Bad(c, m.delCall.Pos(), "%s", bad)
	} else {
		r.OK(c, m.delCall.Pos(), "`%s(.., change.Modify, ActionModify ..)` dominates `%s(.., change.Delete, ActionDelete ..)`; the list is threaded %s -> %s -> %s -> Diff.Actions and both errors are returned", au.Name(), au.Name(), acc0.Name(), acc1.Name(), acc2.Name())
	}

	// ---- addUpdate: threading --------------------------------------------------------------------
	c = "threading@" + m.addUpdate.Name()
	bad = ""
	nret := 0
	inspectNoLit(m.addUpdate.Decl.Body, func(n ast.Node) bool {
		ret, ok := n.(*ast.ReturnStmt)
		if !ok || len(ret.Results) != 2 || !c13IsNil(info, ret.Results[1]) {
			return true
		}
		nret++
		if objOf(info, ret.Results[0]) != types.Object(m.accParam) && bad == "" {
			bad = fmt.Sprintf("`%s` returns without error but not the accumulated list %s: actions appended so far (creates, modifies) are dropped", src(m.fset, ret), m.accParam.Name())
		}
		return true
	})
	for _, a := range c13AssignsTo(info, m.addUpdate.Decl.Body, m.accParam) {
		if k, touches, _ := c13AppendTo(info, a.stmt, m.accParam); bad == "" && (!touches || k < 0) {
			bad = fmt.Sprintf("`%s` writes the action list other than by appending", src(m.fset, a.stmt))
		}
	}
	if nret == 0 {
		r.Unknown(c, m.addUpdate.Decl.Pos(), "no success return found")
	} else if bad != "" {
		r.Bad(c, m.addUpdate.Decl.Pos(), "%s", bad)
	} else {
		r.OK(c, m.addUpdate.Decl.Pos(), "all %d non-error returns return the parameter %s, which is only ever appended to", nret, m.accParam.Name())
	}

	// ---- kind order ------------------------------------------------------------------------------
	for _, fo := range []struct {
		fi    *FuncInfo
		g     *cfg.CFG
		dom   map[*cfg.Block]map[*cfg.Block]bool
		loops [3]*ast.RangeStmt
	}{{m.change, m.gChange, m.domChange, m.createLoops}, {m.addUpdate, m.gAdd, m.domAdd, m.updLoops}} {
		c := "kind-order@" + fo.fi.Name()
		bad := ""
		for k := 0; k < 2 && bad == ""; k++ {
			_, doneA := c13LoopBlocks(fo.g, fo.loops[k])
			headB, _ := c13LoopBlocks(fo.g, fo.loops[k+1])
			headA, _ := c13LoopBlocks(fo.g, fo.loops[k])
			if doneA == nil || headB == nil || headA == nil {
				bad = "loop not found in the control-flow graph"
			} else if !(fo.dom[headB][doneA]) || reachableFrom([]*cfg.Block{headB}, nil)[headA] {
				bad = fmt.Sprintf("the loop over %s does not complete before the loop over %s starts: actions are not in node, way, relation order", c13Kinds[k].Elems, c13Kinds[k+1].Elems)
			}
		}
		// section: the update loops range over fields of the section parameter
		if fo.fi == m.addUpdate {
			for k := range c13Kinds {
				x := fo.loops[k].X
				if fieldOf(info, x) != m.osmFields[k] || objOf(info, ast.Unparen(x).(*ast.SelectorExpr).X) != types.Object(m.secParam) {
					bad = fmt.Sprintf("the loop over `%s` does not range over the %s of the section parameter %s", src(m.fset, x), c13Kinds[k].Elems, m.secParam.Name())
				}
			}
		}
		if bad != "" {
			r.Bad(c, fo.loops[0].Pos(), "%s", bad)
		} else {
			r.OK(c, fo.loops[0].Pos(), "completion of the Nodes loop dominates the Ways loop, whose completion dominates the Relations loop; no way back")
		}
	}

	// ---- exactly one action per element -------------------------------------------------------------
	for _, lo := range []struct {
		fi    *FuncInfo
		g     *cfg.CFG
		loops [3]*ast.RangeStmt
		acc   types.Object
	}{{m.change, m.gChange, m.createLoops, acc0}, {m.addUpdate, m.gAdd, m.updLoops, m.accParam}} {
		for k := range c13Kinds {
			c := "one-action@" + lo.fi.Name() + "/" + c13Kinds[k].Elem
			rs := lo.loops[k]
			min, max, problem, paths := c13CountPaths(m, lo.g, rs, lo.acc)
			r.Stat("loop_paths", paths)
			switch {
			case problem != "":
				r.Bad(c, rs.Pos(), "%s", problem)
			case min == 0:
				r.Bad(c, rs.Pos(), "a non-error path through the body of the loop over `%s` appends no action to %s: that element is missing from the diff", src(m.fset, rs.X), lo.acc.Name())
			case max > 1:
				r.Bad(c, rs.Pos(), "a path through the body of the loop over `%s` appends %d actions for one element", src(m.fset, rs.X), max)
			default:
				r.OK(c, rs.Pos(), "each of the %d non-error path(s) from the loop head back to it appends exactly one action to %s; no break or non-error return", paths, lo.acc.Name())
			}
		}
	}
}

// ---------------------------------------------------------------------------------------------
// S4 visibility and Old/New roles

type c13ActionLit struct {
	typ           ast.Expr
	osm, old, new ast.Expr
	extra         string
}

// c13ParseAction reads an osm.Action composite literal with keyed fields.
func c13ParseAction(m *c13Model, e ast.Expr) (*c13ActionLit, bool) {
	cl, ok := ast.Unparen(e).(*ast.CompositeLit)
	if !ok || namedPath(m.info.TypeOf(cl)) != c13OsmPath+".Action" {
		return nil, false
	}
	al := &c13ActionLit{}
	for _, el := range cl.Elts {
		kv, ok := el.(*ast.KeyValueExpr)
		if !ok {
			return nil, false
		}
		switch objOf(m.info, kv.Key) {
		case types.Object(m.actType):
			al.typ = kv.Value
		case types.Object(m.actOSM):
			al.osm = kv.Value
		case types.Object(m.actOld):
			al.old = kv.Value
		case types.Object(m.actNew):
			al.new = kv.Value
		default:
			al.extra = src(m.fset, kv.Key)
		}
	}
	return al, true
}

// c13Held returns the variable x of `&osm.OSM{<Elems of kind k>: osm.<Elems>{x}}`.
func c13Held(m *c13Model, e ast.Expr, k int) types.Object {
	ue, ok := ast.Unparen(e).(*ast.UnaryExpr)
	if !ok || ue.Op != token.AND {
		return nil
	}
	cl, ok := ast.Unparen(ue.X).(*ast.CompositeLit)
	if !ok || namedPath(m.info.TypeOf(cl)) != c13OsmPath+".OSM" || len(cl.Elts) != 1 {
		return nil
	}
	kv, ok := cl.Elts[0].(*ast.KeyValueExpr)
	if !ok || objOf(m.info, kv.Key) != types.Object(m.osmFields[k]) {
		return nil
	}
	in, ok := ast.Unparen(kv.Value).(*ast.CompositeLit)
	if !ok || len(in.Elts) != 1 {
		return nil
	}
	return objOf(m.info, in.Elts[0])
}

type c13AppendSite struct {
	stmt *ast.AssignStmt
	lit  *c13ActionLit
	blk  *cfg.Block
}

// c13ActionAppends lists the `acc = append(acc, osm.Action{...})` statements in a loop body.
func c13ActionAppends(m *c13Model, g *cfg.CFG, body ast.Node) (sites []c13AppendSite, problem string) {
	ast.Inspect(body, func(n ast.Node) bool {
		as, ok := n.(*ast.AssignStmt)
		if !ok || len(as.Rhs) != 1 {
			return true
		}
		call, ok := ast.Unparen(as.Rhs[0]).(*ast.CallExpr)
		if !ok || builtinName(m.info, call) != "append" {
			return true
		}
		if sl, ok := m.info.TypeOf(call).Underlying().(*types.Slice); !ok || namedPath(sl.Elem()) != c13OsmPath+".Action" {
			return true
		}
		if len(call.Args) != 2 || call.Ellipsis.IsValid() {
			problem = "`" + src(m.fset, as) + "` does not append exactly one action"
			return true
		}
		lit, ok := c13ParseAction(m, call.Args[1])
		if !ok {
			problem = "the appended action `" + src(m.fset, call.Args[1]) + "` is not a keyed osm.Action literal"
			return true
		}
		b, _ := blockOf(g, as.Pos())
		if b == nil {
			problem = "append not found in the control-flow graph"
			return true
		}
		sites = append(sites, c13AppendSite{as, lit, b})
		return true
	})
	return
}

// c13VisibleAt finds the assignment to <e>.Visible in effect at the append site.
func c13VisibleAt(m *c13Model, g *cfg.CFG, dom map[*cfg.Block]map[*cfg.Block]bool, loop *ast.RangeStmt, e types.Object, site c13AppendSite) (rhs ast.Expr, problem string) {
	info := m.info
	head, _ := c13LoopBlocks(g, loop)
	var best *ast.AssignStmt
	var all []*ast.AssignStmt
	ast.Inspect(loop.Body, func(n ast.Node) bool {
		as, ok := n.(*ast.AssignStmt)
		if !ok {
			return true
		}
		for _, l := range as.Lhs {
			if c13FieldOfObj(info, l, e, "Visible") {
				all = append(all, as)
			}
		}
		return true
	})
	// The elements are pointers, so a write after the append (same iteration, on every path) counts as well.
	inIter := func(from *cfg.Block) map[*cfg.Block]bool {
		return reachableFrom([]*cfg.Block{from}, func(b *cfg.Block) bool { return b == head })
	}
	for _, as := range all {
		if len(as.Lhs) != 1 || len(as.Rhs) != 1 || as.Tok != token.ASSIGN {
			return nil, "`" + src(m.fset, as) + "` is not a plain assignment to Visible"
		}
		ab, _ := blockOf(g, as.Pos())
		if ab == nil {
			return nil, "Visible write not found in the control-flow graph"
		}
		onPath := false
		switch {
		case posDominates(g, dom, as.Pos(), site.stmt.Pos()):
			onPath = true
		case posDominates(g, dom, site.stmt.Pos(), as.Pos()):
			// every way from the append back to the loop head passes the write
			onPath = ab == site.blk || !reachableFrom(site.blk.Succs, func(b *cfg.Block) bool { return b == ab })[head]
		}
		if onPath {
			if best == nil || posDominates(g, dom, best.Pos(), as.Pos()) {
				best = as
			} else if !posDominates(g, dom, as.Pos(), best.Pos()) {
				return nil, "the writes to " + e.Name() + ".Visible are not in one line of control flow"
			}
			continue
		}
		if inIter(ab)[site.blk] || inIter(site.blk)[ab] {
			return nil, "`" + src(m.fset, as) + "` writes Visible on some but not all paths through the append"
		}
	}
	if best == nil {
		return nil, "no assignment to " + e.Name() + ".Visible accompanies the append on every path: the change's own visible attribute (absent = false in an osmChange) is kept"
	}
	return best.Rhs[0], ""
}

// c13EvalVisible evaluates a visibility expression of addUpdate for the cases "action type is delete" / "is not delete".
func c13EvalVisible(m *c13Model, e ast.Expr) (whenDelete, otherwise bool, how string, ok bool) {
	info := m.info
	if b, isC := c13ConstBool(info, e); isC {
		return b, b, fmt.Sprintf("constant %v", b), true
	}
	typeTest := func(a c13Atom) (isDelete bool, ok bool) { // atom holds iff action type (==|!=) delete
		x, y, op, okc := c13Cmp(a)
		if !okc || (op != token.EQL && op != token.NEQ) {
			return false, false
		}
		if c13ObjQ(info, x) == m.actDelete {
			x, y = y, x
		}
		if objOf(info, x) != types.Object(m.typParam) || c13ObjQ(info, y) != m.actDelete {
			return false, false
		}
		return op == token.EQL, true
	}
	if len(c13AssignsTo(info, m.addUpdate.Decl.Body, m.typParam)) != 0 {
		return false, false, "the action type parameter is reassigned", false
	}
	if isDel, okT := typeTest(c13Atom{e: e, val: true}); okT {
		return isDel, !isDel, "`" + src(m.fset, e) + "`", true
	}
	v, _ := objOf(info, e).(*types.Var)
	if v == nil || v.IsField() {
		return false, false, "`" + src(m.fset, e) + "` is neither a constant, a test of the action type against osm.ActionDelete, nor a local flag", false
	}
	var initV *bool
	var initStmt ast.Node
	whenDelete, otherwise = false, false
	type gw struct {
		val, onDelete bool
		stmt          ast.Node
	}
	var guarded []gw
	for _, a := range c13AssignsTo(info, m.addUpdate.Decl.Body, v) {
		var val bool
		if a.rhs == nil {
			vs, isVS := a.stmt.(*ast.ValueSpec)
			if !isVS || len(vs.Values) != 0 {
				return false, false, "`" + src(m.fset, a.stmt) + "` writes the flag in an unrecognised way", false
			}
		} else {
			b, isC := c13ConstBool(info, a.rhs)
			if !isC {
				return false, false, "`" + src(m.fset, a.stmt) + "` assigns a non-constant to the flag", false
			}
			val = b
		}
		for k := range c13Kinds {
			if c13Within(a.stmt, m.updLoops[k]) {
				return false, false, "the flag is written inside an element loop", false
			}
		}
		blk, _ := blockOf(m.gAdd, a.stmt.Pos())
		if blk == nil {
			return false, false, "flag write not found in the control-flow graph", false
		}
		gs := c13GuardsAt(m.gAdd, m.domAdd, blk)
		// ignore the `section == nil` early-return guard (about the section parameter, not the type)
		var rel []c13Atom
		for _, g := range gs {
			if o, _, okN := c13NilTest(info, g); okN && o == types.Object(m.secParam) {
				continue
			}
			rel = append(rel, g)
		}
		switch len(rel) {
		case 0:
			if initV != nil {
				return false, false, "the flag has two unconditional writes", false
			}
			vv := val
			initV, initStmt = &vv, a.stmt
		case 1:
			isDel, okT := typeTest(rel[0])
			if !okT {
				return false, false, "the flag is written under `" + src(m.fset, rel[0].e) + "`, which is not a test of the action type against osm.ActionDelete", false
			}
			guarded = append(guarded, gw{val, isDel, a.stmt})
		default:
			return false, false, "the flag is written under several conditions", false
		}
	}
	if initV == nil {
		return false, false, "the flag has no unconditional initialisation", false
	}
	whenDelete, otherwise = *initV, *initV
	for _, w := range guarded {
		if !posDominates(m.gAdd, m.domAdd, initStmt.Pos(), w.stmt.Pos()) {
			return false, false, "the flag's initialisation does not dominate its conditional write", false
		}
		if w.onDelete {
			whenDelete = w.val
		} else {
			otherwise = w.val
		}
	}
	for k := range c13Kinds {
		if h, _ := c13LoopBlocks(m.gAdd, m.updLoops[k]); h != nil {
			for _, w := range guarded {
				if wb, _ := blockOf(m.gAdd, w.stmt.Pos()); wb == nil || reachableFrom([]*cfg.Block{h}, nil)[wb] {
					return false, false, "the flag is written after an element loop has started", false
				}
			}
		}
	}
	return whenDelete, otherwise, fmt.Sprintf("flag %s: initialised %v, set to %v under the action-type test (%d conditional write(s))", v.Name(), *initV, whenDelete, len(guarded)), true
}

func c13S4(r *core.R) {
	m := c13Load(r)
	if m == nil {
		return
	}
	info := m.info
	// ---- create loops ---------------------------------------------------------------------------
	for k := range c13Kinds {
		c := "create@Change/" + c13Kinds[k].Elem
		rs := m.createLoops[k]
		e := types.Object(nil)
		if rs.Value != nil {
			e = objOf(info, rs.Value)
		}
		sites, problem := c13ActionAppends(m, m.gChange, rs.Body)
		if e == nil || problem != "" || len(sites) == 0 {
			r.Unknown(c, rs.Pos(), "create loop shape not recognised (%s); accepted: `for _, e := range o.X { e.Visible = true; acc = append(acc, osm.Action{Type: ActionCreate, OSM: &osm.OSM{X: {e}}}) }`", problem)
			continue
		}
		bad := ""
		for _, s := range sites {
			vis, p := c13VisibleAt(m, m.gChange, m.domChange, rs, e, s)
			switch {
			case p != "":
				bad = p
			case c13ObjQ(info, s.lit.typ) != m.actCreate:
				bad = fmt.Sprintf("a created %s gets action type `%s`, not osm.ActionCreate", c13Kinds[k].Elem, src(m.fset, s.lit.typ))
			case s.lit.osm == nil || c13Held(m, s.lit.osm, k) != e:
				bad = fmt.Sprintf("the create action does not hold the created element %s in OSM.%s: `%s`", e.Name(), c13Kinds[k].Elems, src(m.fset, s.stmt))
			case s.lit.old != nil || s.lit.new != nil || s.lit.extra != "":
				bad = "a create action carries Old/New or other fields"
			default:
				if b, isC := c13ConstBool(info, vis); !isC || !b {
					bad = fmt.Sprintf("a created %s is marked `Visible = %s`, not visible", c13Kinds[k].Elem, src(m.fset, vis))
				}
			}
		}
		if bad != "" {
			r.Bad(c, rs.Pos(), "%s", bad)
		} else {
			r.OK(c, rs.Pos(), "`%s.Visible = true` dominates the append of Action{Type: ActionCreate, OSM: {%s: {%s}}}", e.Name(), c13Kinds[k].Elems, e.Name())
		}
	}
	// ---- update loops -----------------------------------------------------------------------------
	flagSeen := map[string]bool{}
	for k := range c13Kinds {
		kn := c13Kinds[k]
		rs := m.updLoops[k]
		cF, cU := "fallback@"+m.addUpdate.Name()+"/"+kn.Elem, "update@"+m.addUpdate.Name()+"/"+kn.Elem
		var e types.Object
		if rs.Value != nil {
			e = objOf(info, rs.Value)
		}
		var findAs *ast.AssignStmt
		ast.Inspect(rs.Body, func(n ast.Node) bool {
			if as, ok := n.(*ast.AssignStmt); ok && len(as.Rhs) == 1 && len(as.Lhs) == 2 {
				if call, ok := ast.Unparen(as.Rhs[0]).(*ast.CallExpr); ok && callee(info, call) == m.find[k].Obj {
					findAs = as
				}
			}
			return true
		})
		sites, problem := c13ActionAppends(m, m.gAdd, rs.Body)
		if e == nil || findAs == nil || problem != "" {
			r.Unknown(cU, rs.Pos(), "update loop shape not recognised (%s); accepted: `old, err := %s(.., e, ..)` followed by appends of osm.Action literals", problem, m.find[k].Name())
			continue
		}
		old := objOf(info, findAs.Lhs[0])
		fcall := ast.Unparen(findAs.Rhs[0]).(*ast.CallExpr)
		passesElem := false
		for _, a := range fcall.Args {
			if objOf(info, a) == e {
				passesElem = true
			}
		}
		if old == nil || !passesElem || len(c13AssignsTo(info, rs.Body, old)) != 1 {
			r.Bad(cU, findAs.Pos(), "`%s` does not bind the predecessor of the loop element %s to a variable written once", src(m.fset, findAs), e.Name())
			continue
		}
		var badF, badU string
		nF, nU := 0, 0
		for _, s := range sites {
			branch := 0 // +1 old == nil, -1 old != nil
			for _, a := range c13GuardsAt(m.gAdd, m.domAdd, s.blk) {
				if o, isNil, ok := c13NilTest(info, a); ok && o == old {
					branch = map[bool]int{true: 1, false: -1}[isNil]
				}
			}
			vis, p := c13VisibleAt(m, m.gAdd, m.domAdd, rs, e, s)
			switch branch {
			case 0:
				badU = fmt.Sprintf("`%s` is appended without a test of %s against nil deciding between create and %s", src(m.fset, s.stmt), old.Name(), "modify/delete")
			case 1:
				nF++
				switch {
				case p != "":
					badF = p
				case c13ObjQ(info, s.lit.typ) != m.actCreate:
					badF = fmt.Sprintf("without a predecessor (%s == nil) the action type is `%s`, not osm.ActionCreate", old.Name(), src(m.fset, s.lit.typ))
				case s.lit.osm == nil || c13Held(m, s.lit.osm, k) != e || s.lit.old != nil || s.lit.new != nil || s.lit.extra != "":
					badF = fmt.Sprintf("the fallback create action does not hold exactly the change element %s in OSM.%s: `%s`", e.Name(), kn.Elems, src(m.fset, s.stmt))
				default:
					if b, isC := c13ConstBool(info, vis); !isC || !b {
						badF = fmt.Sprintf("an element turned into a create (missing history ignored) is marked `Visible = %s`; a create must be visible even when the element came from the delete section", src(m.fset, vis))
					}
				}
			case -1:
				nU++
				switch {
				case p != "":
					badU = p
				case objOf(info, s.lit.typ) != types.Object(m.typParam):
					badU = fmt.Sprintf("the action type is `%s`, not the caller's action type %s: elements of the other section get the wrong type", src(m.fset, s.lit.typ), m.typParam.Name())
				case s.lit.old == nil || s.lit.new == nil || s.lit.osm != nil || s.lit.extra != "":
					badU = fmt.Sprintf("a modify/delete action must carry exactly Old and New: `%s`", src(m.fset, s.stmt))
				case c13Held(m, s.lit.old, k) != old:
					badU = fmt.Sprintf("Old holds `%s`, not the history element %s returned by %s", src(m.fset, s.lit.old), old.Name(), m.find[k].Name())
				case c13Held(m, s.lit.new, k) != e:
					badU = fmt.Sprintf("New holds `%s`, not the change element %s", src(m.fset, s.lit.new), e.Name())
				default:
					wd, ow, how, ok := c13EvalVisible(m, vis)
					key := src(m.fset, vis)
					if !flagSeen[key] {
						flagSeen[key] = true
						cV := "visible-flag@" + m.addUpdate.Name()
						switch {
						case !ok:
							r.Unknown(cV, vis.Pos(), "visibility expression not recognised: %s", how)
						case wd || !ow:
							r.Bad(cV, vis.Pos(), "the new state's Visible evaluates to %v for osm.ActionDelete and %v otherwise (%s); required false for delete, true for modify", wd, ow, how)
						default:
							r.OK(cV, vis.Pos(), "Visible is false exactly when the action type is osm.ActionDelete (%s)", how)
						}
					}
					if !ok {
						badU = "visibility expression not recognised: " + how
					} else if wd || !ow {
						badU = fmt.Sprintf("`%s.Visible = %s` is %v for delete and %v for modify; required false and true", e.Name(), key, wd, ow)
					}
				}
			}
		}
		if nF == 0 && badF == "" {
			badF = fmt.Sprintf("no create action under `%s == nil`: with missing histories ignored the element gets no create action", old.Name())
		}
		if nU == 0 && badU == "" {
			badU = fmt.Sprintf("no action under `%s != nil`", old.Name())
		}
		if badF != "" {
			r.Bad(cF, rs.Pos(), "%s", badF)
		} else {
			r.OK(cF, rs.Pos(), "under `%s == nil`: `%s.Visible = true` dominates the append of Action{Type: ActionCreate, OSM: {%s: {%s}}}", old.Name(), e.Name(), kn.Elems, e.Name())
		}
		if badU != "" {
			r.Bad(cU, rs.Pos(), "%s", badU)
		} else {
			r.OK(cU, rs.Pos(), "under `%s != nil`: Type is the caller's %s, Old holds %s (result of %s), New holds the loop element %s whose Visible is false iff delete", old.Name(), m.typParam.Name(), old.Name(), m.find[k].Name(), e.Name())
		}
	}
}

// ---------------------------------------------------------------------------------------------
// S5 error mapping

func c13S5(r *core.R) {
	m := c13Load(r)
	if m == nil {
		return
	}
	info := m.info
	ce := m.checkErr
	cn := ce.Name()
	sig := ce.Obj.Type().(*types.Signature)
	errT := types.Universe.Lookup("error").Type()
	var errP, ignP, idP, dsP *types.Var
	nb := 0
	for i := 0; i < sig.Params().Len(); i++ {
		p := sig.Params().At(i)
		switch {
		case types.Identical(p.Type(), errT):
			errP = p
		case types.Identical(p.Type(), types.Typ[types.Bool]):
			ignP = p
			nb++
		case namedPath(p.Type()) == c13OsmPath+".FeatureID":
			idP = p
		case namedPath(p.Type()) == c13OsmPath+".HistoryDatasourcer":
			dsP = p
		}
	}
	if errP == nil || ignP == nil || idP == nil || dsP == nil || nb != 1 {
		r.Unknown("return@"+cn, ce.Decl.Pos(), "parameters not recognised: need error, one bool, osm.FeatureID, osm.HistoryDatasourcer")
		return
	}
	for _, p := range []*types.Var{errP, ignP, idP, dsP} {
		if len(c13AssignsTo(info, ce.Decl.Body, p)) != 0 {
			r.Unknown("return@"+cn, ce.Decl.Pos(), "parameter %s is reassigned", p.Name())
			return
		}
	}
	g := newCFG(info, ce.Decl.Body)
	dom := dominators(g)
	r.Stat("functions", 1)
	tri := func(v int) string { return map[int]string{1: "", -1: "!", 0: "?"}[v] }
	nret := 0
	for _, b := range g.Blocks {
		if !b.Live {
			continue
		}
		ret := c13ReturnOf(b)
		if ret == nil {
			continue
		}
		nret++
		errNil, notFound, ign := 0, 0, 0
		problem := ""
		for _, a := range c13GuardsAt(g, dom, b) {
			if o := objOf(info, a.e); o == types.Object(ignP) {
				ign = map[bool]int{true: 1, false: -1}[a.val]
				continue
			}
			if o, isNil, ok := c13NilTest(info, a); ok && o == types.Object(errP) {
				errNil = map[bool]int{true: 1, false: -1}[isNil]
				continue
			}
			if call, ok := ast.Unparen(a.e).(*ast.CallExpr); ok && isMethod(callee(info, call), c13OsmPath+".HistoryDatasourcer", "NotFound") &&
				len(call.Args) == 1 && objOf(info, call.Args[0]) == types.Object(errP) {
				notFound = map[bool]int{true: 1, false: -1}[a.val]
				continue
			}
			problem = "unrecognised guard `" + src(m.fset, a.e) + "`"
		}
		class := "?"
		if len(ret.Results) == 1 {
			res := ret.Results[0]
			switch {
			case c13IsNil(info, res):
				class = "nil"
			case objOf(info, res) == types.Object(errP):
				class = "err"
			default:
				if tn, id, ok := c13TypedErr(m, res); ok {
					class = "typed"
					if objOf(info, id) != types.Object(idP) {
						problem = fmt.Sprintf("the %s's ID `%s` is not the id parameter %s", tn, src(m.fset, id), idP.Name())
					}
				}
			}
		}
		c := fmt.Sprintf("return@%s %s[%serr==nil,%snotfound,%signore]", cn, class, tri(errNil), tri(notFound), tri(ign))
		what := fmt.Sprintf("`%s` under {err==nil:%s notFound:%s ignoreMissing:%s}", src(m.fset, ret), c13Tri(errNil), c13Tri(notFound), c13Tri(ign))
		switch {
		case problem != "":
			r.Unknown(c, ret.Pos(), "%s", problem)
		case class == "?":
			r.Unknown(c, ret.Pos(), "`%s` returns neither nil, the error parameter nor a typed annotate error", src(m.fset, ret))
		case class == "nil" && !(errNil == 1 || (notFound == 1 && ign == 1)):
			r.Bad(c, ret.Pos(), "%s swallows an error: nil may be returned only for a nil error or for a not-found error when missing histories are ignored; the caller then turns the element into a create action", what)
		case class == "typed" && !(notFound == 1 && ign == -1):
			r.Bad(c, ret.Pos(), "%s: the typed error belongs to not-found errors when missing histories are not ignored, and only there", what)
		case class == "err" && !(errNil == 1 || notFound == -1):
			r.Bad(c, ret.Pos(), "%s: a not-found error is passed through instead of being mapped (nil under ignoreMissing, typed error otherwise)", what)
		default:
			r.OK(c, ret.Pos(), "%s is the required mapping", what)
		}
	}
	if nret < 3 {
		r.Bad("return@"+cn+" coverage", ce.Decl.Pos(), "%s has only %d return(s): the three outcomes nil / typed error / unchanged error cannot all be produced", cn, nret)
	}

	// ---- call sites ---------------------------------------------------------------------------------
	addSig := m.addUpdate.Obj.Type().(*types.Signature)
	var addDs *types.Var
	for i := 0; i < addSig.Params().Len(); i++ {
		if p := addSig.Params().At(i); namedPath(p.Type()) == c13OsmPath+".HistoryDatasourcer" {
			addDs = p
		}
	}
	for k := range c13Kinds {
		kn := c13Kinds[k]
		c := "call@" + m.addUpdate.Name() + "/" + kn.Elem
		rs := m.updLoops[k]
		var e types.Object
		if rs.Value != nil {
			e = objOf(info, rs.Value)
		}
		var findAs *ast.AssignStmt
		var ceCall *ast.CallExpr
		nce := 0
		ast.Inspect(rs.Body, func(n ast.Node) bool {
			switch x := n.(type) {
			case *ast.AssignStmt:
				if len(x.Rhs) == 1 && len(x.Lhs) == 2 {
					if call, ok := ast.Unparen(x.Rhs[0]).(*ast.CallExpr); ok && callee(info, call) == m.find[k].Obj {
						findAs = x
					}
				}
			case *ast.CallExpr:
				if callee(info, x) == ce.Obj {
					ceCall = x
					nce++
				}
			}
			return true
		})
		if e == nil || findAs == nil || ceCall == nil || nce != 1 {
			r.Unknown(c, rs.Pos(), "expected one `old, err := %s(...)` and one call of %s in the loop over %s", m.find[k].Name(), cn, kn.Elems)
			continue
		}
		fcall := ast.Unparen(findAs.Rhs[0]).(*ast.CallExpr)
		ferr := objOf(info, findAs.Lhs[1])
		var findIgn, findDs *types.Var
		fsig := m.find[k].Obj.Type().(*types.Signature)
		for i := 0; i < fsig.Params().Len(); i++ {
			p := fsig.Params().At(i)
			if types.Identical(p.Type(), types.Typ[types.Bool]) {
				findIgn = p
			}
			if namedPath(p.Type()) == c13OsmPath+".HistoryDatasourcer" {
				findDs = p
			}
		}
		// result handling: res := checkErr(...); res != nil -> return ..., res ; dominates every append
		cas := c13CallAssign(rs.Body, ceCall)
		var res types.Object
		if cas != nil && len(cas.Lhs) == 1 {
			res = objOf(info, cas.Lhs[0])
		}
		bad := ""
		switch {
		case ferr == nil:
			bad = fmt.Sprintf("`%s` discards the search error", src(m.fset, findAs))
		case objOf(info, c13ArgFor(ce.Obj, ceCall, errP)) != ferr:
			bad = fmt.Sprintf("`%s` is not handed the error of `%s`", src(m.fset, ceCall), src(m.fset, fcall))
		case !c13IsFeatureIDOf(info, c13ArgFor(ce.Obj, ceCall, idP), e):
			bad = fmt.Sprintf("`%s` does not identify the loop element: the id argument `%s` is not %s.FeatureID()", src(m.fset, ceCall), src(m.fset, c13ArgFor(ce.Obj, ceCall, idP)), e.Name())
		case objOf(info, c13ArgFor(ce.Obj, ceCall, ignP)) != types.Object(m.ignPar):
			bad = fmt.Sprintf("`%s` passes `%s` as ignore-missing flag instead of the caller's option %s", src(m.fset, ceCall), src(m.fset, c13ArgFor(ce.Obj, ceCall, ignP)), m.ignPar.Name())
		case findIgn == nil || objOf(info, c13ArgFor(m.find[k].Obj, fcall, findIgn)) != types.Object(m.ignPar):
			bad = fmt.Sprintf("`%s` is not handed the caller's ignore-missing option %s", src(m.fset, fcall), m.ignPar.Name())
		case addDs == nil || findDs == nil || objOf(info, c13ArgFor(m.find[k].Obj, fcall, findDs)) != types.Object(addDs) || objOf(info, c13ArgFor(ce.Obj, ceCall, dsP)) != types.Object(addDs):
			bad = "the search and the error mapper are not handed the caller's datasource"
		case res == nil:
			bad = fmt.Sprintf("the result of `%s` is not bound to a variable and tested", src(m.fset, ceCall))
		case !posDominates(m.gAdd, m.domAdd, findAs.Pos(), ceCall.Pos()):
			bad = "the error mapper is not dominated by the search whose error it maps"
		case !c13ErrReturned(info, m.gAdd, m.domAdd, cas, res):
			bad = fmt.Sprintf("a non-nil result of `%s` is not returned as the error", src(m.fset, ceCall))
		}
		if bad == "" {
			sites, _ := c13ActionAppends(m, m.gAdd, rs.Body)
			for _, s := range sites {
				if !posDominates(m.gAdd, m.domAdd, ceCall.Pos(), s.stmt.Pos()) {
					bad = fmt.Sprintf("`%s` is reachable without the error of the search having been checked", src(m.fset, s.stmt))
				}
			}
		}
		if bad != "" {
			r.Bad(c, ceCall.Pos(), "%s", bad)
		} else {
			r.OK(c, ceCall.Pos(), "`%s` maps the error of `%s` with the element's FeatureID and the caller's option; a non-nil result is returned before any action is appended", src(m.fset, ceCall), src(m.fset, fcall))
		}
	}

	// ---- the option -------------------------------------------------------------------------------------
	c := "ignore-option@Change"
	bad := ""
	for _, call := range []*ast.CallExpr{m.modCall, m.delCall} {
		a := c13ArgFor(m.addUpdate.Obj, call, m.ignPar)
		isOpt := func(e ast.Expr) bool {
			f := fieldOf(info, e)
			return f != nil && f.Name() == "IgnoreMissingChildren" && f.Pkg() != nil && f.Pkg().Path() == c13OsmPath+"/annotate/internal/core"
		}
		if isOpt(a) {
			continue
		}
		v := objOf(info, a)
		as := []c13Assign(nil)
		if v != nil {
			as = c13AssignsTo(info, m.change.Decl.Body, v)
		}
		if v == nil || len(as) != 1 || as[0].rhs == nil || !isOpt(as[0].rhs) {
			bad = fmt.Sprintf("`%s` is handed `%s` as ignore-missing flag, which is not Options.IgnoreMissingChildren", src(m.fset, call.Fun), src(m.fset, a))
		}
	}
	if bad != "" {
		r.Bad(c, m.modCall.Pos(), "%s", bad)
	} else {
		r.OK(c, m.modCall.Pos(), "both calls of %s receive Options.IgnoreMissingChildren as computed from the caller's options", m.addUpdate.Name())
	}
}

func c13Tri(v int) string {
	switch v {
	case 1:
		return "true"
	case -1:
		return "false"
	}
	return "either"
}
