package rules

import (
	"osmcheck/core"
)

// C13: annotating a change yields the exact old/new diff for every element.
//
// The rules do not look at the syntax of annotate/change.go. annotate.Change is executed symbolically on every
// path (c13_sym.go, c13_call.go, c13_stmt.go): calls to functions of package annotate are executed in place, conditions
// fork the path and are recorded as atoms in a normal form, loops are summarised by one execution of their body
// for an arbitrary iteration. The rules then check the resulting paths against the specification, which is stated
// in terms of the exported API only (sections of the change, datasource methods, osm.Action fields):
// a decision table per element iteration (c13_table.go), an order-relation table for the history scan
// (c13_iter.go) and the structure of the returned action list.

func init() {
	const chg = "annotate/change.go"
	register(&core.Property{
		ID:    "C13",
		Title: "Annotating a change yields the exact old/new diff for every element",
		Explanation: "annotate.Change is evaluated symbolically on every path, with every call into package annotate executed in place, so the verdicts do not depend on how the code is divided into functions, on statement shapes or on names. Decided: " +
			"(S1) the per-element behaviour (outcome for each abstract input, datasource call, history scan) of nodes, ways and relations is identical after renaming the kind-specific API names, in each section; " +
			"(S2) each element of change.Modify/Delete asks the datasource exactly once for the history of its own id with the method of its own kind; the scan of that history keeps an entry exactly when its Version is strictly below the element's own and strictly above the best so far (decided on all nine order relations), starts below every valid version with a sentinel that is not an index, has no other branch, effect or exit; without an earlier version the outcome is a create action exactly under the ignore-missing option and the typed error carrying the element's FeatureID otherwise; " +
			"(S3) on every success path Diff.Actions is an initially empty list extended by the element loops of exactly the non-nil sections, in the order create < modify < delete and nodes < ways < relations, with nothing appended elsewhere; every path through an iteration that stays in Change appends exactly one action and no path leaves a loop without a non-nil error; " +
			"(S4) created elements and elements whose missing history is ignored get Visible=true and an ActionCreate action holding exactly the change element; an element with an earlier version gets the action type of its section, Old holding the entry selected by the scan, New holding the change element, and Visible false exactly in change.Delete; " +
			"(S5) a non-nil history error leads to a create action exactly when NotFound(err) and ignore-missing hold, to the typed error with the element's FeatureID when NotFound(err) holds without ignore-missing, and is returned unchanged otherwise; iteration paths depend on no other condition and have no other effect; the ignore-missing flag is Options.IgnoreMissingChildren read after all options were applied; errors outside element iterations come from applying an option. " +
			"Error values are tracked through interface conversions: a nil pointer of a concrete error type returned, assigned or passed as `error` is a distinct non-nil value (typed nil), so `no error` means the untyped nil on every path that requires it. Loop-carried state may live in locals, in the fields of a struct value, in fresh objects (builder with a list field) or behind a pointer to a local; read-only unexported package-level tables and map literals indexed by constants are evaluated. " +
			"NOT decided: behaviour of user HistoryDatasourcer implementations (contents of histories, what NotFound answers), aliasing effects of writing Visible through the caller's element pointers, which of the documented error types (NoHistoryError / NoVisibleChildError) is used, capacity/allocation of the action slice, panics on malformed input (nil elements).",
		Assumptions: []string{"go/types (x/tools v0.29.0)", "valid OSM versions are >= 1", "HistoryDatasourcer.NotFound classifies errors as documented (a function of the error)",
			"append semantics of the Go builtin", "entries of a history returned by the datasource are non-nil (the scan dereferences every entry)",
			"one-expression accessor functions of package osm (FeatureID) are evaluated from their source"},
		LevelText:  "Symbolic evaluation of every path of annotate.Change (callees in package annotate executed in place, loops summarised per iteration) checked against finite decision tables: per element iteration over {history error, NotFound, ignore-missing, earlier version found, history empty}; for the history scan over the nine order relations between the entry's version, the element's version and the best so far; plus the structure (sections, kinds, order, threading) of the returned action list on every success path.",
		LevelNote:  "Trusts the Go type checker. History contents are arbitrary (the scan table is what makes the result independent of order and gaps). Datasource implementations are not analysed. Code outside the evaluated subset of Go (goroutines, defer, goto, type switches, comma-ok forms) is reported as undecided, and an action list built by indexed stores into a presized slice as a violation; neither is accepted.",
		Technique:  "path-sensitive symbolic execution over go/ast + go/types with in-place execution of same-package callees, normalised condition atoms, per-iteration loop summaries; finite-domain evaluation of the paths against decision tables",
		DesignRef:  "DESIGN.md §5 C13",
		Exhaustive: true,
		Benign:     c13AllBenign(),
		Rules: []*core.Rule{
			{ID: "S1", Floor: 9, Doc: "node/way/relation iterations agree after kind renaming, per section", Run: c13S1},
			{ID: "S2", Floor: 12, Doc: "own-kind history of the own id; strict greatest-version-below scan; sound not-found handling", Run: c13S2},
			{ID: "S3", Floor: 10, Doc: "action list = create<modify<delete, node<way<relation loops of the non-nil sections; exactly one action per element", Run: c13S3},
			{ID: "S4", Floor: 15, Doc: "visibility, action type and Old/New roles", Run: c13S4},
			{ID: "S5", Floor: 17, Doc: "error mapping table, effect whitelist, ignore-missing option", Run: c13S5},
		},
		Mutants: c13AllMutants([]core.Mutant{
			{Name: "find-node-le-own", File: chg, Find: "v < n.Version && v > max", Replace: "v <= n.Version && v > max", ExpectRule: "S2", ExpectConstruct: "select@Node"},
			{Name: "find-relation-max-flipped", File: chg, Find: "v < r.Version && v > max", Replace: "v < r.Version && v < max", ExpectRule: "S2", ExpectConstruct: "select@Relation"},
			{Name: "find-way-max-not-strict", File: chg, Find: "v < w.Version && v > max", Replace: "v < w.Version && v >= max", ExpectRule: "S2", ExpectConstruct: "select@Way"},
			{Name: "find-way-max-init-1", File: chg, Find: "loc, max := -1, -1", Nth: 2, Replace: "loc, max := -1, 1", ExpectRule: "S2", ExpectConstruct: "init@Way"},
			{Name: "find-node-break-on-first", File: chg, Find: "\t\t\tmax = v\n\t\t\tloc = i\n", Replace: "\t\t\tmax = v\n\t\t\tloc = i\n\t\t\tbreak\n", ExpectRule: "S2", ExpectConstruct: "select@Node"},
			{Name: "find-relation-missing-never-error", File: chg, Find: "\t\tif ignoreMissing {\n\t\t\treturn nil, nil\n\t\t}\n\t\treturn nil, &NoVisibleChildError{ID: r.FeatureID()}", Replace: "\t\treturn nil, nil", ExpectRule: "S2", ExpectConstruct: "notfound@Relation"},
			{Name: "find-node-found-test-off-by-one", File: chg, Find: "if loc == -1 {", Replace: "if loc <= 0 {", ExpectRule: "S4", ExpectConstruct: "update@Modify/Node"},
			{Name: "way-history-error-from-node-history", File: chg, Find: "ways, err := ds.WayHistory(ctx, w.ID)", Replace: "_, err := ds.NodeHistory(ctx, osm.NodeID(w.ID))\n\tways, _ := ds.WayHistory(ctx, w.ID)", ExpectRule: "S2", ExpectConstruct: "history@Way"},
			{Name: "relation-history-of-other-id", File: chg, Find: "ds.RelationHistory(ctx, r.ID)", Replace: "ds.RelationHistory(ctx, r.ID+1)", ExpectRule: "S2", ExpectConstruct: "history@Relation"},
			{Name: "way-error-id-as-node-id", File: chg, Find: "ID: w.FeatureID()", Replace: "ID: osm.NodeID(w.ID).FeatureID()", ExpectRule: "S2", ExpectConstruct: "notfound@Way"},
			{Name: "way-sibling-differs", File: chg, Find: "ID: w.FeatureID()", Replace: "ID: osm.NodeID(w.ID).FeatureID()", ExpectRule: "S1", ExpectConstruct: "iteration@Modify/Way"},
			{Name: "create-relation-as-modify", File: chg, Find: "\t\t\t\tType: osm.ActionCreate,\n\t\t\t\tOSM:  &osm.OSM{Relations: osm.Relations{r}},", Replace: "\t\t\t\tType: osm.ActionModify,\n\t\t\t\tOSM:  &osm.OSM{Relations: osm.Relations{r}},", ExpectRule: "S4", ExpectConstruct: "create@Relation"},
			{Name: "create-ways-before-nodes", File: chg,
				Find:       "\t\tfor _, n := range o.Nodes {\n\t\t\tn.Visible = true\n\t\t\tactions = append(actions, osm.Action{\n\t\t\t\tType: osm.ActionCreate,\n\t\t\t\tOSM:  &osm.OSM{Nodes: osm.Nodes{n}},\n\t\t\t})\n\t\t}\n\n\t\tfor _, w := range o.Ways {\n\t\t\tw.Visible = true\n\t\t\tactions = append(actions, osm.Action{\n\t\t\t\tType: osm.ActionCreate,\n\t\t\t\tOSM:  &osm.OSM{Ways: osm.Ways{w}},\n\t\t\t})\n\t\t}\n",
				Replace:    "\t\tfor _, w := range o.Ways {\n\t\t\tw.Visible = true\n\t\t\tactions = append(actions, osm.Action{\n\t\t\t\tType: osm.ActionCreate,\n\t\t\t\tOSM:  &osm.OSM{Ways: osm.Ways{w}},\n\t\t\t})\n\t\t}\n\n\t\tfor _, n := range o.Nodes {\n\t\t\tn.Visible = true\n\t\t\tactions = append(actions, osm.Action{\n\t\t\t\tType: osm.ActionCreate,\n\t\t\t\tOSM:  &osm.OSM{Nodes: osm.Nodes{n}},\n\t\t\t})\n\t\t}\n",
				ExpectRule: "S3", ExpectConstruct: "actions@Change"},
			{Name: "modify-delete-order-swapped", File: chg,
				Find:       "actions, err := addUpdate(ctx, actions, change.Modify, osm.ActionModify, ds, ignoreMissing)\n\tif err != nil {\n\t\treturn nil, err\n\t}\n\n\t// delete\n\tactions, err = addUpdate(ctx, actions, change.Delete, osm.ActionDelete, ds, ignoreMissing)",
				Replace:    "actions, err := addUpdate(ctx, actions, change.Delete, osm.ActionDelete, ds, ignoreMissing)\n\tif err != nil {\n\t\treturn nil, err\n\t}\n\n\t// delete\n\tactions, err = addUpdate(ctx, actions, change.Modify, osm.ActionModify, ds, ignoreMissing)",
				ExpectRule: "S3", ExpectConstruct: "actions@Change"},
			{Name: "delete-section-as-modify", File: chg, Find: "change.Delete, osm.ActionDelete", Replace: "change.Delete, osm.ActionModify", ExpectRule: "S4", ExpectConstruct: "update@Delete/"},
			{Name: "drop-append-way-fallback", File: chg, Find: "\t\t\tw.Visible = true\n\t\t\tactions = append(actions, osm.Action{\n\t\t\t\tType: osm.ActionCreate,\n\t\t\t\tOSM:  &osm.OSM{Ways: osm.Ways{w}},\n\t\t\t})\n\t\t\tcontinue", Replace: "\t\t\tw.Visible = true\n\t\t\tcontinue", ExpectRule: "S3", ExpectConstruct: "one-action@Modify/Way"},
			{Name: "nil-section-drops-actions", File: chg, Find: "if o == nil {\n\t\treturn actions, nil", Replace: "if o == nil {\n\t\treturn nil, nil", ExpectRule: "S3", ExpectConstruct: "actions@Change"},
			{Name: "modify-result-not-threaded", File: chg, Find: "actions, err = addUpdate(ctx, actions, change.Delete", Replace: "actions, err = addUpdate(ctx, nil, change.Delete", ExpectRule: "S3", ExpectConstruct: "actions@Change"},
			{Name: "swap-old-new-relation", File: chg, Find: "Old:  &osm.OSM{Relations: osm.Relations{old}},\n\t\t\tNew:  &osm.OSM{Relations: osm.Relations{r}},", Replace: "Old:  &osm.OSM{Relations: osm.Relations{r}},\n\t\t\tNew:  &osm.OSM{Relations: osm.Relations{old}},", ExpectRule: "S4", ExpectConstruct: "update@Modify/Relation"},
			{Name: "delete-visible-true", File: chg, Find: "currentVisible = false", Replace: "currentVisible = true", ExpectRule: "S4", ExpectConstruct: "update@Delete/Node"},
			{Name: "create-way-not-visible", File: chg, Find: "w.Visible = true", Replace: "w.Visible = false", ExpectRule: "S4", ExpectConstruct: "create@Way"},
			{Name: "node-update-type-constant", File: chg, Find: "Type: actionType,\n\t\t\tOld:  &osm.OSM{Nodes", Replace: "Type: osm.ActionModify,\n\t\t\tOld:  &osm.OSM{Nodes", ExpectRule: "S4", ExpectConstruct: "update@Delete/Node"},
			{Name: "fallback-node-visible-from-flag", File: chg, Find: "n.Visible = true", Nth: 2, Replace: "n.Visible = currentVisible", ExpectRule: "S4", ExpectConstruct: "fallback@Delete/Node"},
			{Name: "checkerr-nil-without-ignore", File: chg, Find: "return &NoVisibleChildError{ID: id}", Replace: "return nil", ExpectRule: "S5", ExpectConstruct: "errmap@Node not-found"},
			{Name: "checkerr-swallows-other-errors", File: chg, Find: "\treturn err\n}\n\nfunc findPreviousNode", Replace: "\treturn nil\n}\n\nfunc findPreviousNode", ExpectRule: "S5", ExpectConstruct: "errmap@Way other-error"},
			{Name: "checkerr-ignore-inverted", File: chg, Find: "\t\tif ignoreMissing {\n\t\t\treturn nil\n\t\t}", Replace: "\t\tif !ignoreMissing {\n\t\t\treturn nil\n\t\t}", ExpectRule: "S5", ExpectConstruct: "errmap@Relation not-found+ignore"},
			{Name: "callsite-way-always-ignores", File: chg, Find: "checkErr(ds, ignoreMissing, err, w.FeatureID())", Replace: "checkErr(ds, true, err, w.FeatureID())", ExpectRule: "S5", ExpectConstruct: "errmap@Way not-found"},
			{Name: "option-read-before-applied", File: chg,
				Find:       "\tcomputeOpts := &core.Options{}\n\tfor _, o := range opts {\n\t\terr := o(computeOpts)\n\t\tif err != nil {\n\t\t\treturn nil, err\n\t\t}\n\t}\n\tignoreMissing := computeOpts.IgnoreMissingChildren\n",
				Replace:    "\tcomputeOpts := &core.Options{}\n\tignoreMissing := computeOpts.IgnoreMissingChildren\n\tfor _, o := range opts {\n\t\terr := o(computeOpts)\n\t\tif err != nil {\n\t\t\treturn nil, err\n\t\t}\n\t}\n",
				ExpectRule: "S5", ExpectConstruct: "ignore-option@Change"},
		}),
	})
}

// c13Eval is one evaluation of the decision table: an abstract input covered by a path.
type c13Eval struct {
	c        []int
	p        *c13UPath
	expected string
	actual   string
}

// tableCells evaluates the decision table of an element loop; uncovered lists the abstract inputs no path covers.
func (m *c13Model) tableCells(el *c13ELoop) (cells []c13Eval, uncovered [][]int) {
	dom := c13UpdDom
	if el.sec == 0 {
		dom = c13CreateDom
	}
	for _, p := range el.paths {
		m.interpret(p)
	}
	// abstract inputs excluded by what the calling context has established (the option tested outside the loop)
	ctx := dom.all()
	if el.sec != 0 && len(el.paths) > 0 {
		if st := el.paths[0].st; el.l.pcLen <= len(st.pc) {
			for _, a := range st.pc[:el.l.pcLen] {
				if m.isIgnoreOption(a.t) {
					c13Restrict(ctx, c13VIgn, []int{0, 1}, a.val)
				}
			}
		}
	}
	for _, c := range dom.combos() {
		if !c13Covers(ctx, c) {
			continue
		}
		covered := false
		for _, p := range el.paths {
			if !c13Covers(p.allowed, c) {
				continue
			}
			covered = true
			exp := "create"
			if el.sec != 0 {
				exp = c13Expected(c)
			}
			cells = append(cells, c13Eval{c, p, exp, m.outcome(p)})
		}
		if !covered {
			uncovered = append(uncovered, c)
		}
	}
	return
}

func (m *c13Model) domOf(el *c13ELoop) *c13Dom {
	if el.sec == 0 {
		return c13CreateDom
	}
	return c13UpdDom
}

// feasiblePath reports whether the conditions of p admit at least one abstract input.
func (m *c13Model) feasiblePath(p *c13UPath) bool {
	m.interpret(p)
	for _, c := range m.domOf(p.el).combos() {
		if c13Covers(p.allowed, c) {
			return true
		}
	}
	return false
}
