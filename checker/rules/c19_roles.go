package rules

// c19_roles.go — the roles around the binary search, resolved from dataflow, for C19.M6 (classification by time
// outside the binary-search loop) and C19.M7 (completeness of the lower-bound search):
//
//	binary search  the function with the loop kept running by lo.SeqNum… < hi.SeqNum (today findInRange);
//	caller         the function that hands it the two bounds (today searchTimestamp); when the loop is inlined the
//	               caller is the same function;
//	finder         the function whose results the caller assigns to both bound variables at once (today findBound),
//	               with its probing loop (a `for` with one state fetch of its own), the cursor (the sequence number
//	               probed), the variable returned in the upper-bound position, and the query-time parameter.
//
// Nothing is matched by name.

import (
	"go/ast"
	"go/types"

	"golang.org/x/tools/go/cfg"
)

type c19Search struct {
	fiB    *FuncInfo
	outer  *ast.ForStmt
	lo, hi types.Object

	caller       *FuncInfo
	loVar, hiVar types.Object
	tCaller      types.Object
	enter        ast.Node // the call of the binary-search function in the caller; nil when the loop is inlined

	finder   *FuncInfo
	rLo, rHi int // result positions of the lower / upper bound
	fLoop    *ast.ForStmt
	fFetch   *ast.CallExpr
	fCursor  types.Object
	fHi      types.Object
	fT       types.Object
	fS       map[types.Object]bool // the probed state and its copies
}

func c19TimeParam(fi *FuncInfo) (types.Object, int) {
	var t types.Object
	n := 0
	sig := fi.Obj.Type().(*types.Signature)
	for i := 0; i < sig.Params().Len(); i++ {
		if namedPath(sig.Params().At(i).Type()) == "time.Time" {
			t = sig.Params().At(i)
			n++
		}
	}
	return t, n
}

func c19IsFieldVar(o types.Object) bool {
	v, ok := o.(*types.Var)
	return ok && v.IsField()
}

func c19ParamIdx(fi *FuncInfo, o types.Object) int {
	sig := fi.Obj.Type().(*types.Signature)
	for i := 0; i < sig.Params().Len(); i++ {
		if sig.Params().At(i) == o {
			return i
		}
	}
	return -1
}

// okResults returns the result expressions of a success return of fi, nil for an error return. An explicit return
// is an error return when its first result is the nil literal (error returns give no state). A bare `return` of a
// function with named results returns the result variables; it is an error return when the branch conditions
// establish that the error result is not nil.
func (m *c19Model) okResults(fi *FuncInfo, ret *ast.ReturnStmt) []ast.Expr {
	if len(ret.Results) > 0 {
		if m.info.Types[ret.Results[0]].IsNil() {
			return nil
		}
		return ret.Results
	}
	ft := fi.Decl.Type
	if ft.Results == nil {
		return nil
	}
	var out []ast.Expr
	var errVar types.Object
	for _, fld := range ft.Results.List {
		for _, nm := range fld.Names {
			out = append(out, nm)
			if o := m.info.Defs[nm]; o != nil && c19IsError(o.Type()) {
				errVar = o
			}
		}
	}
	if len(out) == 0 {
		return nil
	}
	if errVar != nil {
		g := m.graph(fi)
		if knownNonNil(factsAtPos(m.info, g.g, g.dom, ret.Pos()), func(e ast.Expr) bool { return objOf(m.info, e) == errVar }) != nil {
			return nil
		}
	}
	return out
}

// searchRoles finds every binary-search loop reachable from the lookups and the roles around it.
func (m *c19Model) searchRoles(parents func(*FuncInfo) map[ast.Node]ast.Node) []*c19Search {
	info := m.info
	var out []*c19Search
	for _, fi := range m.reachList {
		for _, l := range c19CollectLoops(fi) {
			outer, ok := l.stmt.(*ast.ForStmt)
			if !ok {
				continue
			}
			lo, hi, _ := m.bounds(fi, c19LoopStayFacts(outer))
			if lo == nil {
				continue
			}
			if p, _ := m.probeOf(&c19Frame{fi: fi}, outer); p == nil {
				continue
			}
			s := &c19Search{fiB: fi, outer: outer, lo: lo, hi: hi, caller: fi, loVar: lo, hiVar: hi, rLo: -1, rHi: -1}
			out = append(out, s)
			// the parameters the bounds start from (the bounds themselves, or what their struct fields are initialised with)
			pLo, pHi := -1, -1
			if pl, ph := m.boundParam(fi, lo), m.boundParam(fi, hi); pl != nil && ph != nil {
				pLo, pHi = c19ParamIdx(fi, pl), c19ParamIdx(fi, ph)
			}
			if pLo >= 0 && pHi >= 0 {
				s.caller = nil
				for _, g := range m.reachList {
					ast.Inspect(g.Decl.Body, func(n ast.Node) bool {
						call, ok := n.(*ast.CallExpr)
						if !ok || s.caller != nil || callee(info, call) != fi.Obj || len(call.Args) <= pLo || len(call.Args) <= pHi {
							return true
						}
						a, b := objOf(info, call.Args[pLo]), objOf(info, call.Args[pHi])
						if a != nil && b != nil {
							s.caller, s.loVar, s.hiVar, s.enter = g, a, b, call
						}
						return true
					})
				}
			}
			if pLo < 0 && c19IsFieldVar(lo) && c19IsFieldVar(hi) {
				// the bounds are fields of a struct the function is handed (its receiver or an argument): the caller
				// holds them in the same fields
				for _, g := range m.reachList {
					if g == fi {
						continue
					}
					ast.Inspect(g.Decl.Body, func(n ast.Node) bool {
						if call, ok := n.(*ast.CallExpr); ok && callee(info, call) == fi.Obj && s.enter == nil {
							s.caller, s.enter = g, call
						}
						return true
					})
				}
			}
			if s.caller == nil {
				continue
			}
			if t, n := c19TimeParam(s.caller); n == 1 {
				s.tCaller = t
			}
			// the finder: `lo, hi, … = f(…)` in the caller
			ast.Inspect(s.caller.Decl.Body, func(n ast.Node) bool {
				as, ok := n.(*ast.AssignStmt)
				if !ok || len(as.Rhs) != 1 || s.finder != nil {
					return true
				}
				call, ok := ast.Unparen(as.Rhs[0]).(*ast.CallExpr)
				if !ok {
					return true
				}
				g := m.funcs[callee(info, call)]
				if g == nil || g == fi {
					return true
				}
				// the results reach the bound variables directly or through plain copies (`lo, up, err := f(…); lower, upper = lo, up`)
				iLo, iHi := -1, -1
				for i, lhs := range as.Lhs {
					x := c19Target(info, ast.Unparen(lhs))
					if x == nil {
						continue
					}
					cp := c19Copies(info, s.caller.Decl.Body, map[types.Object]bool{x: true})
					switch {
					case cp[s.loVar] && !cp[s.hiVar]:
						iLo = i
					case cp[s.hiVar] && !cp[s.loVar]:
						iHi = i
					}
				}
				if iLo >= 0 && iHi >= 0 {
					s.finder, s.rLo, s.rHi = g, iLo, iHi
				}
				return true
			})
			if s.finder != nil {
				m.finderRoles(s, parents(s.finder))
			}
		}
	}
	return out
}

// finderRoles resolves the probing loop, cursor, upper-bound variable and query time of the finder.
func (m *c19Model) finderRoles(s *c19Search, par map[ast.Node]ast.Node) {
	info := m.info
	g := s.finder
	for _, l := range c19CollectLoops(g) {
		fl, ok := l.stmt.(*ast.ForStmt)
		if !ok || l.parent != nil {
			continue
		}
		if fs := m.fetchesIn(fl.Body); len(fs) == 1 && s.fLoop == nil {
			s.fLoop, s.fFetch = fl, fs[0]
		}
	}
	if s.fLoop == nil {
		return
	}
	if a, ok := m.isFetch(s.fFetch); ok {
		s.fCursor = objOf(info, a)
	}
	probed := m.resultVar(par, s.fFetch)
	if probed != nil {
		s.fS = c19Copies(info, g.Decl.Body, map[types.Object]bool{probed: true})
	}
	if t, n := c19TimeParam(g); n == 1 {
		s.fT = t
	}
	// the variable returned in the upper-bound position (the same one on every success return that does not hand
	// back the probed state itself)
	same := true
	ast.Inspect(g.Decl.Body, func(n ast.Node) bool {
		if _, ok := n.(*ast.FuncLit); ok {
			return false
		}
		if ret, ok := n.(*ast.ReturnStmt); !ok {
			return true
		} else if res := m.okResults(g, ret); s.rHi < len(res) {
			o := objOf(info, res[s.rHi])
			if o != nil && o == probed {
				return true // the probed state itself handed back as upper bound (an answer exit)
			}
			if o == nil || (s.fHi != nil && o != s.fHi) {
				same = false
			}
			s.fHi = o
		}
		return true
	})
	if !same {
		s.fHi = nil
	}
	// the upper-bound variable receives copies of the probed state but is not the probed state
	if s.fHi != nil && s.fS != nil {
		delete(s.fS, s.fHi)
	}
}

// orderWalk visits the nodes after (blk, idx) along every path consistent with the valuation `at`; visit returns
// false to stop following a path. It returns the first branch condition comparing the query time with
// the probed state that the valuation left undecided.
func (m *c19Model) orderWalk(blk *cfg.Block, idx int, at func(ast.Expr) tri, ops *c19TimeOps, visit func(n ast.Node) bool, block func(b *cfg.Block)) (undecided ast.Expr) {
	seen := map[*cfg.Block]bool{}
	var run func(b *cfg.Block, from int)
	run = func(b *cfg.Block, from int) {
		if from == 0 && block != nil {
			block(b)
		}
		for i := from; i < len(b.Nodes); i++ {
			if !visit(b.Nodes[i]) {
				return
			}
		}
		succs := b.Succs
		if cond := condOf(m.info, b); cond != nil {
			switch evalTri(cond, at) {
			case triT:
				succs = b.Succs[:1]
			case triF:
				succs = b.Succs[1:2]
			default:
				if ops != nil && ops.aboutProbed(cond) && undecided == nil {
					undecided = cond
				}
			}
		}
		for _, s := range succs {
			if !seen[s] {
				seen[s] = true
				run(s, 0)
			}
		}
	}
	run(blk, idx+1)
	return
}
