package rules

import "osmcheck/core"

const (
	c10SrcFeatureType = "func (id FeatureID) Type() Type {\n\tswitch id & typeMask {\n\tcase nodeMask:\n\t\treturn TypeNode\n\tcase wayMask:\n\t\treturn TypeWay\n\tcase relationMask:\n\t\treturn TypeRelation\n\t}\n\n\treturn \"\"\n}"
	c10SrcObjectType  = "func (id ObjectID) Type() Type {\n\tswitch id & typeMask {\n\tcase nodeMask:\n\t\treturn TypeNode\n\tcase wayMask:\n\t\treturn TypeWay\n\tcase relationMask:\n\t\treturn TypeRelation\n\tcase changesetMask:\n\t\treturn TypeChangeset\n\tcase noteMask:\n\t\treturn TypeNote\n\tcase userMask:\n\t\treturn TypeUser\n\tcase boundsMask:\n\t\treturn TypeBounds\n\t}\n\n\tpanic(\"unknown type\")\n}"
	c10SrcTypeFeature = "func (t Type) FeatureID(ref int64) (FeatureID, error) {\n\tswitch t {\n\tcase TypeNode:\n\t\treturn NodeID(ref).FeatureID(), nil\n\tcase TypeWay:\n\t\treturn WayID(ref).FeatureID(), nil\n\tcase TypeRelation:\n\t\treturn RelationID(ref).FeatureID(), nil\n\t}\n\n\treturn 0, fmt.Errorf(\"unknown type: %v\", t)\n}"
	c10SrcObjectTail  = "\toid, err := Type(parts[0]).objectID(ref, version)\n\tif err != nil {\n\t\treturn 0, fmt.Errorf(\"invalid element id: %v: %v\", s, err)\n\t}\n\n\treturn oid, nil\n}"
)

// c10BenignRepr: internal representation changes (switch -> table / map / slice of pairs, parallel locals ->
// struct, closure helper, pointer instead of flag+value).
var c10BenignRepr = []core.Mutant{
	{Name: "featureid-type-array-table", File: "feature.go", Find: c10SrcFeatureType,
		Replace: "var featureKinds = [typeMask>>56 + 1]Type{\n\tnodeMask >> 56:     TypeNode,\n\twayMask >> 56:      TypeWay,\n\trelationMask >> 56: TypeRelation,\n}\n\nfunc (id FeatureID) Type() Type {\n\treturn featureKinds[(id&typeMask)>>56]\n}"},
	{Name: "objectid-type-map-table", File: "object.go", Find: c10SrcObjectType,
		Replace: "var objectKinds = map[ObjectID]Type{\n\tnodeMask:      TypeNode,\n\twayMask:       TypeWay,\n\trelationMask:  TypeRelation,\n\tchangesetMask: TypeChangeset,\n\tnoteMask:      TypeNote,\n\tuserMask:      TypeUser,\n\tboundsMask:    TypeBounds,\n}\n\nfunc (id ObjectID) Type() Type {\n\tif t, ok := objectKinds[id&typeMask]; ok {\n\t\treturn t\n\t}\n\n\tpanic(\"unknown type\")\n}"},
	{Name: "type-featureid-pair-table-loop", File: "feature.go", Find: c10SrcTypeFeature,
		Replace: "var featureKindBits = []struct {\n\tt    Type\n\tbits int64\n}{\n\t{TypeNode, nodeMask},\n\t{TypeWay, wayMask},\n\t{t: TypeRelation, bits: relationMask},\n}\n\nfunc (t Type) FeatureID(ref int64) (FeatureID, error) {\n\tfor _, k := range featureKindBits {\n\t\tif k.t == t {\n\t\t\treturn FeatureID(k.bits | ref<<versionBits), nil\n\t\t}\n\t}\n\n\treturn 0, fmt.Errorf(\"unknown type: %v\", t)\n}"},
	{Name: "type-featureid-map-of-kinds", File: "feature.go", Find: c10SrcTypeFeature,
		Replace: "func (t Type) FeatureID(ref int64) (FeatureID, error) {\n\tbits, known := map[Type]FeatureID{TypeNode: nodeMask, TypeWay: wayMask, TypeRelation: relationMask}[t]\n\tif !known {\n\t\treturn 0, fmt.Errorf(\"unknown type: %v\", t)\n\t}\n\n\treturn bits | FeatureID(ref)<<versionBits, nil\n}"},
	{Name: "parseobject-struct-of-parts", File: "object.go", Find: c10SrcObjectTail,
		Replace: "\ttype pieces struct {\n\t\tkind    Type\n\t\tnumber  int64\n\t\tversion int\n\t}\n\tvar p pieces\n\tp.kind = Type(parts[0])\n\tp.number, p.version = ref, version\n\n\toid, err := p.kind.objectID(p.number, p.version)\n\tif err != nil {\n\t\treturn 0, fmt.Errorf(\"invalid element id: %v: %v\", s, err)\n\t}\n\n\treturn oid, nil\n}"},
	{Name: "parsefeature-closure-for-errors", File: "feature.go",
		Find:    "\tparts := strings.Split(s, \"/\")\n\tif len(parts) != 2 {\n\t\treturn 0, fmt.Errorf(\"invalid feature id: %v\", s)\n\t}\n\n\tn, err := strconv.ParseInt(parts[1], 10, 64)\n\tif err != nil {\n\t\treturn 0, fmt.Errorf(\"invalid feature id: %v: %v\", s, err)\n\t}\n",
		Replace: "\tfail := func(cause error) (FeatureID, error) {\n\t\tif cause == nil {\n\t\t\treturn 0, fmt.Errorf(\"invalid feature id: %v\", s)\n\t\t}\n\t\treturn 0, fmt.Errorf(\"invalid feature id: %v: %v\", s, cause)\n\t}\n\n\tparts := strings.Split(s, \"/\")\n\tif len(parts) != 2 {\n\t\treturn fail(nil)\n\t}\n\n\tn, err := strconv.ParseInt(parts[1], 10, 64)\n\tif err != nil {\n\t\treturn fail(err)\n\t}\n"},
	{Name: "parseelement-version-pointer", File: "element.go",
		Find:    "\tvar version int\n\tref, err := strconv.ParseInt(parts2[0], 10, 64)\n\tif err != nil {\n\t\treturn 0, fmt.Errorf(\"invalid element id: %v: %v\", s, err)\n\t}\n\n\tif len(parts2) == 2 && parts2[1] != \"-\" {\n\t\tv, e := strconv.ParseInt(parts2[1], 10, 64)\n\t\tif e != nil {\n\t\t\treturn 0, fmt.Errorf(\"invalid element id: %v: %v\", s, err)\n\t\t}\n\t\tversion = int(v)\n\t}\n",
		Replace: "\tref, err := strconv.ParseInt(parts2[0], 10, 64)\n\tif err != nil {\n\t\treturn 0, fmt.Errorf(\"invalid element id: %v: %v\", s, err)\n\t}\n\n\tvar parsed *int64\n\tif len(parts2) == 2 && parts2[1] != \"-\" {\n\t\tv, e := strconv.ParseInt(parts2[1], 10, 64)\n\t\tif e != nil {\n\t\t\treturn 0, fmt.Errorf(\"invalid element id: %v: %v\", s, err)\n\t\t}\n\t\tparsed = &v\n\t}\n\n\tversion := 0\n\tif parsed != nil {\n\t\tversion = int(*parsed)\n\t}\n"},
	{Name: "counts-array-of-counters", File: "element.go",
		Find:    "func (ids ElementIDs) Counts() (nodes, ways, relations int) {\n\tfor _, id := range ids {\n\t\tswitch id & typeMask {\n\t\tcase nodeMask:\n\t\t\tnodes++\n\t\tcase wayMask:\n\t\t\tways++\n\t\tcase relationMask:\n\t\t\trelations++\n\t\t}\n\t}\n\n\treturn\n}",
		Replace: "func (ids ElementIDs) Counts() (nodes, ways, relations int) {\n\tvar counters [4]int\n\tfor _, id := range ids {\n\t\tswitch kind := id & typeMask; kind {\n\t\tcase nodeMask, wayMask, relationMask:\n\t\t\tcounters[kind>>60]++\n\t\t}\n\t}\n\n\treturn counters[1], counters[2], counters[3]\n}"},
}

// c10MutantsRepr: defects seeded into the refactored shapes.
var c10MutantsRepr = []core.Mutant{
	{Name: "featureid-type-table-entries-crossed", File: "feature.go", Find: c10SrcFeatureType,
		Replace:    "var featureKinds = [typeMask>>56 + 1]Type{\n\tnodeMask >> 56:     TypeNode,\n\twayMask >> 56:      TypeRelation,\n\trelationMask >> 56: TypeWay,\n}\n\nfunc (id FeatureID) Type() Type {\n\treturn featureKinds[(id&typeMask)>>56]\n}",
		ExpectRule: "K3", ExpectConstruct: "decode@FeatureID.Type kind=way"},
	{Name: "featureid-type-table-index-shift-off", File: "feature.go", Find: c10SrcFeatureType,
		Replace:    "var featureKinds = [typeMask>>56 + 1]Type{\n\tnodeMask >> 56:     TypeNode,\n\twayMask >> 56:      TypeWay,\n\trelationMask >> 56: TypeRelation,\n}\n\nfunc (id FeatureID) Type() Type {\n\treturn featureKinds[(id&typeMask)>>57]\n}",
		ExpectRule: "K3", ExpectConstruct: "decode@FeatureID.Type kind=node"},
	{Name: "objectid-type-map-misses-user", File: "object.go", Find: c10SrcObjectType,
		Replace:    "var objectKinds = map[ObjectID]Type{\n\tnodeMask:      TypeNode,\n\twayMask:       TypeWay,\n\trelationMask:  TypeRelation,\n\tchangesetMask: TypeChangeset,\n\tnoteMask:      TypeNote,\n\tboundsMask:    TypeBounds,\n}\n\nfunc (id ObjectID) Type() Type {\n\tif t, ok := objectKinds[id&typeMask]; ok {\n\t\treturn t\n\t}\n\n\tpanic(\"unknown type\")\n}",
		ExpectRule: "K3", ExpectConstruct: "decode@ObjectID.Type kind=user"},
	{Name: "type-featureid-map-accepts-note", File: "feature.go", Find: c10SrcTypeFeature,
		Replace:    "func (t Type) FeatureID(ref int64) (FeatureID, error) {\n\tbits, known := map[Type]FeatureID{TypeNode: nodeMask, TypeWay: wayMask, TypeRelation: relationMask, TypeNote: noteMask}[t]\n\tif !known {\n\t\treturn 0, fmt.Errorf(\"unknown type: %v\", t)\n\t}\n\n\treturn bits | FeatureID(ref)<<versionBits, nil\n}",
		ExpectRule: "K3", ExpectConstruct: "lookup@Type.FeatureID kind=note"},
	{Name: "type-featureid-map-accepts-alias-text", File: "feature.go", Find: c10SrcTypeFeature,
		Replace:    "func (t Type) FeatureID(ref int64) (FeatureID, error) {\n\tbits, known := map[Type]FeatureID{TypeNode: nodeMask, \"n\": nodeMask, TypeWay: wayMask, TypeRelation: relationMask}[t]\n\tif !known {\n\t\treturn 0, fmt.Errorf(\"unknown type: %v\", t)\n\t}\n\n\treturn bits | FeatureID(ref)<<versionBits, nil\n}",
		ExpectRule: "K3", ExpectConstruct: "lookup@Type.FeatureID text \"n\""},
	{Name: "parseobject-struct-fields-crossed", File: "object.go", Find: c10SrcObjectTail,
		Replace:    "\ttype pieces struct {\n\t\tkind    Type\n\t\tnumber  int64\n\t\tversion int\n\t}\n\tp := pieces{kind: Type(parts[0]), number: int64(version), version: int(ref)}\n\n\toid, err := p.kind.objectID(p.number, p.version)\n\tif err != nil {\n\t\treturn 0, fmt.Errorf(\"invalid element id: %v: %v\", s, err)\n\t}\n\n\treturn oid, nil\n}",
		ExpectRule: "K5", ExpectConstruct: "roundtrip@ParseObjectID"},
}
