package rules

import (
	"go/ast"
	"go/token"
	"go/types"
	"strings"

	"golang.org/x/tools/go/cfg"

	"osmcheck/core"
)

func init() {
	register(&core.Property{
		ID:    "C06",
		Title: "Truncated or damaged PBF input ends in an error after a correct prefix",
		Explanation: "Structural necessary conditions, decided for every call site / index expression / path in package osmpbf. The rules work on roles, on the control-flow graph (guard facts, dominance) and by finite-domain evaluation of decision functions, following static calls inside the package; the shape of the code (if chain vs switch, branch order, merged guards, locals, extracted helpers) does not matter. " +
			"(E1) no error returned by a callee is dropped: on every path it is tested, returned or forwarded before being overwritten; wherever a protoscan message's Next() reports no further field, every path looks at its Err() before leaving (in the function or, for a message parameter, in every caller; when Next() sits to the right of other operands in the loop condition, e.g. `err == nil && msg.Next()`, those operands are known to hold on that outcome); " +
			"(E2) io.EOF can only originate from the first read of a block: the io.EOF of any other io.ReadFull (evaluated on the abstract value io.EOF through mappers, inline tests and intermediate callers) cannot reach the caller of the block reader unchanged; " +
			"(E3) every slice `buf[:n]` of a scratch buffer made with a constant size (followed through parameters and re-slices) is reached only when guard facts, at the slice or at every success return of the function n comes from, establish n <= a constant not above the buffer's size and, for signed n, n >= 0; " +
			"(E4) a blob that carries data in none of the supported encodings only reaches returns of a non-nil error; on the zlib path the decompressed length is compared with raw_size before data is returned, and that length is the length of the whole decompressed stream: the call that drains the decompressor reads the decompressor itself, not a wrapper limited to raw_size or less (also when the zlib branch is a helper that is handed the getter results as parameters); " +
			"(E5) a header is only accepted through the required-features gate: a loop over all required features (range or index loop, in the header decoder or a helper) whose failed capability lookup returns an error, or reports the feature through result values with which every caller, evaluated on those values, returns an error; the block the spawner reads itself is held to the same rule as the others (evaluated for a type equal to none of the constants it is compared with, the pipeline is not started or the reader sends no blob it has not read and type-checked itself); when the reader finds a block whose type is not OSMData, every path sends (or returns to the sending caller) a pair whose Err holds an error created for it and which carries no blob, no path skips the block; " +
			"(E6) every slice/string index or slice expression reachable from the decoding goroutines has a proof from the idiom list (constant, range key, guard facts establishing index < len with a non-negative index — also facts from the operands to the left in a short-circuit condition —, a constant index under a guard on the length, counter into a buffer sized by Iterator.Count of the iterator driving the loop; for x[lo:hi]: constant bounds within a fixed-length array, bounds established by guard facts 0 <= lo <= hi <= len/cap, a constant bound under a guard on the length, and the protoscan cursor invariant 0 <= I.Index <= len(I.Data) for I.Data[I.Index:] of one and the same iterator), optional message fields are nil-guarded or `required`; " +
			"(E7) no panic call and no unchecked type assertion is reachable from the goroutine roles; " +
			"(E8) with a stored error other than io.EOF, no return of Err that can be reached yields a possibly-nil value (locals holding the stored error or another value are followed path by path); " +
			"(E9) the cached block's string table and parameters are reset before every block (shared with C01.R3), so the range checks of string references run against the block being decoded and a block without a string table is rejected instead of borrowing the previous block's strings. " +
			"(E10) while one DenseNodes / Way / Relation message is decoded no iterator left over from an earlier group can be used (shared with C01.R2): a damaged group that lacks a mandatory column (ids, lat, lon) ends in the 'did not contain' error instead of being decoded from the previous group's column, because presence is established by state set while this message is scanned and not by cached fields that survive groups. " +
			"(E11) every make of a slice or map whose size derives from a quantity decoded from the input (generated getters and fields of file messages, protoscan scalar reads, encoding/binary integers; followed through locals, arithmetic, conversions and parameters) has that quantity bounded from both sides by constants on every path, and the size arithmetic, evaluated over intervals in the Go types of its sub-expressions, can neither wrap nor go negative nor reach 2^31: otherwise a damaged size field panics in makeslice inside a goroutine of the decoder. " +
			"(E12) the readers the blob-data function drains are traced back (locals, parameters, results, standard wrappers) to the constructor calls outside the module; a decompressor constructor must be in the table of trusted implementations (compress/zlib, compress/flate): Read terminates when the compressed stream has ended and input is left over, and a stream whose input ends before the final block and checksum is an error, not a clean end: decided per build configuration, keyed on the function holding the constructor call and the resolved constructor. " +
			"(E14) every HasNext() test of a column iterator in the decoding goroutines is the condition of a loop that reads that column, or its exhausted outcome ends in an error on every path: the per-element reads of the other columns are guarded by presence only, so a column that is shorter than the one driving the element loop ends the scan in the iterator's error instead of being treated like an absent column. " +
			"(E15) a failed start is sticky: every consumer-side call of a decoder method that receives from a channel is only reached when the branch conditions establish, for every Scanner field that can hold the error returned by the start of the decoder (stored directly, through a local or through a wrapper), that it is nil; otherwise a damaged first block ends in a receive on a pipeline that was never started. " +
			"(E16) every call that drains the decompressor below the blob-data function reads through io.LimitReader / *io.LimitedReader (followed through locals, parameters, results and the standard wrappers) or copies a fixed amount: the amount of inflated data held in memory is bounded before its length is compared with raw_size (E4 demands that the limit is above raw_size so that the comparison still sees oversize data). " +
			"(E13) the pipeline's context is cancelled only by the serializer (on its way out, after forwarding) and by the consumer side, never by the reader or a worker: every stage drops what it holds once the context is done, so an upstream cancel loses the intact blocks still in flight in front of the error and the error itself. " +
			"NOT decided: that the delivered prefix is correct (C01/C02), behaviour inside protoscan/protobuf/zlib (including whether a decoding library could itself return io.EOF), hangs inside libraries, memory exhaustion from huge declared sizes, column-length mismatches that neither index out of range nor exhaust an iterator, numeric thresholds other than the constant bounds of E3 and the `raw_size + c` form of E4.",
		Assumptions: []string{"go/types, go/cfg (x/tools v0.29.0)",
			"protoscan.Iterator.Count(WireTypeVarint) >= number of successful varint reads of that iterator; an exhausted iterator returns an error (read in protoscan v0.2.1 iterator.go/scalar.go)",
			"proto.Unmarshal rejects messages lacking `required` fields", "io.ReadFull returns io.EOF only when no byte was read",
			"bytes.Buffer.ReadFrom / io.ReadAll / io.Copy read their source until io.EOF; io.LimitReader cuts silently at its limit"},
		LevelText: "Structural necessary conditions of 'damage ends in an error, never silent success or a crash', decided at every error-returning call site, every io.ReadFull, every scratch-buffer slice and every index expression reachable from the decoder goroutines.",
		LevelNote: "Trusts the type checker and go/cfg, two axioms about protoscan (stated in assumptions), proto.Unmarshal's required-field check and io.ReadFull's contract. Library internals are out of scope.",
		Technique: "error-discipline dataflow on go/cfg, finite-domain evaluation (EOF provenance, Err, blob encodings, block-type pairs), guard facts with constant bounds for slices and indices, reader-provenance of the decompressed stream, who-may-panic over goroutine roles",
		DesignRef: "DESIGN.md §5 C06; checker/ROBUSTNESS.md",
		Rules: []*core.Rule{
			{ID: "E1", Floor: 60, Doc: "error discipline: no error dropped; msg.Err() looked at whenever Next() ends (floor: below the number of distinct error-returning callees)", Run: c06E1},
			{ID: "E2", Floor: 1, Doc: "io.EOF only from the first read of a block (one obligation per io.ReadFull site; a shared read helper is one site)", Run: c06E2},
			{ID: "E3", Floor: 1, Doc: "scratch buffer slices are bounded above (and below when signed)", Run: c06E3},
			{ID: "E4", Floor: 3, Doc: "unknown blob encoding is an error; raw_size comparison; the compared length is that of the whole decompressed stream", Run: c06E4},
			{ID: "E5", Floor: 2, Doc: "required-features gate; unexpected block type travels as an error", Run: c06E5},
			{ID: "E6", Floor: 12, Doc: "index safety in everything reachable from the decoder goroutines", Run: c06E6},
			{ID: "E7", Floor: 12, Doc: "no panic / unchecked type assertion reachable from the goroutine roles", Run: c06E7},
			{ID: "E8", Floor: 2, Doc: "Err maps only io.EOF to nil", Run: c06E8},
			{ID: "E10", Floor: 18, Doc: "a group or element that lacks a column is never decoded from an iterator that survives from an earlier group: presence of mandatory columns is established per message, not from cached state (shared with C01.R2)", Run: c01R2},
			{ID: "E11", Floor: 1, Doc: "allocation sizes that derive from decoded quantities are bounded from both sides and their arithmetic cannot wrap", Run: c06E11},
			{ID: "E12", Floor: 1, Doc: "the decompressor drained for the blob data comes from an implementation known to stop at the end of the compressed stream (one obligation per constructor and build configuration)", Run: c06E12},
			{ID: "E14", Floor: 4, Doc: "a column iterator's HasNext is only a loop condition over that column, or its exhausted outcome is an error: a column that runs out early is not treated as absent", Run: c06E14},
			{ID: "E15", Floor: 1, Doc: "no consumer-side receive from the pipeline unless every field that can hold the error of a failed start is known nil", Run: c06E15},
			{ID: "E16", Floor: 1, Doc: "the decompressor is drained through a limiter (or by a fixed-size copy): the inflated data is bounded before it is compared with raw_size", Run: c06E16},
			{ID: "E13", Floor: 1, Doc: "the reader and the workers never cancel the pipeline: results in flight in front of an error are not dropped", Run: c06E13},
			{ID: "E9", Floor: 6, Doc: "string references are checked against the current block's string table: cached block parameters are reset before each block (shared with C01.R3)", Run: c01R3},
		},
		Benign: append(append(append(append(append(append(append(append(append([]core.Mutant{}, c06Benign...), c06Benign2...), c06Benign3...), c06Benign4...), c06Benign5...), c06Benign6...), c06Benign7...), c06Benign8...), c06Benign9...),
		Mutants: append(append(append(append(append(append(append([]core.Mutant{}, c06Mutants2...), c06Mutants3...), c06Mutants4...), c06Mutants5...), c06Mutants6...), c06Mutants7...), []core.Mutant{
			{Name: "drop-iterator-error", File: "osmpbf/decode_data.go", Find: "\t\t\tdec.lats, err = msg.Iterator(dec.lats)\n\t\t\tfoundLats = true", Replace: "\t\t\tdec.lats, _ = msg.Iterator(dec.lats)\n\t\t\tfoundLats = true", ExpectRule: "E1", ExpectConstruct: "scanDenseNodes"},
			{Name: "drop-msg-err", File: "osmpbf/decode_data.go", Find: "\tif msg.Err() != nil {\n\t\treturn msg.Err()\n\t}\n\n\t// we need the offsets", Replace: "\t// we need the offsets", ExpectRule: "E1", ExpectConstruct: "scanPrimitiveBlock"},
			{Name: "overwrite-err-before-test", File: "osmpbf/decode_data.go", Find: "\t\t\tdec.vals, err = msg.Iterator(dec.vals)\n\t\t\tfoundVals = true\n\t\tcase 4: // info\n\t\t\td, err := msg.MessageData()\n\t\t\tif err != nil {\n\t\t\t\treturn nil, err\n\t\t\t}\n\n\t\t\tinfo := protoscan.New(d)\n\t\t\tfor info.Next() {\n\t\t\t\tswitch info.FieldNumber() {\n\t\t\t\tcase 1:\n\t\t\t\t\tv, err := info.Int32()\n\t\t\t\t\tif err != nil {\n\t\t\t\t\t\treturn nil, err\n\t\t\t\t\t}\n\t\t\t\t\tway.Version", Replace: "\t\t\tdec.vals, err = msg.Iterator(dec.vals)\n\t\t\tfoundVals = true\n\t\t\terr = nil\n\t\tcase 4: // info\n\t\t\td, err := msg.MessageData()\n\t\t\tif err != nil {\n\t\t\t\treturn nil, err\n\t\t\t}\n\n\t\t\tinfo := protoscan.New(d)\n\t\t\tfor info.Next() {\n\t\t\t\tswitch info.FieldNumber() {\n\t\t\t\tcase 1:\n\t\t\t\t\tv, err := info.Int32()\n\t\t\t\t\tif err != nil {\n\t\t\t\t\t\treturn nil, err\n\t\t\t\t\t}\n\t\t\t\t\tway.Version", ExpectRule: "E1", ExpectConstruct: "scanWays"},
			{Name: "unmarshal-error-ignored", File: "osmpbf/decode.go", Find: "\tif err := proto.Unmarshal(buf, blob); err != nil {\n\t\treturn nil, err\n\t}", Replace: "\tproto.Unmarshal(buf, blob)", ExpectRule: "E1", ExpectConstruct: "readBlob"},
			{Name: "blob-eof-unmapped", File: "osmpbf/decode.go", Find: "func (dec *decoder) readBlob(buf []byte) (*osmpbf.Blob, error) {\n\tif _, err := io.ReadFull(dec.r, buf); err != nil {\n\t\treturn nil, unexpectedEOF(err)", Replace: "func (dec *decoder) readBlob(buf []byte) (*osmpbf.Blob, error) {\n\tif _, err := io.ReadFull(dec.r, buf); err != nil {\n\t\treturn nil, err", ExpectRule: "E2", ExpectConstruct: "readBlob"},
			{Name: "header-size-guard-dropped", File: "osmpbf/decode.go", Find: "\tif size >= maxBlobHeaderSize {\n\t\treturn 0, errors.New(\"blobHeader size >= 64Kb\")\n\t}\n", Replace: "", ExpectRule: "E3", ExpectConstruct: "headerBuf"},
			{Name: "blob-negative-size-unguarded", File: "osmpbf/decode.go", Find: "\tif blobHeader.GetDatasize() < 0 {\n\t\treturn nil, errors.New(\"blob size < 0\")\n\t}\n", Replace: "", ExpectRule: "E3", ExpectConstruct: "blobBuf"},
			{Name: "blob-limit-above-buffer", File: "osmpbf/decode.go", Find: "if blobHeader.GetDatasize() >= maxBlobSize {", Replace: "if blobHeader.GetDatasize() >= 2*maxBlobSize {", ExpectRule: "E3", ExpectConstruct: "blobBuf"},
			{Name: "rawsize-check-dropped", File: "osmpbf/decode.go", Find: "\t\tif buf.Len() != int(blob.GetRawSize()) {\n\t\t\treturn nil, fmt.Errorf(\"raw blob data size %d but expected %d\", buf.Len(), blob.GetRawSize())\n\t\t}\n", Replace: "", ExpectRule: "E4", ExpectConstruct: "raw_size"},
			{Name: "zlib-read-limited-to-rawsize", File: "osmpbf/decode.go", Find: "if _, err = buf.ReadFrom(io.LimitReader(r, int64(blob.GetRawSize())+1)); err != nil {", Replace: "if _, err = buf.ReadFrom(io.LimitReader(r, int64(blob.GetRawSize()))); err != nil {", ExpectRule: "E4", ExpectConstruct: "whole-stream"},
			{Name: "zlib-copyn-rawsize", File: "osmpbf/decode.go", Find: "if _, err = buf.ReadFrom(io.LimitReader(r, int64(blob.GetRawSize())+1)); err != nil {", Replace: "if _, err = io.CopyN(buf, r, int64(blob.GetRawSize())); err != nil {", ExpectRule: "E4", ExpectConstruct: "whole-stream"},
			{Name: "unknown-blob-empty-data", File: "osmpbf/decode.go", Find: "\tdefault:\n\t\treturn nil, errors.New(\"unknown blob data\")", Replace: "\tdefault:\n\t\treturn nil, nil", ExpectRule: "E4", ExpectConstruct: "default"},
			{Name: "feature-gate-dropped", File: "osmpbf/decode.go", Find: "\t\tif !parseCapabilities[feature] {\n\t\t\treturn nil, fmt.Errorf(\"parser does not have %s capability\", feature)\n\t\t}\n", Replace: "\t\t_ = feature\n", ExpectRule: "E5", ExpectConstruct: "required"},
			{Name: "wrong-type-block-skipped", File: "osmpbf/decode.go", Find: "\t\t\tif err == nil && blobHeader.GetType() != osmDataType {\n\t\t\t\terr = fmt.Errorf(\"unexpected fileblock of type %s\", blobHeader.GetType())\n\t\t\t}\n", Replace: "\t\t\tif err == nil && blobHeader.GetType() != osmDataType {\n\t\t\t\tcontinue\n\t\t\t}\n", ExpectRule: "E5", ExpectConstruct: "block type"},
			{Name: "stringAt-guard-weakened", File: "osmpbf/decode_data.go", Find: "if i < 0 || i >= int64(len(st)) {", Replace: "if i < 0 || i > int64(len(st)) {", ExpectRule: "E6", ExpectConstruct: "stringAt"},
			{Name: "direct-st-index", File: "osmpbf/decode_data.go", Find: "members[index].Role, err = stringAt(st, int64(r))\n\t\tif err != nil {\n\t\t\treturn nil, err\n\t\t}", Replace: "members[index].Role = st[r]", ExpectRule: "E6", ExpectConstruct: "extractMembers"},
			{Name: "member-index-unguarded", File: "osmpbf/decode_data.go", Find: "\t\tif index >= int64(len(members)) {\n\t\t\treturn nil, errMemberColumns\n\t\t}\n", Replace: "", ExpectRule: "E6", ExpectConstruct: "members[index]"},
			{Name: "tags-sized-by-other-iterator", File: "osmpbf/decode_data.go", Find: "tags := make(osm.Tags, keys.Count(protoscan.WireTypeVarint))", Replace: "tags := make(osm.Tags, vals.Count(protoscan.WireTypeVarint))", ExpectRule: "E6", ExpectConstruct: "tags[index]"},
			{Name: "bbox-deref-without-required", File: "osmpbf/decode.go", Find: "if headerBlock.OsmosisReplicationTimestamp != nil {\n\t\theader.ReplicationTimestamp", Replace: "if headerBlock.OsmosisReplicationSequenceNumber != nil {\n\t\theader.ReplicationTimestamp", ExpectRule: "E6", ExpectConstruct: "OsmosisReplicationTimestamp"},
			{Name: "panic-on-plain-nodes", File: "osmpbf/decode_data.go", Find: "return errors.New(\"osmpbf: plain (non-dense) node groups are not supported\")", Replace: "panic(\"nodes are not supported, currently untested\")", ExpectRule: "E7", ExpectConstruct: "scanPrimitiveGroup"},
			{Name: "ids-presence-from-surviving-state", File: "osmpbf/decode_data.go", Find: "\tif !foundIds {\n", Replace: "\tif !foundIds && dec.ids == nil {\n", ExpectRule: "E10", ExpectConstruct: "dec.ids"},
			{Name: "lats-presence-from-surviving-state", File: "osmpbf/decode_data.go", Find: "\tif !foundLats {\n", Replace: "\tif dec.lats == nil && !foundLats {\n", ExpectRule: "E10", ExpectConstruct: "dec.lats"},
			{Name: "stale-string-table", File: "osmpbf/decode_data.go", Find: "\t\tdec.primitiveBlock.Stringtable.S = dec.primitiveBlock.Stringtable.S[:0]\n", Replace: "", ExpectRule: "E9", ExpectConstruct: "reset@"},
			{Name: "err-swallows-unexpected-eof", File: "osmpbf/scanner.go", Find: "if s.err == io.EOF {\n\t\treturn nil\n\t}", Replace: "if s.err == io.EOF || s.err == io.ErrUnexpectedEOF {\n\t\treturn nil\n\t}", ExpectRule: "E8", ExpectConstruct: "osmpbf"},
		}...),
	})
}

var errorType = types.Universe.Lookup("error").Type()

func isErrorType(t types.Type) bool { return t != nil && types.Identical(t, errorType) }

func isGenerated(p *core.Program, pos token.Pos) bool {
	return strings.HasSuffix(p.Fset.Position(pos).Filename, ".pb.go")
}

// ---------------------------------------------------------------- E1

// errFlow decides whether the error stored in variable errObj by the statement containing pos reaches,
// on every path, a test / return / forwarding use before being overwritten or the function ending.
func errFlow(info *types.Info, g *cfg.CFG, errObj types.Object, pos token.Pos) (bool, string) {
	b0, i0 := blockOf(g, pos)
	if b0 == nil {
		return false, "assignment not found in the control-flow graph"
	}
	type state struct {
		b *cfg.Block
		i int
	}
	seen := map[*cfg.Block]bool{}
	work := []state{{b0, i0 + 1}}
	for len(work) > 0 {
		st := work[len(work)-1]
		work = work[:len(work)-1]
		done := false
		for i := st.i; i < len(st.b.Nodes) && !done; i++ {
			n := st.b.Nodes[i]
			switch classifyErrUse(info, n, errObj) {
			case "use":
				done = true
			case "kill":
				return false, "the error is overwritten before it is looked at"
			}
		}
		if done {
			continue
		}
		if len(st.b.Succs) == 0 && st.b.Kind == cfg.KindSelectAfterCase {
			continue // "no case of a select without default is ready": the goroutine blocks, nothing is left
		}
		if len(st.b.Succs) == 0 {
			return false, "a path reaches the end of the function without the error having been tested, returned or forwarded"
		}
		for _, s := range st.b.Succs {
			if !seen[s] {
				seen[s] = true
				work = append(work, state{s, 0})
			}
		}
	}
	return true, ""
}

// classifyErrUse: "use" when node n tests/returns/forwards errObj, "kill" when it overwrites it, "" otherwise.
func classifyErrUse(info *types.Info, n ast.Node, errObj types.Object) string {
	switch s := n.(type) {
	case *ast.AssignStmt:
		// a use on the RHS counts first (err = wrap(err))
		for _, rh := range s.Rhs {
			if usesObj(info, rh, errObj) {
				return "use"
			}
		}
		for _, l := range s.Lhs {
			if id, ok := l.(*ast.Ident); ok && (info.Uses[id] == errObj || info.Defs[id] == errObj) {
				return "kill"
			}
		}
		// stored into a field / element: forwarded
		for _, l := range s.Lhs {
			if usesObj(info, l, errObj) {
				return "use"
			}
		}
		return ""
	case *ast.ValueSpec, *ast.DeclStmt:
		return ""
	}
	if usesObj(info, n, errObj) {
		return "use"
	}
	return ""
}

// c06ErrIndex returns the position of the error in the result tuple of a call expression (-1: none) and the
// number of results.
func c06ErrIndex(info *types.Info, call *ast.CallExpr) (int, int) {
	tv, ok := info.Types[call]
	if !ok {
		return -1, 0
	}
	errIdx, nres := -1, 1
	switch t := tv.Type.(type) {
	case *types.Tuple:
		nres = t.Len()
		for i := 0; i < t.Len(); i++ {
			if isErrorType(t.At(i).Type()) {
				errIdx = i
			}
		}
	default:
		if isErrorType(tv.Type) && !tv.IsType() {
			errIdx = 0
		}
	}
	return errIdx, nres
}

func c06E1(r *core.R) {
	pk := r.P.Pkg("osmpbf")
	if pk == nil {
		r.Anchor("package osmpbf")
		return
	}
	info := pk.TypesInfo
	ncalls := 0
	for _, fi := range allFuncs(pk) {
		if isGenerated(r.P, fi.Decl.Pos()) {
			continue
		}
		fi := fi
		f0 := c01FnOf(r.P, fi)
		par := f0.par
		ast.Inspect(fi.Decl.Body, func(n ast.Node) bool {
			call, ok := n.(*ast.CallExpr)
			if !ok {
				return true
			}
			errIdx, nres := c06ErrIndex(info, call)
			if errIdx < 0 {
				return true
			}
			// conversions / error constructors are not "callee returns an error to be checked"
			fn := callee(info, call)
			if fn == nil && c01IsConversion(info, call) {
				return true
			}
			if isPkgFunc(fn, "errors", "New") || isPkgFunc(fn, "fmt", "Errorf") {
				return true
			}
			ncalls++
			name := "?"
			if fn != nil {
				name = funcName(fn)
				if fn.Pkg() != nil && fn.Pkg() != pk.Types {
					name = fn.Pkg().Name() + "." + name
				}
			}
			c := "call@" + fi.Name() + " " + name
			// the error variable the result is stored in
			var lhs ast.Expr
			var stmt ast.Node
			parent := par[call]
			for {
				if pe, ok := parent.(*ast.ParenExpr); ok {
					parent = par[pe]
					continue
				}
				break
			}
			switch p := parent.(type) {
			case *ast.ReturnStmt:
				r.OK(c, call.Pos(), "result returned directly")
				return true
			case *ast.ExprStmt:
				r.Bad(c, call.Pos(), "the error returned by `%s` is discarded: damaged input would be accepted silently", src(r.P.Fset, call))
				return true
			case *ast.DeferStmt, *ast.GoStmt:
				r.Bad(c, call.Pos(), "the error returned by `%s` is discarded (deferred / started as a goroutine)", src(r.P.Fset, call))
				return true
			case *ast.AssignStmt:
				if len(p.Rhs) == 1 && len(p.Lhs) == nres {
					lhs, stmt = p.Lhs[errIdx], p
				} else if len(p.Rhs) == len(p.Lhs) && nres == 1 {
					for i, rh := range p.Rhs {
						if ast.Unparen(rh) == call {
							lhs, stmt = p.Lhs[i], p
						}
					}
				}
				if lhs == nil {
					r.Unknown(c, call.Pos(), "unrecognised assignment form `%s`", src(r.P.Fset, p))
					return true
				}
			case *ast.ValueSpec:
				if len(p.Values) == 1 && len(p.Names) == nres {
					lhs, stmt = p.Names[errIdx], p
				} else if len(p.Values) == len(p.Names) && nres == 1 {
					for i, rh := range p.Values {
						if ast.Unparen(rh) == call {
							lhs, stmt = p.Names[i], p
						}
					}
				}
				if lhs == nil {
					r.Unknown(c, call.Pos(), "unrecognised var declaration form")
					return true
				}
			default:
				// e.g. `return nil, f()` is handled above; call used as an operand
				if _, isRet := par[parent].(*ast.ReturnStmt); isRet && nres == 1 {
					r.OK(c, call.Pos(), "result returned directly")
				} else if kv, isKV := parent.(*ast.KeyValueExpr); isKV && ast.Unparen(kv.Value) == call {
					r.OK(c, call.Pos(), "result forwarded in a composite literal")
				} else if _, _, isNil := c01NilCmp(c06AsExpr(parent)); isNil {
					r.OK(c, call.Pos(), "result compared with nil in place")
				} else if oc, isCall := parent.(*ast.CallExpr); isCall && nres == 1 && c01Callee(pk, oc) != nil {
					r.OK(c, call.Pos(), "result handed on as an argument of %s", src(r.P.Fset, oc.Fun))
				} else {
					r.Unknown(c, call.Pos(), "error-returning call in an unrecognised context (%T)", parent)
				}
				return true
			}
			if id, ok := lhs.(*ast.Ident); ok && id.Name == "_" {
				r.Bad(c, call.Pos(), "the error returned by `%s` is assigned to _: damaged input would be accepted silently", src(r.P.Fset, call))
				return true
			}
			if f := fieldOf(info, lhs); f != nil {
				r.OKTrivial(c, call.Pos(), "error stored in field %s (reported by Err/its reader)", f.Name())
				return true
			}
			eo := objOf(info, lhs)
			if eo == nil {
				r.Unknown(c, call.Pos(), "error assigned to `%s`", src(r.P.Fset, lhs))
				return true
			}
			f := f0.innermost(call)
			if ok, why := errFlow(info, f.g, eo, stmt.Pos()); ok {
				r.OK(c, call.Pos(), "on every path the error in `%s` is tested, returned or forwarded before being overwritten", eo.Name())
			} else {
				r.Bad(c, call.Pos(), "error of `%s`: %s", src(r.P.Fset, call), why)
			}
			return true
		})
		// protoscan messages: wherever X.Next() is tested, the outcome "no further field" must be followed on every path by
		// a look at X.Err() before the function is left (a truncated or malformed message ends the iteration early)
		for _, body := range c06Bodies(fi) {
			f := c01FnOfBody(r.P, fi, body)
			for _, blk := range f.g.Blocks {
				if !blk.Live {
					continue
				}
				cond := f.condOf(blk)
				if cond == nil {
					continue
				}
				var msgObj types.Object
				var nextCall *ast.CallExpr
				ast.Inspect(cond, func(x ast.Node) bool {
					if c2, ok := x.(*ast.CallExpr); ok && isMethod(callee(info, c2), protoscanMsg, "Next") {
						if sel, ok := ast.Unparen(c2.Fun).(*ast.SelectorExpr); ok {
							msgObj, nextCall = c01RootObj(info, sel.X), c2
						}
					}
					return true
				})
				if msgObj == nil {
					continue
				}
				c := "msgloop@" + fi.Name() + " " + msgObj.Name()
				v := c01Eval(info, cond, func(a ast.Expr) c01Tri {
					if ast.Unparen(a) == ast.Expr(nextCall) {
						return c01F
					}
					return c01U
				})
				okAll := true
				// when Next() was evaluated at all, the operands to its left in the condition held (`err == nil && msg.Next()`)
				c06KnownNil = c06NilFacts(info, c06ShortCircuitFacts(f.par, nextCall))
				for si, s := range blk.Succs {
					if (si == 0 && v == c01F) || (si == 1 && v == c01T) {
						continue
					}
					if !c06ErrLooked(r.P, f, s, 0, msgObj, 0) {
						okAll = false
					}
				}
				c06KnownNil = nil
				if okAll {
					r.OK(c, cond.Pos(), "when %s.Next() reports no further field, every path looks at %s.Err() before leaving the function (or its caller does) or resetting the message", msgObj.Name(), msgObj.Name())
				} else {
					r.Bad(c, cond.Pos(), "after `%s.Next()` reports no further field a path leaves (or resets the message) without looking at %s.Err(): a truncated or malformed message ends the loop early and is accepted silently", msgObj.Name(), msgObj.Name())
				}
			}
		}
	}
	r.Stat("error_returning_calls", ncalls)
}

func c06AsExpr(n ast.Node) ast.Expr {
	if e, ok := n.(ast.Expr); ok {
		return e
	}
	return &ast.BadExpr{}
}

// c06Bodies lists the body of a declaration and of every function literal inside it.
func c06Bodies(fi *FuncInfo) []*ast.BlockStmt {
	out := []*ast.BlockStmt{fi.Decl.Body}
	ast.Inspect(fi.Decl.Body, func(n ast.Node) bool {
		if fl, ok := n.(*ast.FuncLit); ok {
			out = append(out, fl.Body)
		}
		return true
	})
	return out
}

// c06IsErrLook: node n looks at msg.Err() of the message held by msgObj, or hands the message to a function of the
// package every path of which does.
func c06IsErrLook(p *core.Program, f *c01Fn, n ast.Node, msgObj types.Object, depth int) bool {
	info := f.info
	return c01ContainsCall(n, func(call *ast.CallExpr) bool {
		if isMethod(callee(info, call), protoscanMsg, "Err") {
			if sel, ok := ast.Unparen(call.Fun).(*ast.SelectorExpr); ok && c01RootObj(info, sel.X) == msgObj {
				return true
			}
		}
		if tf := c01Callee(f.pk, call); tf != nil && depth < 3 {
			for i, a := range call.Args {
				if c01RootObj(info, a) == msgObj && namedPath(info.TypeOf(a)) == protoscanMsg {
					if po := c01Param(info, tf, i); po != nil {
						tfn := c01FnOf(p, tf)
						// every normal path of the callee looks at Err
						if !c06PathWithoutErrLook(p, tfn, tfn.g.Blocks[0], 0, po, depth+1, false) {
							return true
						}
					}
				}
			}
		}
		return false
	})
}

// c06PathWithoutErrLook: a path from (b0,i0) reaches a normal exit of f without looking at msg.Err(); a Reset of the
// message before the look also counts as such a path. When the message is a parameter and callers is set, leaving
// the function is acceptable if every caller looks at Err after the call.
func c06PathWithoutErrLook(p *core.Program, f *c01Fn, b0 *cfg.Block, i0 int, msgObj types.Object, depth int, callers bool) bool {
	info := f.info
	type st struct {
		b *cfg.Block
		i int
	}
	seen := map[*cfg.Block]bool{}
	work := []st{{b0, i0}}
	assigned := map[types.Object]bool{} // variables assigned somewhere on the paths walked so far
	for len(work) > 0 {
		cur := work[len(work)-1]
		work = work[:len(work)-1]
		stopped := false
		for i := cur.i; i < len(cur.b.Nodes); i++ {
			n := cur.b.Nodes[i]
			if as, isAs := n.(*ast.AssignStmt); isAs {
				for _, l := range as.Lhs {
					if o := objOf(info, l); o != nil {
						assigned[o] = true
					}
				}
			}
			if c06IsErrLook(p, f, n, msgObj, depth) {
				stopped = true
				break
			}
			reset := c01ContainsCall(n, func(call *ast.CallExpr) bool {
				if !isMethod(callee(info, call), protoscanMsg, "Reset") {
					return false
				}
				sel, ok := ast.Unparen(call.Fun).(*ast.SelectorExpr)
				return ok && c01RootObj(info, sel.X) == msgObj
			})
			if reset {
				return true
			}
		}
		if stopped {
			continue
		}
		// a branch on the nil-ness of a variable whose nil-ness is known (and that was not assigned on the way)
		if depth == 0 && len(c06KnownNil) > 0 && len(cur.b.Succs) == 2 {
			if pruned, only := c06KnownBranch(f, cur.b, assigned); pruned {
				if !seen[only] {
					seen[only] = true
					work = append(work, st{only, 0})
				}
				continue
			}
		}
		if len(cur.b.Succs) == 0 {
			if !c01IsNormalExit(f, cur.b) {
				continue
			}
			if callers && depth < 3 && c01ParamIndex(info, f.fi, msgObj) >= 0 && f.body == f.fi.Decl.Body {
				idx := c01ParamIndex(info, f.fi, msgObj)
				ncall := 0
				bad := false
				for _, caller := range allFuncs(f.pk) {
					cf := c01FnOf(p, caller)
					ast.Inspect(caller.Decl.Body, func(x ast.Node) bool {
						call, ok := x.(*ast.CallExpr)
						if !ok || callee(info, call) != f.fi.Obj || idx >= len(call.Args) {
							return true
						}
						ncall++
						ao := c01RootObj(info, call.Args[idx])
						cfn := cf.innermost(call)
						cb, ci := blockOf(cfn.g, call.Pos())
						if ao == nil || cb == nil || c06PathWithoutErrLook(p, cfn, cb, ci+1, ao, depth+1, true) {
							bad = true
						}
						return true
					})
				}
				if ncall > 0 && !bad {
					continue
				}
			}
			return true
		}
		for _, nb := range cur.b.Succs {
			if !seen[nb] {
				seen[nb] = true
				work = append(work, st{nb, 0})
			}
		}
	}
	return false
}

// c06ErrLooked: from (b,i) every path looks at msg.Err() before leaving.
func c06ErrLooked(p *core.Program, f *c01Fn, b *cfg.Block, i int, msgObj types.Object, depth int) bool {
	return !c06PathWithoutErrLook(p, f, b, i, msgObj, depth, true)
}
