package rules

import (
	"fmt"
	"go/ast"
	"go/token"
	"go/types"
	"reflect"
	"strings"

	"golang.org/x/tools/go/cfg"

	"osmcheck/core"
)

func init() {
	register(&core.Property{
		ID:    "C06",
		Title: "Truncated or damaged PBF input ends in an error after a correct prefix",
		Explanation: "Structural necessary conditions, decided for every call site / index expression / path in package osmpbf: " +
			"(E1) no error returned by a callee is dropped: on every path it is tested, returned or forwarded in a pipeline pair before being overwritten, and every protoscan message loop is followed by a test of msg.Err(); " +
			"(E2) io.EOF can only originate from the first read of a block; errors of the later io.ReadFull calls pass an EOF→ErrUnexpectedEOF mapping; " +
			"(E3) each scratch buffer slice `buf[:n]` is preceded on every path by an upper-bound test of n against a constant not above the buffer's size and, for signed n, a lower-bound test; " +
			"(E4) the blob encoding switch has an error default and the zlib path compares the decompressed length with raw_size; " +
			"(E5) a header is only accepted through the required-features gate; a block of unexpected type yields an error that travels in that iteration's pair; " +
			"(E6) every slice/string index or slice expression reachable from the decoding goroutines has a proof from the idiom list (constant, range/loop counter, dominating bounds guard with error exit, counter into a buffer sized by Iterator.Count of the iterator being read), optional message fields are nil-guarded or `required`; " +
			"(E7) no panic call and no unchecked type assertion is reachable from the goroutine roles; " +
			"(E8) Err maps only io.EOF to nil; " +
			"(E9) the cached block's string table and parameters are reset before every block, so the range checks of string references run against the block being decoded and a block without a string table is rejected instead of borrowing the previous block's strings. " +
			"NOT decided: that the delivered prefix is correct (C01/C02), behaviour inside protoscan/protobuf/zlib (including whether a decoding library could itself return io.EOF), hangs inside libraries, memory exhaustion from huge declared sizes, column-length mismatches that neither index out of range nor exhaust an iterator.",
		Assumptions: []string{"go/types, go/cfg (x/tools v0.29.0)",
			"protoscan.Iterator.Count(WireTypeVarint) >= number of successful varint reads of that iterator; an exhausted iterator returns an error (read in protoscan v0.2.1 iterator.go/scalar.go)",
			"proto.Unmarshal rejects messages lacking `required` fields", "io.ReadFull returns io.EOF only when no byte was read"},
		LevelText: "Structural necessary conditions of 'damage ends in an error, never silent success or a crash', decided at every error-returning call site, every io.ReadFull, every scratch-buffer slice and every index expression reachable from the decoder goroutines.",
		LevelNote: "Trusts the type checker and go/cfg, two axioms about protoscan (stated in assumptions), proto.Unmarshal's required-field check and io.ReadFull's contract. Library internals are out of scope.",
		Technique: "error-discipline dataflow on go/cfg (every path from an error-producing call reaches a test/forward), EOF-provenance rule, guard-dominance for slice bounds and indices with an enumerated idiom list, who-may-panic over goroutine roles",
		DesignRef: "DESIGN.md §5 C06",
		Rules: []*core.Rule{
			{ID: "E1", Floor: 70, Doc: "error discipline: no error dropped; msg.Err() after every protoscan loop", Run: c06E1},
			{ID: "E2", Floor: 3, Doc: "io.EOF only from the first read of a block", Run: c06E2},
			{ID: "E3", Floor: 2, Doc: "scratch buffer slices are bounded above (and below when signed)", Run: c06E3},
			{ID: "E4", Floor: 2, Doc: "blob encoding default error; raw_size comparison", Run: c06E4},
			{ID: "E5", Floor: 2, Doc: "required-features gate; unexpected block type travels as an error", Run: c06E5},
			{ID: "E6", Floor: 20, Doc: "index safety in everything reachable from the decoder goroutines", Run: c06E6},
			{ID: "E7", Floor: 15, Doc: "no panic / unchecked type assertion reachable from the goroutine roles", Run: c06E7},
			{ID: "E8", Floor: 2, Doc: "Err maps only io.EOF to nil", Run: c06E8},
			{ID: "E9", Floor: 6, Doc: "string references are checked against the current block's string table: cached block parameters are reset before each block (shared with C01.R3)", Run: c01R3},
		},
		Mutants: []core.Mutant{
			{Name: "drop-iterator-error", File: "osmpbf/decode_data.go", Find: "\t\t\tdec.lats, err = msg.Iterator(dec.lats)\n\t\t\tfoundLats = true", Replace: "\t\t\tdec.lats, _ = msg.Iterator(dec.lats)\n\t\t\tfoundLats = true", ExpectRule: "E1", ExpectConstruct: "scanDenseNodes"},
			{Name: "drop-msg-err", File: "osmpbf/decode_data.go", Find: "\tif msg.Err() != nil {\n\t\treturn msg.Err()\n\t}\n\n\t// we need the offsets", Replace: "\t// we need the offsets", ExpectRule: "E1", ExpectConstruct: "scanPrimitiveBlock"},
			{Name: "overwrite-err-before-test", File: "osmpbf/decode_data.go", Find: "\t\t\tdec.vals, err = msg.Iterator(dec.vals)\n\t\t\tfoundVals = true\n\t\tcase 4: // info\n\t\t\td, err := msg.MessageData()\n\t\t\tif err != nil {\n\t\t\t\treturn nil, err\n\t\t\t}\n\n\t\t\tinfo := protoscan.New(d)\n\t\t\tfor info.Next() {\n\t\t\t\tswitch info.FieldNumber() {\n\t\t\t\tcase 1:\n\t\t\t\t\tv, err := info.Int32()\n\t\t\t\t\tif err != nil {\n\t\t\t\t\t\treturn nil, err\n\t\t\t\t\t}\n\t\t\t\t\tway.Version", Replace: "\t\t\tdec.vals, err = msg.Iterator(dec.vals)\n\t\t\tfoundVals = true\n\t\t\terr = nil\n\t\tcase 4: // info\n\t\t\td, err := msg.MessageData()\n\t\t\tif err != nil {\n\t\t\t\treturn nil, err\n\t\t\t}\n\n\t\t\tinfo := protoscan.New(d)\n\t\t\tfor info.Next() {\n\t\t\t\tswitch info.FieldNumber() {\n\t\t\t\tcase 1:\n\t\t\t\t\tv, err := info.Int32()\n\t\t\t\t\tif err != nil {\n\t\t\t\t\t\treturn nil, err\n\t\t\t\t\t}\n\t\t\t\t\tway.Version", ExpectRule: "E1", ExpectConstruct: "scanWays"},
			{Name: "unmarshal-error-ignored", File: "osmpbf/decode.go", Find: "\tif err := proto.Unmarshal(buf, blob); err != nil {\n\t\treturn nil, err\n\t}", Replace: "\tproto.Unmarshal(buf, blob)", ExpectRule: "E1", ExpectConstruct: "readBlob"},
			{Name: "blob-eof-unmapped", File: "osmpbf/decode.go", Find: "func (dec *decoder) readBlob(buf []byte) (*osmpbf.Blob, error) {\n\tif _, err := io.ReadFull(dec.r, buf); err != nil {\n\t\treturn nil, unexpectedEOF(err)", Replace: "func (dec *decoder) readBlob(buf []byte) (*osmpbf.Blob, error) {\n\tif _, err := io.ReadFull(dec.r, buf); err != nil {\n\t\treturn nil, err", ExpectRule: "E2", ExpectConstruct: "readBlob"},
			{Name: "header-size-guard-dropped", File: "osmpbf/decode.go", Find: "\tif size >= maxBlobHeaderSize {\n\t\treturn 0, errors.New(\"blobHeader size >= 64Kb\")\n\t}\n", Replace: "", ExpectRule: "E3", ExpectConstruct: "headerBuf"},
			{Name: "blob-negative-size-unguarded", File: "osmpbf/decode.go", Find: "\tif blobHeader.GetDatasize() < 0 {\n\t\treturn nil, errors.New(\"blob size < 0\")\n\t}\n", Replace: "", ExpectRule: "E3", ExpectConstruct: "blobBuf"},
			{Name: "blob-limit-above-buffer", File: "osmpbf/decode.go", Find: "if blobHeader.GetDatasize() >= maxBlobSize {", Replace: "if blobHeader.GetDatasize() >= 2*maxBlobSize {", ExpectRule: "E3", ExpectConstruct: "blobBuf"},
			{Name: "rawsize-check-dropped", File: "osmpbf/decode.go", Find: "\t\tif buf.Len() != int(blob.GetRawSize()) {\n\t\t\treturn nil, fmt.Errorf(\"raw blob data size %d but expected %d\", buf.Len(), blob.GetRawSize())\n\t\t}\n", Replace: "", ExpectRule: "E4", ExpectConstruct: "raw_size"},
			{Name: "unknown-blob-empty-data", File: "osmpbf/decode.go", Find: "\tdefault:\n\t\treturn nil, errors.New(\"unknown blob data\")", Replace: "\tdefault:\n\t\treturn nil, nil", ExpectRule: "E4", ExpectConstruct: "default"},
			{Name: "feature-gate-dropped", File: "osmpbf/decode.go", Find: "\t\tif !parseCapabilities[feature] {\n\t\t\treturn nil, fmt.Errorf(\"parser does not have %s capability\", feature)\n\t\t}\n", Replace: "\t\t_ = feature\n", ExpectRule: "E5", ExpectConstruct: "required"},
			{Name: "wrong-type-block-skipped", File: "osmpbf/decode.go", Find: "\t\t\tif err == nil && blobHeader.GetType() != osmDataType {\n\t\t\t\terr = fmt.Errorf(\"unexpected fileblock of type %s\", blobHeader.GetType())\n\t\t\t}\n", Replace: "\t\t\tif err == nil && blobHeader.GetType() != osmDataType {\n\t\t\t\tcontinue\n\t\t\t}\n", ExpectRule: "E5", ExpectConstruct: "block type"},
			{Name: "stringAt-guard-weakened", File: "osmpbf/decode_data.go", Find: "if i < 0 || i >= int64(len(st)) {", Replace: "if i < 0 || i > int64(len(st)) {", ExpectRule: "E6", ExpectConstruct: "stringAt"},
			{Name: "direct-st-index", File: "osmpbf/decode_data.go", Find: "members[index].Role, err = stringAt(st, int64(r))\n\t\tif err != nil {\n\t\t\treturn nil, err\n\t\t}", Replace: "members[index].Role = st[r]", ExpectRule: "E6", ExpectConstruct: "extractMembers"},
			{Name: "member-index-unguarded", File: "osmpbf/decode_data.go", Find: "\t\tif index >= int64(len(members)) {\n\t\t\treturn nil, errMemberColumns\n\t\t}\n", Replace: "", ExpectRule: "E6", ExpectConstruct: "members[index]"},
			{Name: "tags-sized-by-other-iterator", File: "osmpbf/decode_data.go", Find: "tags := make(osm.Tags, keys.Count(protoscan.WireTypeVarint))", Replace: "tags := make(osm.Tags, vals.Count(protoscan.WireTypeVarint))", ExpectRule: "E6", ExpectConstruct: "tags[index]"},
			{Name: "bbox-deref-without-required", File: "osmpbf/decode.go", Find: "if headerBlock.OsmosisReplicationTimestamp != nil {\n\t\theader.ReplicationTimestamp", Replace: "if headerBlock.OsmosisReplicationSequenceNumber != nil {\n\t\theader.ReplicationTimestamp", ExpectRule: "E6", ExpectConstruct: "OsmosisReplicationTimestamp"},
			{Name: "panic-on-plain-nodes", File: "osmpbf/decode_data.go", Find: "return errors.New(\"osmpbf: plain (non-dense) node groups are not supported\")", Replace: "panic(\"nodes are not supported, currently untested\")", ExpectRule: "E7", ExpectConstruct: "scanPrimitiveGroup"},
			{Name: "stale-string-table", File: "osmpbf/decode_data.go", Find: "\t\tdec.primitiveBlock.Stringtable.S = dec.primitiveBlock.Stringtable.S[:0]\n", Replace: "", ExpectRule: "E9", ExpectConstruct: "reset@"},
			{Name: "err-swallows-unexpected-eof", File: "osmpbf/scanner.go", Find: "if s.err == io.EOF {\n\t\treturn nil\n\t}", Replace: "if s.err == io.EOF || s.err == io.ErrUnexpectedEOF {\n\t\treturn nil\n\t}", ExpectRule: "E8", ExpectConstruct: "osmpbf"},
		},
	})
}

var errorType = types.Universe.Lookup("error").Type()

func isErrorType(t types.Type) bool { return t != nil && types.Identical(t, errorType) }

func isGenerated(p *core.Program, pos token.Pos) bool {
	return strings.HasSuffix(p.Fset.Position(pos).Filename, ".pb.go")
}

// ---------------------------------------------------------------- E1

// errFlow decides whether the error stored in variable errObj by the statement containing pos reaches,
// on every path, a test / return / forwarding use before being overwritten or the function ending.
func errFlow(info *types.Info, g *cfg.CFG, errObj types.Object, pos token.Pos) (bool, string) {
	b0, i0 := blockOf(g, pos)
	if b0 == nil {
		return false, "assignment not found in the control-flow graph"
	}
	type state struct {
		b *cfg.Block
		i int
	}
	seen := map[*cfg.Block]bool{}
	work := []state{{b0, i0 + 1}}
	for len(work) > 0 {
		st := work[len(work)-1]
		work = work[:len(work)-1]
		done := false
		for i := st.i; i < len(st.b.Nodes) && !done; i++ {
			n := st.b.Nodes[i]
			switch classifyErrUse(info, n, errObj) {
			case "use":
				done = true
			case "kill":
				return false, "the error is overwritten before it is looked at"
			}
		}
		if done {
			continue
		}
		if len(st.b.Succs) == 0 {
			return false, "a path reaches the end of the function without the error having been tested, returned or forwarded"
		}
		for _, s := range st.b.Succs {
			if !seen[s] {
				seen[s] = true
				work = append(work, state{s, 0})
			}
		}
	}
	return true, ""
}

// classifyErrUse: "use" when node n tests/returns/forwards errObj, "kill" when it overwrites it, "" otherwise.
func classifyErrUse(info *types.Info, n ast.Node, errObj types.Object) string {
	switch s := n.(type) {
	case *ast.AssignStmt:
		// a use on the RHS counts first (err = wrap(err))
		for _, rh := range s.Rhs {
			if usesObj(info, rh, errObj) {
				return "use"
			}
		}
		for _, l := range s.Lhs {
			if id, ok := l.(*ast.Ident); ok && (info.Uses[id] == errObj || info.Defs[id] == errObj) {
				return "kill"
			}
		}
		return ""
	case *ast.ValueSpec, *ast.DeclStmt:
		return ""
	}
	if usesObj(info, n, errObj) {
		return "use"
	}
	return ""
}

func c06E1(r *core.R) {
	pk := r.P.Pkg("osmpbf")
	if pk == nil {
		r.Anchor("package osmpbf")
		return
	}
	info := pk.TypesInfo
	ncalls := 0
	for _, fi := range allFuncs(pk) {
		if isGenerated(r.P, fi.Decl.Pos()) {
			continue
		}
		par := parentsOf(r.P, fi)
		// one CFG per function literal / declaration body
		cfgs := map[ast.Node]*cfg.CFG{}
		cfgFor := func(n ast.Node) *cfg.CFG {
			// innermost enclosing function body
			var body *ast.BlockStmt
			var key ast.Node
			for p := n; p != nil; p = par[p] {
				if fl, ok := p.(*ast.FuncLit); ok {
					body, key = fl.Body, fl
					break
				}
				if fd, ok := p.(*ast.FuncDecl); ok {
					body, key = fd.Body, fd
					break
				}
			}
			if body == nil {
				return nil
			}
			if g, ok := cfgs[key]; ok {
				return g
			}
			g := newCFG(info, body)
			cfgs[key] = g
			return g
		}
		ast.Inspect(fi.Decl.Body, func(n ast.Node) bool {
			call, ok := n.(*ast.CallExpr)
			if !ok {
				return true
			}
			tv, ok := info.Types[call]
			if !ok {
				return true
			}
			// position of the error in the result tuple
			errIdx, nres := -1, 1
			switch t := tv.Type.(type) {
			case *types.Tuple:
				nres = t.Len()
				for i := 0; i < t.Len(); i++ {
					if isErrorType(t.At(i).Type()) {
						errIdx = i
					}
				}
			default:
				if isErrorType(tv.Type) && !tv.IsType() {
					errIdx = 0
				}
			}
			if errIdx < 0 {
				return true
			}
			// conversions / error constructors are not "callee returns an error to be checked"
			fn := callee(info, call)
			if fn == nil {
				if _, isConv := info.Types[call.Fun]; isConv && info.Types[call.Fun].IsType() {
					return true
				}
			}
			if isPkgFunc(fn, "errors", "New") || isPkgFunc(fn, "fmt", "Errorf") {
				return true
			}
			ncalls++
			name := "?"
			if fn != nil {
				name = funcName(fn)
				if fn.Pkg() != nil && fn.Pkg() != pk.Types {
					name = fn.Pkg().Name() + "." + name
				}
			}
			c := "call@" + fi.Name() + " " + name
			switch p := par[call].(type) {
			case *ast.ReturnStmt:
				r.OK(c, call.Pos(), "result returned directly")
			case *ast.ExprStmt:
				r.Bad(c, call.Pos(), "the error returned by `%s` is discarded: damaged input would be accepted silently", src(r.P.Fset, call))
			case *ast.AssignStmt:
				if len(p.Rhs) != 1 || len(p.Lhs) != nres {
					r.Unknown(c, call.Pos(), "unrecognised assignment form `%s`", src(r.P.Fset, p))
					return true
				}
				lhs := p.Lhs[errIdx]
				if id, ok := lhs.(*ast.Ident); ok && id.Name == "_" {
					r.Bad(c, call.Pos(), "the error returned by `%s` is assigned to _: damaged input would be accepted silently", src(r.P.Fset, call))
					return true
				}
				if f := fieldOf(info, lhs); f != nil {
					r.OKTrivial(c, call.Pos(), "error stored in field %s (reported by Err/its reader)", f.Name())
					return true
				}
				eo := objOf(info, lhs)
				if eo == nil {
					r.Unknown(c, call.Pos(), "error assigned to `%s`", src(r.P.Fset, lhs))
					return true
				}
				g := cfgFor(call)
				if ok, why := errFlow(info, g, eo, p.Pos()); ok {
					r.OK(c, call.Pos(), "on every path the error in `%s` is tested, returned or forwarded before being overwritten", eo.Name())
				} else {
					r.Bad(c, call.Pos(), "error of `%s`: %s", src(r.P.Fset, call), why)
				}
			case *ast.ValueSpec:
				r.Unknown(c, call.Pos(), "error-returning call in a var declaration")
			default:
				// e.g. `return nil, f()` is handled above; call used as an argument
				if _, isRet := par[par[call]].(*ast.ReturnStmt); isRet {
					r.OK(c, call.Pos(), "result returned directly")
				} else if kv, isKV := par[call].(*ast.KeyValueExpr); isKV && kv.Value == call {
					r.OK(c, call.Pos(), "result forwarded in a composite literal")
				} else if be, isBin := par[call].(*ast.BinaryExpr); isBin && (be.Op == token.NEQ || be.Op == token.EQL) {
					r.OK(c, call.Pos(), "result compared with nil in place")
				} else {
					r.Unknown(c, call.Pos(), "error-returning call in an unrecognised context (%T)", par[call])
				}
			}
			return true
		})
		// protoscan message loops: for X.Next() { ... } must be followed by a use of X.Err() on the way out
		ast.Inspect(fi.Decl.Body, func(n ast.Node) bool {
			fs, ok := n.(*ast.ForStmt)
			if !ok || fs.Cond == nil {
				return true
			}
			call, ok := ast.Unparen(fs.Cond).(*ast.CallExpr)
			if !ok || !isMethod(callee(info, call), "github.com/paulmach/protoscan.Message", "Next") {
				return true
			}
			msgObj := rootObj(info, call.Fun.(*ast.SelectorExpr).X)
			c := "msgloop@" + fi.Name() + " " + msgObj.Name()
			g := cfgFor(fs)
			// from the loop's exit (for.done), every path must reach a call msg.Err() before leaving the function
			var done *cfg.Block
			for _, b := range g.Blocks {
				if b.Kind == cfg.KindForDone && b.Stmt == fs {
					done = b
				}
			}
			if done == nil {
				r.Unknown(c, fs.Pos(), "loop exit not found in the control-flow graph")
				return true
			}
			isErrCall := func(x ast.Node) bool {
				found := false
				ast.Inspect(x, func(y ast.Node) bool {
					if c2, ok := y.(*ast.CallExpr); ok && isMethod(callee(info, c2), "github.com/paulmach/protoscan.Message", "Err") {
						if rootObj(info, c2.Fun.(*ast.SelectorExpr).X) == msgObj {
							found = true
						}
					}
					return !found
				})
				return found
			}
			okAll := true
			seen := map[*cfg.Block]bool{done: true}
			work := []*cfg.Block{done}
			for len(work) > 0 && okAll {
				b := work[len(work)-1]
				work = work[:len(work)-1]
				hit := false
				for _, nd := range b.Nodes {
					if isErrCall(nd) {
						hit = true
						break
					}
					// re-initialising the message (msg.Reset / msg = ...) before looking at Err loses it
					if c2, ok := nd.(*ast.ExprStmt); ok {
						if ce, ok := c2.X.(*ast.CallExpr); ok && isMethod(callee(info, ce), "github.com/paulmach/protoscan.Message", "Reset") && rootObj(info, ce.Fun.(*ast.SelectorExpr).X) == msgObj {
							okAll = false
						}
					}
				}
				if hit {
					continue
				}
				if len(b.Succs) == 0 {
					okAll = false
				}
				for _, s := range b.Succs {
					if !seen[s] {
						seen[s] = true
						work = append(work, s)
					}
				}
			}
			if okAll {
				r.OK(c, fs.Pos(), "every path from the loop exit looks at %s.Err() before leaving the function or resetting the message", msgObj.Name())
			} else {
				r.Bad(c, fs.Pos(), "after `for %s.Next()` a path leaves (or resets the message) without looking at %s.Err(): a truncated or malformed message ends the loop early and is accepted silently", msgObj.Name(), msgObj.Name())
			}
			return true
		})
	}
	r.Stat("error_returning_calls", ncalls)
}

// ---------------------------------------------------------------- E2

// isEOFMapper reports whether fn is a function `func(err error) error` that returns io.ErrUnexpectedEOF when err == io.EOF and err otherwise.
func isEOFMapper(r *core.R, fn *types.Func) bool {
	pk := r.P.Pkg("osmpbf")
	if fn == nil || fn.Pkg() != pk.Types {
		return false
	}
	fi := findFunc(pk, funcName(fn))
	if fi == nil || len(fi.Decl.Body.List) != 2 {
		return false
	}
	info := pk.TypesInfo
	ifs, ok := fi.Decl.Body.List[0].(*ast.IfStmt)
	if !ok || len(ifs.Body.List) != 1 || ifs.Else != nil {
		return false
	}
	be, ok := ast.Unparen(ifs.Cond).(*ast.BinaryExpr)
	if !ok || be.Op != token.EQL || !isIOVar(info, be.Y, "EOF") {
		return false
	}
	sig := fn.Type().(*types.Signature)
	if sig.Params().Len() != 1 || objOf(info, be.X) != sig.Params().At(0) {
		return false
	}
	ret, ok := ifs.Body.List[0].(*ast.ReturnStmt)
	if !ok || len(ret.Results) != 1 || !isIOVar(info, ret.Results[0], "ErrUnexpectedEOF") {
		return false
	}
	ret2, ok := fi.Decl.Body.List[1].(*ast.ReturnStmt)
	return ok && len(ret2.Results) == 1 && objOf(info, ret2.Results[0]) == sig.Params().At(0)
}

func isIOVar(info *types.Info, e ast.Expr, name string) bool {
	sel, ok := ast.Unparen(e).(*ast.SelectorExpr)
	if !ok {
		return false
	}
	o := info.Uses[sel.Sel]
	return o != nil && o.Pkg() != nil && o.Pkg().Path() == "io" && o.Name() == name
}

func c06E2(r *core.R) {
	m := modelOrAnchor(r)
	if m == nil {
		return
	}
	info := m.info
	// the block reader: the function of the reader role that calls >= 2 functions reaching io.ReadFull
	var blockReader *FuncInfo
	for _, u := range m.sortedUnits() {
		fd, ok := u.node.(*ast.FuncDecl)
		if !ok || !u.roles["reader"] {
			continue
		}
		n := 0
		for _, fn := range u.calls {
			if tu := m.unitOfFunc(fn); tu != nil && m.unitCalls(tu, "io", "ReadFull") {
				n++
			}
		}
		if n >= 2 {
			blockReader = findFunc(m.pk, funcName(info.Defs[fd.Name].(*types.Func)))
		}
	}
	if blockReader == nil {
		r.Anchor("function that reads one file block through several io.ReadFull helpers")
		return
	}
	// order of the reading calls inside the block reader
	g := newCFG(info, blockReader.Decl.Body)
	dom := dominators(g)
	type rc struct {
		call *ast.CallExpr
		fn   *types.Func
	}
	var reads []rc
	ast.Inspect(blockReader.Decl.Body, func(n ast.Node) bool {
		if call, ok := n.(*ast.CallExpr); ok {
			if fn := callee(info, call); fn != nil && fn.Pkg() == m.pk.Types {
				if tu := m.unitOfFunc(fn); tu != nil && m.unitCalls(tu, "io", "ReadFull") {
					reads = append(reads, rc{call, fn})
				}
			}
		}
		return true
	})
	first := -1
	for i := range reads {
		all := true
		for j := range reads {
			if i != j && !posDominates(g, dom, reads[i].call.Pos(), reads[j].call.Pos()) {
				all = false
			}
		}
		if all {
			first = i
		}
	}
	if first < 0 {
		r.Unknown("first-read@"+blockReader.Name(), blockReader.Decl.Pos(), "no read call dominates all the others")
		return
	}
	for i, rd := range reads {
		fi := findFunc(m.pk, funcName(rd.fn))
		par := parentsOf(r.P, fi)
		ast.Inspect(fi.Decl.Body, func(n ast.Node) bool {
			call, ok := n.(*ast.CallExpr)
			if !ok || !isPkgFunc(callee(info, call), "io", "ReadFull") {
				return true
			}
			c := "readfull@" + fi.Name()
			if i == first {
				r.OK(c, call.Pos(), "first read of a block (its call dominates the other reads in %s): io.EOF here means the stream ended on a block boundary", blockReader.Name())
				return true
			}
			// the error must flow through an EOF mapper before being returned:
			// idiom: if _, err := io.ReadFull(..); err != nil { return ..., mapper(err) }
			as, _ := par[call].(*ast.AssignStmt)
			var eo types.Object
			if as != nil && len(as.Lhs) == 2 {
				eo = objOf(info, as.Lhs[1])
			}
			if eo == nil {
				r.Unknown(c, call.Pos(), "io.ReadFull result not assigned to (n, err)")
				return true
			}
			bad := ""
			nret := 0
			ast.Inspect(fi.Decl.Body, func(x ast.Node) bool {
				ret, ok := x.(*ast.ReturnStmt)
				if !ok || len(ret.Results) == 0 {
					return true
				}
				last := ret.Results[len(ret.Results)-1]
				if !usesObj(info, last, eo) {
					return true
				}
				nret++
				if c2, ok := ast.Unparen(last).(*ast.CallExpr); ok && isEOFMapper(r, callee(info, c2)) && len(c2.Args) == 1 && objOf(info, c2.Args[0]) == eo {
					return true
				}
				bad = src(r.P.Fset, ret)
				return true
			})
			// inline mapping: if err == io.EOF { err = io.ErrUnexpectedEOF } directly after — accept when present
			if bad != "" && inlineEOFMapping(info, fi.Decl.Body, eo) {
				bad = ""
			}
			switch {
			case nret == 0:
				r.Unknown(c, call.Pos(), "the read error is never returned")
			case bad != "":
				r.Bad(c, call.Pos(), "`%s` returns the error of a read in the middle of a block unchanged: when the stream is cut exactly before this read io.ReadFull yields io.EOF, which the scanner reports as a successful end", bad)
			default:
				r.OK(c, call.Pos(), "not the first read of a block: its error is returned through an io.EOF→io.ErrUnexpectedEOF mapping")
			}
			return true
		})
	}
}

func inlineEOFMapping(info *types.Info, body *ast.BlockStmt, eo types.Object) bool {
	found := false
	ast.Inspect(body, func(n ast.Node) bool {
		ifs, ok := n.(*ast.IfStmt)
		if !ok {
			return true
		}
		be, ok := ast.Unparen(ifs.Cond).(*ast.BinaryExpr)
		if !ok || be.Op != token.EQL || objOf(info, be.X) != eo || !isIOVar(info, be.Y, "EOF") || len(ifs.Body.List) != 1 {
			return true
		}
		if as, ok := ifs.Body.List[0].(*ast.AssignStmt); ok && len(as.Lhs) == 1 && objOf(info, as.Lhs[0]) == eo && isIOVar(info, as.Rhs[0], "ErrUnexpectedEOF") {
			found = true
		}
		return true
	})
	return found
}

// ---------------------------------------------------------------- E3

func c06E3(r *core.R) {
	m := modelOrAnchor(r)
	if m == nil {
		return
	}
	info := m.info
	// scratch buffers: locals of the spawner `make([]byte, K)` passed to the block reader
	type buf struct {
		obj types.Object
		k   int64
	}
	var bufs []buf
	ast.Inspect(m.start.Decl.Body, func(n ast.Node) bool {
		as, ok := n.(*ast.AssignStmt)
		if !ok || len(as.Lhs) != 1 || len(as.Rhs) != 1 {
			return true
		}
		call, ok := as.Rhs[0].(*ast.CallExpr)
		if !ok || builtinName(info, call) != "make" || len(call.Args) != 2 {
			return true
		}
		if sl, ok := info.TypeOf(call.Args[0]).Underlying().(*types.Slice); !ok || !types.Identical(sl.Elem(), types.Typ[types.Byte]) {
			return true
		}
		if k, ok := constInt(info, call.Args[1]); ok {
			bufs = append(bufs, buf{objOf(info, as.Lhs[0]), k})
		}
		return true
	})
	// the callee receiving them (same for all call sites) and the parameter each buffer binds to
	paramK := map[types.Object]int64{}
	var target *FuncInfo
	ast.Inspect(m.start.Decl.Body, func(n ast.Node) bool {
		call, ok := n.(*ast.CallExpr)
		if !ok {
			return true
		}
		fn := callee(info, call)
		if fn == nil || fn.Pkg() != m.pk.Types {
			return true
		}
		sig := fn.Type().(*types.Signature)
		for i, a := range call.Args {
			for _, b := range bufs {
				if objOf(info, a) == b.obj && i < sig.Params().Len() {
					fi := findFunc(m.pk, funcName(fn))
					if target != nil && target.Obj != fn {
						r.Unknown("scratch-buffer callee", call.Pos(), "scratch buffers are passed to more than one function")
					}
					target = fi
					// parameter object inside the declaration
					pi := 0
					for _, fld := range fi.Decl.Type.Params.List {
						for _, nm := range fld.Names {
							if pi == i {
								if old, ok := paramK[info.Defs[nm]]; ok && old != b.k {
									r.Unknown("scratch-buffer callee", call.Pos(), "parameter bound to buffers of different sizes")
								}
								paramK[info.Defs[nm]] = b.k
							}
							pi++
						}
					}
				}
			}
		}
		return true
	})
	if target == nil {
		r.Anchor("function receiving the reader's scratch buffers")
		return
	}
	// slice expressions param[:n]
	ast.Inspect(target.Decl.Body, func(n ast.Node) bool {
		se, ok := n.(*ast.SliceExpr)
		if !ok {
			return true
		}
		po := objOf(info, se.X)
		k, isBuf := paramK[po]
		if !isBuf {
			return true
		}
		c := "slice@" + target.Name() + " " + po.Name()
		if se.Low != nil || se.High == nil || se.Max != nil {
			r.Unknown(c, se.Pos(), "unrecognised slice form `%s`", src(r.P.Fset, se))
			return true
		}
		ok2, why := c06BoundProof(r, m, target, se.High, k)
		if ok2 {
			r.OK(c, se.Pos(), "`%s` with cap %d: %s", src(r.P.Fset, se), k, why)
		} else {
			r.Bad(c, se.Pos(), "`%s` (buffer of %d bytes): %s; a damaged size field makes the reader goroutine panic and the process crash", src(r.P.Fset, se), k, why)
		}
		return true
	})
}

// c06BoundProof proves 0 <= hi <= k where hi is either a local assigned from a call result, or a getter call on
// a local assigned from a call result; the proof obligations are discharged inside the callee: every success
// return is dominated by `v >= C → error` (C <= k) and, for signed v, `v < 0 → error`.
func c06BoundProof(r *core.R, m *pbfModel, fi *FuncInfo, hi ast.Expr, k int64) (bool, string) {
	info := m.info
	hi = ast.Unparen(hi)
	var local types.Object
	var getter *types.Func
	switch x := hi.(type) {
	case *ast.Ident:
		local = objOf(info, x)
	case *ast.CallExpr:
		getter = callee(info, x)
		if sel, ok := x.Fun.(*ast.SelectorExpr); ok && getter != nil && strings.HasPrefix(getter.Name(), "Get") && len(x.Args) == 0 {
			local = objOf(info, sel.X)
		}
	}
	if local == nil {
		return false, "bound `" + src(r.P.Fset, hi) + "` is not a local or a getter on a local"
	}
	// defining call
	var defCall *ast.CallExpr
	resIdx := -1
	ast.Inspect(fi.Decl.Body, func(n ast.Node) bool {
		as, ok := n.(*ast.AssignStmt)
		if !ok || len(as.Rhs) != 1 {
			return true
		}
		call, ok := as.Rhs[0].(*ast.CallExpr)
		if !ok {
			return true
		}
		for i, l := range as.Lhs {
			if objOf(info, l) == local && as.Pos() < hi.Pos() {
				defCall, resIdx = call, i
			}
		}
		return true
	})
	if defCall == nil {
		return false, "the bound's value does not come from a call in this function"
	}
	fn := callee(info, defCall)
	cf := findFunc(m.pk, funcName(fn))
	if fn == nil || cf == nil || fn.Pkg() != m.pk.Types {
		return false, "the bound comes from a function outside the package"
	}
	// in callee: success returns (last result nil) and the expression returned at resIdx
	g := newCFG(info, cf.Decl.Body)
	dom := dominators(g)
	nret := 0
	var fail string
	var proof string
	ast.Inspect(cf.Decl.Body, func(n ast.Node) bool {
		ret, ok := n.(*ast.ReturnStmt)
		if !ok || len(ret.Results) <= resIdx {
			return true
		}
		if id, ok := ast.Unparen(ret.Results[len(ret.Results)-1]).(*ast.Ident); !ok || id.Name != "nil" {
			return true // error return
		}
		nret++
		rv := objOf(info, ret.Results[resIdx])
		if rv == nil {
			fail = "success return value is not a variable"
			return true
		}
		// value expression the guards must speak about
		isVal := func(e ast.Expr) bool {
			e = ast.Unparen(e)
			if getter == nil {
				return objOf(info, e) == rv
			}
			c, ok := e.(*ast.CallExpr)
			if !ok || callee(info, c) != getter {
				return false
			}
			sel, ok := c.Fun.(*ast.SelectorExpr)
			return ok && objOf(info, sel.X) == rv
		}
		var vt types.Type
		if getter == nil {
			vt = rv.Type()
		} else {
			vt = getter.Type().(*types.Signature).Results().At(0).Type()
		}
		signed := true
		if bt, ok := vt.Underlying().(*types.Basic); ok && bt.Info()&types.IsUnsigned != 0 {
			signed = false
		}
		upper, lower := false, !signed
		rb, _ := blockOf(g, ret.Pos())
		for _, b := range g.Blocks {
			if !b.Live || len(b.Succs) != 2 || b == rb || !dom[rb][b] {
				continue
			}
			cond := lastExpr(b)
			if cond == nil {
				continue
			}
			tr := reachableFrom([]*cfg.Block{b.Succs[0]}, nil)
			if tr[rb] {
				continue
			}
			// disjuncts of the condition
			var disj []ast.Expr
			var split func(e ast.Expr)
			split = func(e ast.Expr) {
				e = ast.Unparen(e)
				if be, ok := e.(*ast.BinaryExpr); ok && be.Op == token.LOR {
					split(be.X)
					split(be.Y)
					return
				}
				disj = append(disj, e)
			}
			split(cond)
			for _, d := range disj {
				be, ok := d.(*ast.BinaryExpr)
				if !ok {
					continue
				}
				if cv, okc := constInt(info, be.Y); okc && isVal(be.X) {
					switch be.Op {
					case token.GEQ:
						if cv <= k+0 && cv-1 <= k {
							upper = true
							proof = fmt.Sprintf("%s: `%s` (limit %d <= %d) returns an error", cf.Name(), src(r.P.Fset, d), cv, k)
						}
					case token.GTR:
						if cv <= k {
							upper = true
							proof = fmt.Sprintf("%s: `%s` returns an error", cf.Name(), src(r.P.Fset, d))
						}
					case token.LSS:
						if cv <= 0 {
							lower = true
						}
					}
				}
			}
		}
		if !upper {
			fail = fmt.Sprintf("in %s no dominating test bounds the value by a constant <= the buffer size %d before it is returned", cf.Name(), k)
		} else if !lower {
			fail = fmt.Sprintf("the value is a signed %s and %s has no `< 0` test before returning it: a negative size slices the buffer with a negative bound", vt.String(), cf.Name())
		}
		return true
	})
	if nret == 0 {
		return false, "no success return found in " + cf.Name()
	}
	if fail != "" {
		return false, fail
	}
	// the local must not be reassigned between the call and the slice
	if countAssignsTo(info, fi.Decl.Body, local, defCall.End(), hi.Pos()) > 0 {
		return false, "the bound is reassigned between the checked call and the slice"
	}
	return true, proof
}

// ---------------------------------------------------------------- E4

func c06E4(r *core.R) {
	pk := r.P.Pkg("osmpbf")
	info := pk.TypesInfo
	// getData: the function with a switch over Blob encodings: found as the function whose body tests blob.Raw / blob.ZlibData
	var fi *FuncInfo
	for _, f := range allFuncs(pk) {
		if isGenerated(r.P, f.Decl.Pos()) {
			continue
		}
		n := 0
		ast.Inspect(f.Decl.Body, func(x ast.Node) bool {
			if fld := fieldOf(info, nodeExpr(x)); fld != nil && (fld.Name() == "Raw" || fld.Name() == "ZlibData") && namedPath(selRecv(info, x)) == core.ModulePath+"/osmpbf/internal/osmpbf.Blob" {
				n++
			}
			return true
		})
		if n >= 2 {
			fi = f
		}
	}
	if fi == nil {
		r.Anchor("function dispatching on the blob encoding (Raw / ZlibData)")
		return
	}
	var sw *ast.SwitchStmt
	ast.Inspect(fi.Decl.Body, func(n ast.Node) bool {
		if s, ok := n.(*ast.SwitchStmt); ok && sw == nil {
			sw = s
		}
		return true
	})
	if sw == nil {
		r.Unknown("encoding-switch@"+fi.Name(), fi.Decl.Pos(), "no switch statement over the blob encodings")
		return
	}
	var def *ast.CaseClause
	for _, c := range sw.Body.List {
		cc := c.(*ast.CaseClause)
		if cc.List == nil {
			def = cc
		}
	}
	c := "encoding-switch@" + fi.Name() + " default"
	if def == nil {
		r.Bad(c, sw.Pos(), "no default branch: a blob in an unknown encoding falls through")
	} else {
		ok := false
		if len(def.Body) > 0 {
			if ret, isRet := def.Body[len(def.Body)-1].(*ast.ReturnStmt); isRet && len(ret.Results) == 2 {
				if id, isId := ast.Unparen(ret.Results[1]).(*ast.Ident); !isId || id.Name != "nil" {
					ok = true
				}
			}
		}
		r.Check(ok, c, def.Pos(), "unknown encodings return a non-nil error", "the default branch does not return an error: a blob in an unsupported encoding is decoded as an empty block (silent success)")
	}
	// zlib path: returns of X.Bytes() dominated by a `!=` test mentioning GetRawSize whose true edge errors
	g := newCFG(info, fi.Decl.Body)
	dom := dominators(g)
	n := 0
	ast.Inspect(fi.Decl.Body, func(x ast.Node) bool {
		ret, ok := x.(*ast.ReturnStmt)
		if !ok || len(ret.Results) != 2 {
			return true
		}
		call, ok := ast.Unparen(ret.Results[0]).(*ast.CallExpr)
		if !ok || !isMethod(callee(info, call), "bytes.Buffer", "Bytes") {
			return true
		}
		n++
		cc := "raw_size@" + fi.Name()
		rb, _ := blockOf(g, ret.Pos())
		proved := false
		for _, b := range g.Blocks {
			if !b.Live || len(b.Succs) != 2 || !dom[rb][b] || b == rb {
				continue
			}
			be, ok := ast.Unparen(lastExpr(b)).(*ast.BinaryExpr)
			if !ok || be.Op != token.NEQ {
				continue
			}
			mentionsRaw, mentionsLen := false, false
			ast.Inspect(be, func(y ast.Node) bool {
				if c2, ok := y.(*ast.CallExpr); ok {
					if fn := callee(info, c2); fn != nil {
						if fn.Name() == "GetRawSize" {
							mentionsRaw = true
						}
						if isMethod(fn, "bytes.Buffer", "Len") {
							mentionsLen = true
						}
					}
					if builtinName(info, c2) == "len" {
						mentionsLen = true
					}
				}
				return true
			})
			tr := reachableFrom([]*cfg.Block{b.Succs[0]}, nil)
			if mentionsRaw && mentionsLen && !tr[rb] {
				proved = true
			}
		}
		r.Check(proved, cc, ret.Pos(), "the decompressed length is compared with raw_size before the data is returned; a mismatch returns an error",
			"decompressed data is returned without comparing its length with the blob's raw_size: a truncated or corrupt compressed blob is decoded as if complete")
		return true
	})
	if n == 0 {
		r.Anchor("return of the decompressed buffer in " + fi.Name())
	}
}

func nodeExpr(n ast.Node) ast.Expr {
	e, _ := n.(ast.Expr)
	if e == nil {
		return &ast.BadExpr{}
	}
	return e
}

func selRecv(info *types.Info, n ast.Node) types.Type {
	sel, ok := n.(*ast.SelectorExpr)
	if !ok {
		return nil
	}
	if s := info.Selections[sel]; s != nil {
		return s.Recv()
	}
	return nil
}

// ---------------------------------------------------------------- E5

func c06E5(r *core.R) {
	m := modelOrAnchor(r)
	if m == nil {
		return
	}
	info := m.info
	// (a) header decoding: function returning (*Header, error)
	var hdr *FuncInfo
	for _, f := range allFuncs(m.pk) {
		sig := f.Obj.Type().(*types.Signature)
		if sig.Results().Len() == 2 && namedPath(sig.Results().At(0).Type()) == core.ModulePath+"/osmpbf.Header" && sig.Recv() == nil {
			hdr = f
		}
	}
	if hdr == nil {
		r.Anchor("function decoding the header block into *Header")
	} else {
		c := "required-features gate@" + hdr.Name()
		g := newCFG(info, hdr.Decl.Body)
		dom := dominators(g)
		// the gate: a range loop over required features whose body returns an error under a negative capability lookup
		var gate *ast.RangeStmt
		ast.Inspect(hdr.Decl.Body, func(n ast.Node) bool {
			rs, ok := n.(*ast.RangeStmt)
			if !ok || rs.Value == nil {
				return true
			}
			// X derives from GetRequiredFeatures()
			fromReq := false
			check := func(e ast.Expr) {
				ast.Inspect(e, func(y ast.Node) bool {
					if c2, ok := y.(*ast.CallExpr); ok {
						if fn := callee(info, c2); fn != nil && fn.Name() == "GetRequiredFeatures" {
							fromReq = true
						}
					}
					return true
				})
			}
			check(rs.X)
			if o := objOf(info, rs.X); o != nil {
				ast.Inspect(hdr.Decl.Body, func(y ast.Node) bool {
					if as, ok := y.(*ast.AssignStmt); ok && len(as.Lhs) == 1 && objOf(info, as.Lhs[0]) == o {
						check(as.Rhs[0])
					}
					return true
				})
			}
			if !fromReq {
				return true
			}
			v := objOf(info, rs.Value)
			// body: if !table[v] { return nil, err }
			for _, st := range rs.Body.List {
				ifs, ok := st.(*ast.IfStmt)
				if !ok {
					continue
				}
				ue, ok := ast.Unparen(ifs.Cond).(*ast.UnaryExpr)
				if !ok || ue.Op != token.NOT {
					continue
				}
				ix, ok := ast.Unparen(ue.X).(*ast.IndexExpr)
				if !ok || objOf(info, ix.Index) != v {
					continue
				}
				if _, isMap := info.TypeOf(ix.X).Underlying().(*types.Map); !isMap {
					continue
				}
				if len(ifs.Body.List) > 0 {
					if ret, ok := ifs.Body.List[len(ifs.Body.List)-1].(*ast.ReturnStmt); ok && len(ret.Results) == 2 {
						if id, isId := ast.Unparen(ret.Results[1]).(*ast.Ident); !isId || id.Name != "nil" {
							gate = rs
						}
					}
				}
			}
			return true
		})
		if gate == nil {
			r.Bad(c, hdr.Decl.Pos(), "no loop over the header's required_features that returns an error for a feature the parser does not support: files needing unsupported features are decoded anyway")
		} else {
			// every success return is dominated by the loop's exit
			var done *cfg.Block
			for _, b := range g.Blocks {
				if b.Kind == cfg.KindRangeDone && b.Stmt == gate {
					done = b
				}
			}
			okAll, n := true, 0
			ast.Inspect(hdr.Decl.Body, func(x ast.Node) bool {
				ret, ok := x.(*ast.ReturnStmt)
				if !ok || len(ret.Results) != 2 {
					return true
				}
				if id, ok := ast.Unparen(ret.Results[1]).(*ast.Ident); !ok || id.Name != "nil" {
					return true
				}
				n++
				rb, _ := blockOf(g, ret.Pos())
				if done == nil || !(rb == done || dom[rb][done]) {
					okAll = false
				}
				return true
			})
			r.Check(okAll && n > 0, c, gate.Pos(), "every success return is dominated by the exit of the required-features loop, whose body returns an error for an unknown feature",
				"a success return is reachable without passing the required-features loop")
		}
	}
	// (b) reader loop: unexpected block type
	rd := m.goOf("reader")
	if rd == nil {
		r.Anchor("reader goroutine")
		return
	}
	c := "block type@" + m.units[rd.lit].name
	var loop *ast.ForStmt
	ast.Inspect(rd.lit.Body, func(n ast.Node) bool {
		if fs, ok := n.(*ast.ForStmt); ok && loop == nil {
			loop = fs
		}
		return true
	})
	if loop == nil {
		r.Anchor("reader loop")
		return
	}
	// 1. the type test
	var errObj types.Object
	var typeTest *ast.IfStmt
	ast.Inspect(loop.Body, func(n ast.Node) bool {
		ifs, ok := n.(*ast.IfStmt)
		if !ok {
			return true
		}
		found := false
		ast.Inspect(ifs.Cond, func(y ast.Node) bool {
			be, ok := y.(*ast.BinaryExpr)
			if !ok || be.Op != token.NEQ {
				return true
			}
			call, ok := ast.Unparen(be.X).(*ast.CallExpr)
			if !ok {
				return true
			}
			if fn := callee(info, call); fn == nil || fn.Name() != "GetType" {
				return true
			}
			if s, ok := constString(info, be.Y); ok && s == "OSMData" {
				found = true
			}
			return true
		})
		if !found {
			return true
		}
		// body assigns a fresh error to a variable
		for _, st := range ifs.Body.List {
			if as, ok := st.(*ast.AssignStmt); ok && len(as.Lhs) == 1 && len(as.Rhs) == 1 && isErrorType(info.TypeOf(as.Lhs[0])) {
				if call, ok := as.Rhs[0].(*ast.CallExpr); ok {
					if fn := callee(info, call); isPkgFunc(fn, "fmt", "Errorf") || isPkgFunc(fn, "errors", "New") {
						errObj = objOf(info, as.Lhs[0])
						typeTest = ifs
					}
				}
			}
		}
		return true
	})
	if typeTest == nil {
		r.Bad(c, loop.Pos(), "the reader loop has no test `GetType() != \"OSMData\"` that turns an unexpected block into an error: blocks of other types are decoded as data or skipped silently")
		return
	}
	// 2. the pair sent in this iteration carries errObj when it is non-nil and carries data only otherwise
	var sent types.Object
	var send *ast.SendStmt
	ast.Inspect(loop.Body, func(n ast.Node) bool {
		if s, ok := n.(*ast.SendStmt); ok {
			send = s
			sent = objOf(info, s.Value)
		}
		return true
	})
	if sent == nil {
		r.Unknown(c, typeTest.Pos(), "the value sent to the workers is not a local variable")
		return
	}
	okErrPair, okDataFirst := false, false
	var dataPos, errPos token.Pos
	ast.Inspect(loop.Body, func(n ast.Node) bool {
		as, ok := n.(*ast.AssignStmt)
		if !ok || len(as.Lhs) != 1 || objOf(info, as.Lhs[0]) != sent {
			return true
		}
		cl, ok := as.Rhs[0].(*ast.CompositeLit)
		if !ok {
			return true
		}
		hasErr := false
		for _, e := range cl.Elts {
			if kv, ok := e.(*ast.KeyValueExpr); ok {
				if id, ok := kv.Key.(*ast.Ident); ok && id.Name == "Err" && objOf(info, kv.Value) == errObj {
					hasErr = true
				}
			}
		}
		if hasErr {
			// must be under `if errObj != nil`
			par := parentsOf(r.P, m.start)
			if ifs, ok := par[par[as]].(*ast.IfStmt); ok {
				if be, ok := ast.Unparen(ifs.Cond).(*ast.BinaryExpr); ok && be.Op == token.NEQ && objOf(info, be.X) == errObj {
					okErrPair = true
					errPos = as.Pos()
				}
			}
		} else {
			dataPos = as.Pos()
		}
		return true
	})
	okDataFirst = dataPos.IsValid() && errPos.IsValid() && dataPos < errPos && typeTest.Pos() < errPos && errPos < send.Pos()
	if okErrPair && okDataFirst {
		r.OK(c, typeTest.Pos(), "a block whose type is not OSMData sets %s; the pair sent in the same iteration is replaced by {Err: %s} whenever %s != nil", errObj.Name(), errObj.Name(), errObj.Name())
	} else {
		r.Bad(c, typeTest.Pos(), "the error produced for an unexpected block type does not reach the pair sent in that iteration (error pair under `%s != nil`: %v, ordered type-test < error pair < send: %v)", errObj.Name(), okErrPair, okDataFirst)
	}
}

// ---------------------------------------------------------------- E6

func c06E6(r *core.R) {
	m := modelOrAnchor(r)
	if m == nil {
		return
	}
	info := m.info
	// scope: declared functions reachable from the goroutine roles (worker, reader) and header decoding (consumer via spawner)
	n := 0
	for _, u := range m.sortedUnits() {
		fd, ok := u.node.(*ast.FuncDecl)
		if !ok || isGenerated(r.P, fd.Pos()) {
			continue
		}
		if !(u.roles["worker"] || u.roles["reader"] || u.roles["serializer"] || m.reachedFromSpawner(u)) {
			continue
		}
		if fd == m.start.Decl {
			continue // the spawner's own indexing (dec.inputs[i] ...) belongs to C02.Q1; scratch buffers to E3
		}
		fi := u.fi
		var g *cfg.CFG
		var dom map[*cfg.Block]map[*cfg.Block]bool
		lazy := func() {
			if g == nil {
				g = newCFG(info, fd.Body)
				dom = dominators(g)
			}
		}
		par := parentsOf(r.P, fi)
		ast.Inspect(fd.Body, func(x ast.Node) bool {
			switch e := x.(type) {
			case *ast.IndexExpr:
				t := info.TypeOf(e.X)
				if t == nil {
					return true
				}
				switch t.Underlying().(type) {
				case *types.Slice, *types.Basic, *types.Array, *types.Pointer:
				default:
					return true // maps, generics
				}
				if tv, ok := info.Types[e.X]; ok && tv.IsType() {
					return true
				}
				n++
				lazy()
				c := "index@" + fi.Name() + " " + src(r.P.Fset, e)
				if ok, why := c06IndexProof(r, info, fi, g, dom, par, e); ok {
					r.OK(c, e.Pos(), "%s", why)
				} else {
					r.Bad(c, e.Pos(), "%s: an out-of-range reference in a damaged block makes this goroutine panic, which kills the calling process", why)
				}
			case *ast.SliceExpr:
				// scratch-buffer slices are E3
				if _, isParamBuf := ast.Unparen(e.X).(*ast.Ident); isParamBuf && e.High != nil {
					if _, okc := constInt(info, e.High); !okc {
						if types.Identical(info.TypeOf(e.X), types.NewSlice(types.Typ[types.Byte])) {
							return true
						}
					}
				}
				n++
				c := "slice@" + fi.Name() + " " + src(r.P.Fset, e)
				hi0 := e.High != nil
				if hi0 {
					v, okc := constInt(info, e.High)
					hi0 = okc && v == 0
				}
				if e.Low == nil && hi0 && e.Max == nil {
					r.OKTrivial(c, e.Pos(), "x[:0] is always in range")
				} else {
					r.Bad(c, e.Pos(), "slice expression with non-constant bounds has no proof in the idiom list")
				}
			case *ast.StarExpr:
				// explicit dereference of an optional message field
				f := fieldOf(info, e.X)
				if f == nil || !strings.HasSuffix(r.P.Fset.Position(f.Pos()).Filename, ".pb.go") {
					return true
				}
				if _, isPtr := f.Type().(*types.Pointer); !isPtr {
					return true
				}
				n++
				lazy()
				c := "deref@" + fi.Name() + " " + src(r.P.Fset, e)
				if tag := fieldTag(f); strings.Contains(tag, ",req,") {
					// the containing message must itself be known non-nil: guarded or required
					r.OK(c, e.Pos(), "field %s is `required` in the descriptor (proto.Unmarshal rejects messages without it); enclosing message: %s", f.Name(), c06NilGuard(info, g, dom, e, ast.Unparen(e.X).(*ast.SelectorExpr).X))
					if !strings.HasPrefix(c06NilGuard(info, g, dom, e, ast.Unparen(e.X).(*ast.SelectorExpr).X), "guarded") {
						r.Bad(c+" parent", e.Pos(), "the message holding the required field is itself optional and not nil-tested")
					}
				} else if w := c06NilGuard(info, g, dom, e, e.X); strings.HasPrefix(w, "guarded") {
					r.OK(c, e.Pos(), "optional field: %s", w)
				} else {
					r.Bad(c, e.Pos(), "optional field %s is dereferenced without a dominating nil test: a header without it crashes the process", f.Name())
				}
			}
			return true
		})
	}
	r.Stat("index_slice_deref_sites", n)
}

// reachedFromSpawner: unit is called (transitively) from the spawner's own body.
func (m *pbfModel) reachedFromSpawner(u *unit) bool {
	su := m.units[m.start.Decl]
	if u == su {
		return true
	}
	return m.unitReaches(su, func(x *unit) bool { return x == u })
}

func fieldTag(f *types.Var) string {
	// find the struct that declares f
	if f.Pkg() == nil {
		return ""
	}
	sc := f.Pkg().Scope()
	for _, n := range sc.Names() {
		tn, ok := sc.Lookup(n).(*types.TypeName)
		if !ok {
			continue
		}
		st, ok := tn.Type().Underlying().(*types.Struct)
		if !ok {
			continue
		}
		for i := 0; i < st.NumFields(); i++ {
			if st.Field(i) == f {
				return reflect.StructTag(st.Tag(i)).Get("protobuf") + ","
			}
		}
	}
	return ""
}

// c06NilGuard: is the use dominated by the true edge of `target != nil`?
func c06NilGuard(info *types.Info, g *cfg.CFG, dom map[*cfg.Block]map[*cfg.Block]bool, use ast.Node, target ast.Expr) string {
	ub, _ := blockOf(g, use.Pos())
	if ub == nil {
		return "use not found"
	}
	for _, b := range g.Blocks {
		if !b.Live || len(b.Succs) != 2 || b == ub || !dom[ub][b] {
			continue
		}
		be, ok := ast.Unparen(lastExpr(b)).(*ast.BinaryExpr)
		if !ok || be.Op != token.NEQ {
			continue
		}
		if id, ok := ast.Unparen(be.Y).(*ast.Ident); !ok || id.Name != "nil" {
			continue
		}
		if !sameExpr(info, be.X, target) {
			continue
		}
		// use only reachable through the true edge
		fl := reachableFrom([]*cfg.Block{b.Succs[1]}, func(x *cfg.Block) bool { return x == b })
		if !fl[ub] {
			return "guarded by `" + types.ExprString(be) + "`"
		}
	}
	return "unguarded"
}

// c06IndexProof looks for a proof from the idiom list that e.Index is within e.X.
func c06IndexProof(r *core.R, info *types.Info, fi *FuncInfo, g *cfg.CFG, dom map[*cfg.Block]map[*cfg.Block]bool, par map[ast.Node]ast.Node, e *ast.IndexExpr) (bool, string) {
	// (a) constant index into a fixed-size array
	if at, ok := info.TypeOf(e.X).Underlying().(*types.Array); ok {
		if v, okc := constInt(info, e.Index); okc && v >= 0 && v < at.Len() {
			return true, "constant index into a fixed-length array"
		}
	}
	idxObj := objOf(info, e.Index)
	// (b) range key over the same value
	for p := par[e]; p != nil; p = par[p] {
		if rs, ok := p.(*ast.RangeStmt); ok && rs.Key != nil && idxObj != nil && objOf(info, rs.Key) == idxObj && sameExpr(info, rs.X, e.X) {
			return true, "index is the key of `range " + src(r.P.Fset, rs.X) + "`"
		}
		// (c) for i := A; i < len(x); i++
		if fs, ok := p.(*ast.ForStmt); ok && fs.Cond != nil && idxObj != nil {
			if be, ok := ast.Unparen(fs.Cond).(*ast.BinaryExpr); ok && be.Op == token.LSS && objOf(info, be.X) == idxObj {
				if la := lenCallArg(info, be.Y); la != nil && sameExpr(info, la, e.X) {
					if post, ok := fs.Post.(*ast.IncDecStmt); ok && post.Tok == token.INC && objOf(info, post.X) == idxObj &&
						countAssignsTo(info, fs.Body, idxObj, fs.Body.Pos(), fs.Body.End()) == 0 && c06NonNegInit(info, fs.Init) {
						return true, "loop counter bounded by `" + src(r.P.Fset, fs.Cond) + "`"
					}
				}
			}
		}
	}
	ub, _ := blockOf(g, e.Pos())
	if ub == nil {
		return false, "use not located in the control-flow graph"
	}
	// (d) dominating guard `i >= len(x)` (optionally `i < 0 ||`) with an exit edge
	nonNeg := false
	if bt, ok := info.TypeOf(e.Index).Underlying().(*types.Basic); ok && bt.Info()&types.IsUnsigned != 0 {
		nonNeg = true
	}
	if idxObj != nil && c06IsCounter(info, fi, idxObj) {
		nonNeg = true
	}
	for _, b := range g.Blocks {
		if !b.Live || len(b.Succs) != 2 || b == ub || !dom[ub][b] {
			continue
		}
		cond := lastExpr(b)
		if cond == nil {
			continue
		}
		var disj []ast.Expr
		var split func(x ast.Expr)
		split = func(x ast.Expr) {
			x = ast.Unparen(x)
			if be, ok := x.(*ast.BinaryExpr); ok && be.Op == token.LOR {
				split(be.X)
				split(be.Y)
				return
			}
			disj = append(disj, x)
		}
		split(cond)
		upper, lower := false, nonNeg
		for _, d := range disj {
			be, ok := d.(*ast.BinaryExpr)
			if !ok {
				continue
			}
			switch be.Op {
			case token.GEQ:
				if sameExpr(info, stripConv(info, be.X), stripConv(info, e.Index)) {
					if la := lenCallArg(info, stripConv(info, be.Y)); la != nil && sameExpr(info, la, e.X) {
						upper = true
					}
				}
			case token.LEQ:
				if sameExpr(info, stripConv(info, be.Y), stripConv(info, e.Index)) {
					if la := lenCallArg(info, stripConv(info, be.X)); la != nil && sameExpr(info, la, e.X) {
						upper = true
					}
				}
			case token.LSS:
				if v, okc := constInt(info, be.Y); okc && v == 0 && sameExpr(info, stripConv(info, be.X), stripConv(info, e.Index)) {
					lower = true
				}
			}
		}
		if !upper {
			continue
		}
		tr := reachableFrom([]*cfg.Block{b.Succs[0]}, func(x *cfg.Block) bool { return x == b })
		if tr[ub] {
			continue
		}
		if !lower {
			return false, "guard `" + src(r.P.Fset, cond) + "` bounds the index above, but the index is signed and can be negative (no `< 0` test, not a counter)"
		}
		if idxObj != nil && countAssignsTo(info, fi.Decl.Body, idxObj, cond.End(), e.Pos()) > 0 {
			continue
		}
		if ro := rootObj(info, e.X); ro != nil && countAssignsTo(info, fi.Decl.Body, ro, cond.End(), e.Pos()) > 0 {
			continue
		}
		return true, "dominated by `" + src(r.P.Fset, cond) + "`, whose true edge leaves without reaching the use"
	}
	// (e) counter into a buffer sized by Count of the iterator that is read once per increment
	if idxObj != nil {
		if ok, why := c06CountAxiom(r, info, fi, par, e, idxObj); ok {
			return true, why
		}
	}
	return false, "`" + src(r.P.Fset, e) + "` has no bounds proof (no constant/range/loop-counter form, no dominating `" + src(r.P.Fset, e.Index) + " >= len(" + src(r.P.Fset, e.X) + ")` guard with an error exit, not a counter into a buffer sized by Count of the iterator driving the loop)"
}

func stripConv(info *types.Info, e ast.Expr) ast.Expr {
	e = ast.Unparen(e)
	if call, ok := e.(*ast.CallExpr); ok && len(call.Args) == 1 {
		if tv, ok := info.Types[call.Fun]; ok && tv.IsType() {
			if bt, ok := tv.Type.Underlying().(*types.Basic); ok && bt.Info()&types.IsInteger != 0 {
				return stripConv(info, call.Args[0])
			}
		}
	}
	return e
}

func c06NonNegInit(info *types.Info, init ast.Stmt) bool {
	as, ok := init.(*ast.AssignStmt)
	if !ok || len(as.Rhs) != 1 {
		return false
	}
	if v, okc := constInt(info, as.Rhs[0]); okc {
		return v >= 0
	}
	// i := x.Index where Index is a byte offset maintained by the library (non-negative int): accept selector of int field `Index`
	if f := fieldOf(info, as.Rhs[0]); f != nil && f.Name() == "Index" {
		return true
	}
	return false
}

// c06IsCounter: variable is declared zero (var / := 0) and only ever modified by `++`.
func c06IsCounter(info *types.Info, fi *FuncInfo, o types.Object) bool {
	okDecl := false
	bad := false
	ast.Inspect(fi.Decl.Body, func(n ast.Node) bool {
		switch s := n.(type) {
		case *ast.ValueSpec:
			for i, nm := range s.Names {
				if info.Defs[nm] == o {
					if len(s.Values) == 0 {
						okDecl = true
					} else if v, okc := constInt(info, s.Values[i]); okc && v == 0 {
						okDecl = true
					}
				}
			}
		case *ast.AssignStmt:
			for i, l := range s.Lhs {
				if id, ok := l.(*ast.Ident); ok && (info.Defs[id] == o || info.Uses[id] == o) {
					if s.Tok == token.DEFINE && i < len(s.Rhs) {
						if v, okc := constInt(info, s.Rhs[i]); okc && v == 0 {
							okDecl = true
							continue
						}
					}
					bad = true
				}
			}
		case *ast.IncDecStmt:
			if objOf(info, s.X) == o && s.Tok != token.INC {
				bad = true
			}
		case *ast.UnaryExpr:
			if s.Op == token.AND && objOf(info, s.X) == o {
				bad = true
			}
		}
		return true
	})
	return okDecl && !bad
}

// c06CountAxiom: x := make(T, it.Count(W)); for it.HasNext() { v, err := it.Read(); if err != nil {return}; ... x[idx] ...; idx++ }
func c06CountAxiom(r *core.R, info *types.Info, fi *FuncInfo, par map[ast.Node]ast.Node, e *ast.IndexExpr, idx types.Object) (bool, string) {
	xo := objOf(info, e.X)
	if xo == nil || !c06IsCounter(info, fi, idx) {
		return false, ""
	}
	// single definition of x: make(T, IT.Count(...))
	var itExpr ast.Expr
	ndef := 0
	ast.Inspect(fi.Decl.Body, func(n ast.Node) bool {
		as, ok := n.(*ast.AssignStmt)
		if !ok {
			return true
		}
		for i, l := range as.Lhs {
			if objOf(info, l) != xo {
				continue
			}
			ndef++
			if i < len(as.Rhs) {
				if call, ok := as.Rhs[i].(*ast.CallExpr); ok && builtinName(info, call) == "make" && len(call.Args) == 2 {
					if c2, ok := ast.Unparen(call.Args[1]).(*ast.CallExpr); ok && isMethod(callee(info, c2), "github.com/paulmach/protoscan.Iterator", "Count") {
						itExpr = c2.Fun.(*ast.SelectorExpr).X
					}
				}
			}
		}
		return true
	})
	if ndef != 1 || itExpr == nil {
		return false, ""
	}
	// enclosing loop: for IT.HasNext()
	var loop *ast.ForStmt
	for p := par[e]; p != nil; p = par[p] {
		if fs, ok := p.(*ast.ForStmt); ok {
			loop = fs
			break
		}
	}
	if loop == nil || loop.Cond == nil {
		return false, ""
	}
	hc, ok := ast.Unparen(loop.Cond).(*ast.CallExpr)
	if !ok || !isMethod(callee(info, hc), "github.com/paulmach/protoscan.Iterator", "HasNext") || !sameExpr(info, hc.Fun.(*ast.SelectorExpr).X, itExpr) {
		return false, ""
	}
	// in the loop body, before the use: a read of IT whose error returns; exactly one idx++ at top level of the body, after the use
	readOK := false
	for _, st := range loop.Body.List {
		if st.Pos() > e.Pos() {
			break
		}
		as, ok := st.(*ast.AssignStmt)
		if !ok || len(as.Rhs) != 1 {
			continue
		}
		call, ok := as.Rhs[0].(*ast.CallExpr)
		if !ok {
			continue
		}
		sel, ok := call.Fun.(*ast.SelectorExpr)
		if !ok || !sameExpr(info, sel.X, itExpr) {
			continue
		}
		if errReturnedAfter(info, par, call) {
			readOK = true
		}
	}
	incs := 0
	for _, st := range loop.Body.List {
		if ids, ok := st.(*ast.IncDecStmt); ok && objOf(info, ids.X) == idx && ids.Tok == token.INC && st.Pos() > e.Pos() {
			incs++
		}
	}
	nestedInc := 0
	ast.Inspect(loop.Body, func(n ast.Node) bool {
		if ids, ok := n.(*ast.IncDecStmt); ok && objOf(info, ids.X) == idx {
			nestedInc++
		}
		return true
	})
	if readOK && incs == 1 && nestedInc == 1 {
		return true, "counter `" + idx.Name() + "` into `" + xo.Name() + " = make(_, " + src(r.P.Fset, itExpr) + ".Count(...))`, advanced once per successful read of the same iterator (Count axiom)"
	}
	return false, ""
}

// ---------------------------------------------------------------- E7

func c06E7(r *core.R) {
	m := modelOrAnchor(r)
	if m == nil {
		return
	}
	info := m.info
	for _, u := range m.sortedUnits() {
		if !(u.roles["worker"] || u.roles["reader"] || u.roles["serializer"]) {
			continue
		}
		if fd, ok := u.node.(*ast.FuncDecl); ok && isGenerated(r.P, fd.Pos()) {
			continue
		}
		c := "unit@" + u.name
		bad := ""
		var bpos token.Pos
		m.walkUnit(u, func(n ast.Node) bool {
			switch x := n.(type) {
			case *ast.CallExpr:
				if builtinName(info, x) == "panic" {
					bad, bpos = "calls panic: `"+src(r.P.Fset, x)+"`", x.Pos()
				}
			case *ast.TypeAssertExpr:
				if x.Type == nil {
					return true // type switch
				}
				par := parentsOf(r.P, u.fi)
				commaOK := false
				if as, ok := par[x].(*ast.AssignStmt); ok && len(as.Lhs) == 2 {
					commaOK = true
				}
				if vs, ok := par[x].(*ast.ValueSpec); ok && len(vs.Names) == 2 {
					commaOK = true
				}
				if !commaOK {
					bad, bpos = "has a type assertion without ok: `"+src(r.P.Fset, x)+"`", x.Pos()
				}
			}
			return true
		})
		if bad != "" {
			r.Bad(c, bpos, "%s %s, reachable in role(s) %v: input that reaches it crashes the calling process instead of ending the scan with an error", u.name, bad, rolesOf(u))
		} else {
			r.OKTrivial(c, u.node.Pos(), "no panic call and no unchecked type assertion (roles %v)", rolesOf(u))
		}
	}
}

// ---------------------------------------------------------------- E8

func c06E8(r *core.R) {
	for _, rel := range []string{"osmpbf", "osmxml"} {
		pk := r.P.Pkg(rel)
		fi := findFunc(pk, "(*Scanner).Err")
		if fi == nil {
			r.Anchor(rel + ".(*Scanner).Err")
			continue
		}
		c := rel + ".(*Scanner).Err nil only for io.EOF"
		chain, why := parseErrChain(pk, fi)
		if why != "" {
			r.Unknown(c, fi.Decl.Pos(), "Err is not a chain of `if COND { return V }`: %s", why)
			continue
		}
		ok := len(chain) > 0 && chain[0] == errStep{"err==EOF", "nil"}
		for _, st := range chain[1:] {
			if st.ret == "nil" {
				ok = false
			}
		}
		r.Check(ok, c, fi.Decl.Pos(), "the only branch returning nil is `s.err == io.EOF`", fmt.Sprintf("Err returns nil for something other than a stored io.EOF: %v — an error other than end-of-input would be reported as success", chain))
	}
}
