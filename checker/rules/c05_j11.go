package rules

import (
	"fmt"
	"go/types"
	"sort"
	"strings"

	"osmcheck/core"
)

// C05.J11: integers are decoded through integers (the JSON twin of C03.T6 conv@).
//
// The integer-valued data of the model - object ids, node refs, versions, changeset and user ids, counts - are int64
// (or narrower) in Go and plain integers in osmjson. A float64 holds integers exactly only up to 2^53, so a reader
// that lets the codec decode such a number into float64 / float32 / interface{} (encoding/json yields float64 for a
// number in an interface unless the Decoder uses UseNumber) and converts afterwards silently rounds large ids:
// 9007199254740993 comes back as ...992, marshal -> unmarshal no longer yields the same elements. Likewise a number
// decoded through a narrower integer type than the one it is stored in went through the narrow range first.
//
// For every hand-written UnmarshalJSON method of package osm (with the repository functions it reaches): the types it
// hands the codec are walked for their number leaves; a float / interface leaf is fine as such (lat, lon; the
// document `version`, a string-or-number union that is formatted, never made an integer) - the violation is a
// conversion to an integer type of a value computed from what the codec filled (c05_intconv.go) whose operand is a
// float, or an integer narrower than the result when that narrow kind is a number leaf of a decode target.
// json.Number parsed with ParseInt / Int64, []int64, []NodeID are integer all the way and silent.

// c05NumLeaf is one place of a decode target type where a JSON number can land.
type c05NumLeaf struct {
	path string
	t    types.Type
	kind string // "int" | "float" | "any" | "number" (json.Number)
}

func c05NumLeaves(t types.Type, path string, depth int, seen map[types.Type]bool, out *[]c05NumLeaf) {
	if depth > 8 || t == nil {
		return
	}
	if namedPath(t) == "encoding/json.Number" {
		*out = append(*out, c05NumLeaf{path, t, "number"})
		return
	}
	if nt, ok := t.(*types.Named); ok {
		if seen[nt] {
			return
		}
		seen[nt] = true
		if c03Method(nt, "UnmarshalJSON") != nil && depth > 0 {
			return // decoded by its own reader, which is judged on its own
		}
	}
	switch u := t.Underlying().(type) {
	case *types.Basic:
		switch {
		case u.Info()&types.IsInteger != 0:
			*out = append(*out, c05NumLeaf{path, t, "int"})
		case u.Info()&types.IsFloat != 0:
			*out = append(*out, c05NumLeaf{path, t, "float"})
		}
	case *types.Interface:
		if u.NumMethods() == 0 {
			*out = append(*out, c05NumLeaf{path, t, "any"})
		}
	case *types.Pointer:
		c05NumLeaves(u.Elem(), path, depth+1, seen, out)
	case *types.Slice:
		if b, ok := u.Elem().Underlying().(*types.Basic); ok && b.Kind() == types.Uint8 {
			return // []byte: a base64 string (or raw bytes), no number
		}
		c05NumLeaves(u.Elem(), path+"[]", depth+1, seen, out)
	case *types.Array:
		c05NumLeaves(u.Elem(), path+"[]", depth+1, seen, out)
	case *types.Map:
		c05NumLeaves(u.Elem(), path+"{}", depth+1, seen, out)
	case *types.Struct:
		for i := 0; i < u.NumFields(); i++ {
			f := u.Field(i)
			if key, _ := c05JSONKey(u.Tag(i)); key == "-" || (!f.Exported() && !f.Embedded()) {
				continue
			}
			c05NumLeaves(f.Type(), path+"."+f.Name(), depth+1, seen, out)
		}
	}
}

func c05J11(r *core.R) {
	c03Init(r)
	pk := c03OsmPkg(r.P)
	cx := c05NewCodec(r.P)
	n := 0
	for _, fi := range allFuncs(pk) {
		sig := fi.Obj.Type().(*types.Signature)
		if fi.Obj.Name() != "UnmarshalJSON" || sig.Recv() == nil || fi.Decl.Body == nil {
			continue
		}
		n++
		c := "intconv@" + c05FuncLabel(fi)
		tn := c05NewTaint(cx, fi)
		var leaves []c05NumLeaf
		var targetTypes []string
		for _, tg := range tn.targets {
			if tg.fi != fi && cx.helpers[tg.fi.Obj] != "" {
				continue // inside a codec helper: the target is the helper's parameter
			}
			targetTypes = append(targetTypes, c05TypeLabel(tg.t))
			c05NumLeaves(tg.t, src(r.P.Fset, tg.arg), 0, map[types.Type]bool{}, &leaves)
		}
		if len(targetTypes) == 0 {
			r.OKTrivial(c, fi.Decl.Pos(), "hands nothing to the codec: no number is decoded by this method")
			continue
		}
		intKinds := map[types.BasicKind]bool{}
		var loose []string
		for _, l := range leaves {
			switch l.kind {
			case "float", "any":
				loose = append(loose, l.path+" "+c05TypeLabel(l.t))
			case "int":
				intKinds[l.t.Underlying().(*types.Basic).Kind()] = true
			}
		}
		bad := false
		for _, cv := range tn.Conversions() {
			from := cv.from.Underlying().(*types.Basic)
			switch {
			case cv.kind == "float":
				if len(loose) == 0 {
					loose = []string{"a floating point value obtained from the decoded number"}
				}
				r.Bad(c, cv.pos, "`%s` (in %s) converts a %s computed from what the codec decoded to the integer type %s, and the method lets the codec decode numbers into %s: an integer of the document went through float64, which holds integers exactly only up to 2^53 - larger ids, refs and changeset ids are silently rounded (9007199254740993 becomes ...992) and marshal -> unmarshal does not give the elements back; decode through int64 / the id type / json.Number with ParseInt instead", src(r.P.Fset, cv.expr), cv.fi.Name(), c05TypeLabel(cv.from), c05TypeLabel(cv.to), strings.Join(loose, ", "))
				bad = true
			case cv.kind == "narrow" && intKinds[from.Kind()]:
				r.Bad(c, cv.pos, "`%s` (in %s) widens a %s computed from what the codec decoded to %s, and %s is what the method lets the codec decode numbers into: the value went through the narrower type first (int and uint are 32 bits on 386 / arm), so documents with larger ids fail to decode or are cut although the field that receives them is wide enough", src(r.P.Fset, cv.expr), cv.fi.Name(), c05TypeLabel(cv.from), c05TypeLabel(cv.to), c05TypeLabel(cv.from))
				bad = true
			}
			if bad {
				break
			}
		}
		if bad {
			continue
		}
		sort.Strings(targetTypes)
		note := "every number leaf of them is an integer type, a json.Number or belongs to a type with its own reader"
		if len(loose) > 4 {
			loose = append(loose[:4:4], fmt.Sprintf("... %d more", len(loose)-4))
		}
		if len(loose) > 0 {
			note = "the float / interface leaves (" + strings.Join(loose, ", ") + ") are never converted to an integer type in the method or the functions it reaches"
		}
		r.OK(c, fi.Decl.Pos(), "decodes into %s: %s", strings.Join(c05Dedup(targetTypes), ", "), note)
	}
	r.Stat("hand_written_json_readers", n)
	if n == 0 {
		r.Anchor("an UnmarshalJSON method in package osm")
	}
}

func c05Dedup(s []string) []string {
	var out []string
	for i, x := range s {
		if i == 0 || x != s[i-1] {
			out = append(out, x)
		}
	}
	return out
}
