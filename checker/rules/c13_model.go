package rules

import (
	"fmt"
	"go/constant"
	"go/token"
	"go/types"
	"sort"
	"strings"
	"sync"

	"golang.org/x/tools/go/packages"

	"osmcheck/core"
)

// Anchors of the C13 rules.
//   exported API (class 1): annotate.Change and its parameter types (*osm.Change, osm.HistoryDatasourcer, annotate.Option);
//     osm.Change{Create,Modify,Delete}, osm.OSM{Nodes,Ways,Relations}, osm.Action{Type,OSM,Old,New}, osm.Diff.Actions,
//     osm.Action{Create,Modify,Delete}, osm.HistoryDatasourcer.{Node,Way,Relation}History/NotFound,
//     osm.{Node,Way,Relation}.{ID,Version,Visible} and their FeatureID methods, core.Options.IgnoreMissingChildren.
//   role (class 2): everything else. The functions Change calls (today addUpdate, checkErr, findPrevious*, osmCount) are
//     not looked up at all: their code is executed symbolically wherever Change (transitively) calls it. Loops are
//     identified by what they range over, variables by the values they hold.
//   unexported names (class 3): none.

const c13OsmPath = core.ModulePath

// c13Kinds are the kind-dependent exported names of package osm (Node <-> Way <-> Relation).
var c13Kinds = [3]struct{ Elem, Elems, ID, Hist string }{
	{"Node", "Nodes", "NodeID", "NodeHistory"},
	{"Way", "Ways", "WayID", "WayHistory"},
	{"Relation", "Relations", "RelationID", "RelationHistory"},
}

// c13Secs are the sections of an osm.Change with the action type of their elements.
var c13Secs = [3]struct{ Field, Const string }{
	{"Create", "ActionCreate"},
	{"Modify", "ActionModify"},
	{"Delete", "ActionDelete"},
}

// c13Model is the evaluated program: every path of annotate.Change with the loops it executed.
type c13Model struct {
	pk, osmPk *packages.Package
	fset      *token.FileSet
	x         *c13Exec
	change    *FuncInfo
	params    map[types.Object]*c13Term

	changeP, dsP, optsP *c13Term
	osmFields           [3]*types.Var
	secFields           [3]*types.Var
	actVals             [3]string
	actType, actOSM     *types.Var
	actOld, actNew      *types.Var
	diffActions         *types.Var
	elemType            [3]*types.Named
	featureID           [3]*types.Func

	eloops  []*c13ELoop            // element loops in execution order of discovery
	byLoop  map[*c13Loop]*c13ELoop // element loop of a loop record
	search  map[*c13Loop]*c13Search
	anchor  string
	unknown string // evaluation problems: every rule reports Unknown
}

// c13ELoop is one execution of a loop over the nodes/ways/relations of a section of the change.
type c13ELoop struct {
	l     *c13Loop
	sec   int
	kind  int
	elem  *c13Term
	paths []*c13UPath
}

func (e *c13ELoop) name() string { return c13Secs[e.sec].Field + "/" + c13Kinds[e.kind].Elem }

func c13Field(st *types.Struct, name string) *types.Var {
	if st == nil {
		return nil
	}
	for i := 0; i < st.NumFields(); i++ {
		if st.Field(i).Name() == name {
			return st.Field(i)
		}
	}
	return nil
}

var (
	c13Mu    sync.Mutex
	c13Cache = map[*core.Program]*c13Model{}
)

// c13Load evaluates annotate.Change (once per loaded program); it emits the anchor / evaluation problem and
// returns nil when the rules cannot run.
func c13Load(r *core.R) *c13Model {
	c13Mu.Lock()
	m, ok := c13Cache[r.P]
	if !ok {
		m = c13Build(r.P)
		c13Cache[r.P] = m
	}
	c13Mu.Unlock()
	if m.anchor != "" {
		r.Anchor(m.anchor)
		return nil
	}
	r.Stat("paths", len(m.x.paths))
	r.Stat("loops", len(m.x.loops))
	r.Stat("steps", m.x.steps)
	if m.unknown != "" {
		r.Unknown("evaluation@Change", m.change.Decl.Pos(), "annotate.Change could not be evaluated on every path, the rule cannot decide: %s", m.unknown)
		return nil
	}
	return m
}

func c13Build(p *core.Program) *c13Model {
	m := &c13Model{fset: p.Fset, byLoop: map[*c13Loop]*c13ELoop{}, search: map[*c13Loop]*c13Search{}}
	m.pk, m.osmPk = p.Pkg("annotate"), p.Pkg("")
	if m.pk == nil || m.osmPk == nil {
		m.anchor = "packages osm and osm/annotate"
		return m
	}
	_, ost := structType(m.osmPk, "OSM")
	_, cst := structType(m.osmPk, "Change")
	_, ast_ := structType(m.osmPk, "Action")
	_, dst := structType(m.osmPk, "Diff")
	sc := m.osmPk.Types.Scope()
	missing := ""
	for k, kn := range c13Kinds {
		m.osmFields[k] = c13Field(ost, kn.Elems)
		nt, est := structType(m.osmPk, kn.Elem)
		m.elemType[k] = nt
		if m.osmFields[k] == nil || nt == nil || c13Field(est, "Version") == nil || c13Field(est, "Visible") == nil || c13Field(est, "ID") == nil {
			missing = "osm." + kn.Elem + " / osm.OSM." + kn.Elems
			continue
		}
		ms := types.NewMethodSet(types.NewPointer(nt))
		if sel := ms.Lookup(m.osmPk.Types, "FeatureID"); sel != nil {
			m.featureID[k], _ = sel.Obj().(*types.Func)
		}
		if m.featureID[k] == nil {
			missing = "(*osm." + kn.Elem + ").FeatureID"
		}
	}
	for s, sn := range c13Secs {
		m.secFields[s] = c13Field(cst, sn.Field)
		c, _ := sc.Lookup(sn.Const).(*types.Const)
		if m.secFields[s] == nil || c == nil || c.Val().Kind() != constant.String {
			missing = "osm.Change." + sn.Field + " / osm." + sn.Const
			continue
		}
		m.actVals[s] = constant.StringVal(c.Val())
	}
	m.actType, m.actOSM, m.actOld, m.actNew = c13Field(ast_, "Type"), c13Field(ast_, "OSM"), c13Field(ast_, "Old"), c13Field(ast_, "New")
	m.diffActions = c13Field(dst, "Actions")
	if m.actType == nil || m.actOSM == nil || m.actOld == nil || m.actNew == nil || m.diffActions == nil {
		missing = "osm.Action{Type,OSM,Old,New} / osm.Diff.Actions"
	}
	if missing != "" {
		m.anchor = missing
		return m
	}
	if m.change = findFunc(m.pk, "Change"); m.change == nil || m.change.Decl.Body == nil {
		m.anchor = "annotate.Change"
		return m
	}
	x := c13NewExec(p, m.pk)
	m.x = x
	x.pureIface = func(fn *types.Func) bool {
		// documented assumption: NotFound classifies an error, it is a function of the error
		return isMethod(fn, c13OsmPath+".HistoryDatasourcer", "NotFound")
	}
	x.assumeNonNil = func(t *c13Term) bool {
		// an entry of a history whose Version the scan has read is not nil: the read would have panicked
		if t.op == c13OpIndex && t.args[0].op == c13OpSym && strings.HasSuffix(t.args[0].name, "History.0") {
			return true
		}
		if t.op == c13OpLoopOut || t.op == c13OpLoopIn {
			return false
		}
		return false
	}
	func() {
		defer func() {
			if e := recover(); e != nil {
				m.unknown = fmt.Sprintf("the evaluator failed on an unexpected code shape: %v", e)
			}
		}()
		m.params = x.run(m.change)
	}()
	for o, t := range m.params {
		switch {
		case namedPath(o.Type()) == c13OsmPath+".Change":
			m.changeP = t
		case namedPath(o.Type()) == c13OsmPath+".HistoryDatasourcer":
			m.dsP = t
		default:
			if sl, ok := o.Type().Underlying().(*types.Slice); ok && namedPath(sl.Elem()) == c13OsmPath+"/annotate.Option" {
				m.optsP = t
			}
		}
	}
	if m.changeP == nil || m.dsP == nil {
		m.anchor = "parameters of annotate.Change (*osm.Change, osm.HistoryDatasourcer)"
		return m
	}
	if m.unknown == "" && x.aborted != "" {
		m.unknown = x.aborted
	}
	if m.unknown == "" && len(x.unsupAll) > 0 {
		seen := map[string]bool{}
		var u []string
		for _, s := range x.unsupAll {
			if !seen[s] {
				seen[s] = true
				u = append(u, s)
			}
		}
		sort.Strings(u)
		if len(u) > 4 {
			u = append(u[:4], fmt.Sprintf("... %d more", len(u)-4))
		}
		m.unknown = "construct outside the evaluated subset of Go: " + strings.Join(u, "; ")
	}
	if m.unknown != "" {
		return m
	}
	// element loops
	for _, l := range x.loops {
		xs, idx, _, ok := m.indexView(l)
		if !ok {
			continue
		}
		sec, kind := m.sectionSlice(xs)
		if sec < 0 {
			continue
		}
		el := &c13ELoop{l: l, sec: sec, kind: kind, elem: x.index(xs, idx)}
		m.eloops = append(m.eloops, el)
		m.byLoop[l] = el
	}
	for _, el := range m.eloops {
		m.collectPaths(el)
	}
	return m
}

// sectionSlice recognises change.<Section>.<Nodes|Ways|Relations>.
func (m *c13Model) sectionSlice(t *c13Term) (sec, kind int) {
	if t == nil || t.op != c13OpField || t.args[0].op != c13OpField || t.args[0].args[0].key != m.changeP.key {
		return -1, -1
	}
	sec, kind = -1, -1
	for k := range c13Kinds {
		if t.obj == types.Object(m.osmFields[k]) {
			kind = k
		}
	}
	for s := range c13Secs {
		if t.args[0].obj == types.Object(m.secFields[s]) {
			sec = s
		}
	}
	if sec < 0 || kind < 0 {
		return -1, -1
	}
	return sec, kind
}

// indexView presents a loop as a scan of a slice: a range loop over xs (index idx(L)), or a counted loop
// `for i := 0; i < len(xs); i++` (index loopin(L, i)); counter is the counting variable of the latter.
func (m *c13Model) indexView(l *c13Loop) (xs, idx *c13Term, counter types.Object, ok bool) {
	x := m.x
	if l.xs != nil {
		return l.xs, x.idx(l), nil, true
	}
	// counted loop: some carried variable i with pre 0, i+1 at the end of every iteration, and `i < len(xs)` holding in every iteration
	for _, w := range l.vars {
		if v, isInt := c13IntOf(l.pre[w]); !isInt || v != 0 {
			continue
		}
		in := x.loopVar(c13OpLoopIn, l, w)
		inc := x.arith(token.ADD, in, c13Int(1))
		good := len(l.iters) > 0
		var bound *c13Term
		for _, it := range l.iters {
			if it.out[w] == nil || it.out[w].key != inc.key {
				good = false
				break
			}
			var b *c13Term
			for _, a := range it.st.pc[l.pcLen:] {
				if a.val && a.t.op == c13OpLt && a.t.args[0].key == in.key && a.t.args[1].op == c13OpLen {
					b = a.t.args[1].args[0]
					break
				}
			}
			if b == nil || (bound != nil && bound.key != b.key) {
				good = false
				break
			}
			bound = b
		}
		if good && bound != nil {
			return bound, in, w, true
		}
	}
	return nil, nil, nil, false
}

// ---- verdict aggregation: one obligation per construct over all contexts in which the construct was evaluated ----

type c13Verdict struct {
	status int // 0 ok, 1 unknown, 2 bad
	pos    token.Pos
	msg    string
	n      int
}

type c13Agg struct {
	order []string
	m     map[string]*c13Verdict
}

func (a *c13Agg) put(status int, c string, pos token.Pos, format string, args ...interface{}) {
	if a.m == nil {
		a.m = map[string]*c13Verdict{}
	}
	v := a.m[c]
	if v == nil {
		v = &c13Verdict{status: -1}
		a.m[c] = v
		a.order = append(a.order, c)
	}
	v.n++
	if status > v.status {
		v.status, v.pos, v.msg = status, pos, fmt.Sprintf(format, args...)
	}
}

func (a *c13Agg) ok(c string, pos token.Pos, format string, args ...interface{}) {
	a.put(0, c, pos, format, args...)
}
func (a *c13Agg) unknown(c string, pos token.Pos, format string, args ...interface{}) {
	a.put(1, c, pos, format, args...)
}
func (a *c13Agg) bad(c string, pos token.Pos, format string, args ...interface{}) {
	a.put(2, c, pos, format, args...)
}

// pending registers a construct that the current calling context does not exercise (e.g. a table row excluded by a
// test hoisted out of the loop); if no context exercises it the construct is reported as undecided.
func (a *c13Agg) pending(c string, pos token.Pos, format string, args ...interface{}) {
	if a.m == nil {
		a.m = map[string]*c13Verdict{}
	}
	if a.m[c] == nil {
		a.m[c] = &c13Verdict{status: -1, pos: pos, msg: fmt.Sprintf(format, args...)}
		a.order = append(a.order, c)
	}
}

func (a *c13Agg) emit(r *core.R) {
	for _, c := range a.order {
		v := a.m[c]
		msg := v.msg
		if v.status < 0 {
			r.Unknown(c, v.pos, "%s", msg)
			continue
		}
		if v.n > 1 {
			msg += fmt.Sprintf(" [evaluated in %d calling contexts]", v.n)
		}
		switch v.status {
		case 0:
			r.OK(c, v.pos, "%s", msg)
		case 1:
			r.Unknown(c, v.pos, "%s", msg)
		default:
			r.Bad(c, v.pos, "%s", msg)
		}
	}
}

// show renders a term for diagnostics.
func (m *c13Model) show(t *c13Term) string {
	if t == nil {
		return "<none>"
	}
	s := m.showD(t, 0)
	if len(s) > 140 {
		s = s[:137] + "..."
	}
	return s
}

func (m *c13Model) showD(t *c13Term, d int) string {
	if d > 8 {
		return "…"
	}
	sh := func(a *c13Term) string { return m.showD(a, d+1) }
	list := func(as []*c13Term) string {
		var p []string
		for _, a := range as {
			p = append(p, sh(a))
		}
		return strings.Join(p, ", ")
	}
	switch t.op {
	case c13OpNil:
		return "nil"
	case c13OpConst:
		return t.cv.String()
	case c13OpSym:
		return strings.TrimPrefix(strings.TrimPrefix(t.name, "param:"), "var:")
	case c13OpField:
		return sh(t.args[0]) + "." + t.obj.Name()
	case c13OpAddr:
		return "&" + sh(t.args[0])
	case c13OpDeref:
		return "*" + sh(t.args[0])
	case c13OpIndex:
		return sh(t.args[0]) + "[" + sh(t.args[1]) + "]"
	case c13OpLit:
		tn := types.TypeString(t.typ, func(p *types.Package) string { return p.Name() })
		if t.keys == nil {
			return tn + "{" + list(t.args) + "}"
		}
		var p []string
		for i, a := range t.args {
			p = append(p, t.keys[i].Name()+": "+sh(a))
		}
		return tn + "{" + strings.Join(p, ", ") + "}"
	case c13OpRef:
		return fmt.Sprintf("<object %d>", t.id)
	case c13OpCall:
		if len(t.args) > 0 && t.obj.(*types.Func).Type().(*types.Signature).Recv() != nil {
			return sh(t.args[0]) + "." + t.obj.Name() + "(" + list(t.args[1:]) + ")"
		}
		return t.obj.Name() + "(" + list(t.args) + ")"
	case c13OpConv:
		return types.TypeString(t.typ, func(p *types.Package) string { return p.Name() }) + "(" + sh(t.args[0]) + ")"
	case c13OpLen, c13OpCap:
		return t.op + "(" + sh(t.args[0]) + ")"
	case c13OpApp, c13OpAppV:
		return "append(" + list(t.args) + ")"
	case c13OpMake:
		return "make(" + list(t.args) + ")"
	case c13OpBin:
		return "(" + sh(t.args[0]) + " " + t.name + " " + sh(t.args[1]) + ")"
	case c13OpLt:
		return sh(t.args[0]) + " < " + sh(t.args[1])
	case c13OpEq:
		return sh(t.args[0]) + " == " + sh(t.args[1])
	case c13OpLoopIn:
		return t.obj.Name()
	case c13OpLoopOut:
		return t.obj.Name() + "(after the loop)"
	case c13OpIdx:
		return "i"
	case c13OpTypedNil:
		return "(" + types.TypeString(t.typ, func(p *types.Package) string { return p.Name() }) + ")(nil) held in an interface"
	}
	return t.op + " " + t.name + "(" + list(t.args) + ")"
}

func (m *c13Model) showAtom(a c13Atom) string {
	if a.e != nil {
		s := "`" + src(m.fset, a.e) + "`"
		if a.t.op == c13OpLt || a.t.op == c13OpEq {
			// the source expression may be the negated spelling of the atom; show the atom itself
			s = "`" + m.show(a.t) + "`"
		}
		if !a.val {
			return "not " + s
		}
		return s
	}
	if !a.val {
		return "not `" + m.show(a.t) + "`"
	}
	return "`" + m.show(a.t) + "`"
}
