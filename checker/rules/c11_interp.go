package rules

// Path interpreter for C11 ("finite-domain evaluation", ROBUSTNESS.md class 2): a function is executed on
// symbolic inputs along every path of its statement structure. Branch conditions are decided by the
// assumptions already made on the path (or by an oracle the rule supplies) and fork the path otherwise.
// Static calls to functions the rule allows are inlined (extract/inline refactorings give the same paths);
// all other calls are opaque pure terms and are recorded as events. Locals are resolved to the terms they
// hold, so renamed locals, pointer aliases, captured booleans, if-init forms, named constants, if/switch
// respellings, inverted branches and merged/split guards all yield the same assumptions and terms.
//
// Loops: variables assigned in a loop are replaced by fresh symbols at the loop head ("an arbitrary
// iteration"), the body is executed once from that state and that path ends at the back edge (it is kept
// in Interp.done with ctl c11Back); the path that leaves the loop continues with the fresh symbols. Every
// property checked on these paths is a per-iteration property or a property of the straight-line code
// around loops.

import (
	"fmt"
	"go/ast"
	"go/constant"
	"go/token"
	"go/types"
	"strconv"
	"strings"

	"golang.org/x/tools/go/packages"
)

const (
	c11Normal = iota
	c11Break
	c11Continue
	c11Return
	c11Panic
	c11Back // end of the one symbolic loop iteration
)

type c11Out struct {
	st      *c11St
	ctl     int
	res     []*c11V
	ret     *ast.ReturnStmt
	lbl     string   // label of break/continue
	loop    ast.Stmt // c11Back: the loop whose iteration ended
	loopKey string
}

// c11Frame is one function activation.
type c11Frame struct {
	pk    *packages.Package
	info  *types.Info
	fi    *FuncInfo
	path  string // call path ("" for the root)
	depth int
	lit   *ast.FuncLit // the frame executes a local function literal in place
	envP  string       // call path of the frame that owns the environment in use ("" = root; a literal runs on its creator's)
}

type c11Interp struct {
	pkgs        []*packages.Package             // packages whose functions may be inlined
	inline      func(fn *types.Func) bool       // policy; default: unexported functions of pkgs
	oracle      func(st *c11St, v *c11V) c11Tri // optional decision of atoms from an abstract input
	onStmt      func(fr *c11Frame, st *c11St, s ast.Stmt)
	onLoop      func(fr *c11Frame, st *c11St, loop ast.Stmt, phase string) // "init" (after Init/X, before the fresh symbols), "head" (after them)
	maxPaths    int
	npaths      int
	overflow    bool
	nid         int
	done        []c11Out // paths that ended at a loop back edge (ctl c11Back) or in a panic
	funcs       map[*types.Func]*FuncInfo
	litInfo     map[*ast.FuncLit]*c11Frame // the frame a function literal was created in
	recordIndex bool                       // record slice index reads as "index" events
	concrete    bool                       // finite-domain mode: lists are computed, loops are unrolled (c11_list.go)
	initHeap    map[int]*c11Obj            // struct values of the concrete input
}

func c11NewInterp(pkgs ...*packages.Package) *c11Interp {
	it := &c11Interp{pkgs: pkgs, maxPaths: 20000, funcs: map[*types.Func]*FuncInfo{}, litInfo: map[*ast.FuncLit]*c11Frame{}}
	for _, pk := range pkgs {
		if pk == nil {
			continue
		}
		for _, fi := range allFuncs(pk) {
			it.funcs[fi.Obj] = fi
		}
	}
	it.inline = func(fn *types.Func) bool { return !fn.Exported() }
	return it
}

func (it *c11Interp) fresh() int { it.nid++; return it.nid }

func (it *c11Interp) unk(st *c11St, why string) *c11V {
	return &c11V{k: "unk", name: why, id: it.fresh()}
}

type c11SV struct {
	st *c11St
	v  *c11V
	vs []*c11V // multi-value result (inlined call with several results)
}

// zeroOf returns the zero value of t.
func (it *c11Interp) zeroOf(st *c11St, t types.Type) *c11V {
	switch u := t.Underlying().(type) {
	case *types.Basic:
		switch {
		case u.Info()&types.IsBoolean != 0:
			return c11Bool(false)
		case u.Info()&types.IsString != 0:
			return c11Const(constant.MakeString(""))
		case u.Info()&types.IsNumeric != 0:
			return c11Int(0)
		}
	case *types.Pointer, *types.Slice, *types.Map, *types.Chan, *types.Signature, *types.Interface:
		return c11Nil()
	}
	return &c11V{k: "zero", typ: t}
}

// ---- expressions ----

func (it *c11Interp) eval(fr *c11Frame, st *c11St, e ast.Expr) []c11SV {
	info := fr.info
	if tv, ok := info.Types[e]; ok && tv.Value != nil {
		return []c11SV{{st: st, v: c11Const(tv.Value)}}
	}
	one := func(v *c11V) []c11SV { return []c11SV{{st: st, v: v}} }
	switch x := e.(type) {
	case *ast.ParenExpr:
		return it.eval(fr, st, x.X)
	case *ast.Ident:
		return one(it.evalIdent(fr, st, x))
	case *ast.BasicLit:
		return one(it.unk(st, "literal"))
	case *ast.FuncLit:
		it.litInfo[x] = fr
		return one(&c11V{k: "funclit", node: x, name: fr.envP})
	case *ast.SelectorExpr:
		if sel := info.Selections[x]; sel != nil {
			if sel.Kind() == types.MethodVal {
				if m, ok := sel.Obj().(*types.Func); ok {
					return it.evalN(fr, st, []ast.Expr{x.X}, func(s *c11St, vs []*c11V) *c11V {
						return &c11V{k: "func", fn: m, xs: []*c11V{vs[0]}} // method value: the method with its receiver
					})
				}
			}
			if sel.Kind() != types.FieldVal {
				return one(it.unk(st, "method expression"))
			}
			var out []c11SV
			for _, b := range it.eval(fr, st, x.X) {
				out = append(out, c11SV{st: b.st, v: it.selectPath(b.st, b.v, info.TypeOf(x.X), sel.Index())})
			}
			return out
		}
		return one(it.evalIdent(fr, st, x.Sel)) // qualified identifier
	case *ast.IndexExpr:
		if tv, ok := info.Types[x.X]; ok && tv.IsType() {
			return one(it.unk(st, "instantiation"))
		}
		return it.evalN(fr, st, []ast.Expr{x.X, x.Index}, func(s *c11St, vs []*c11V) *c11V {
			if it.recordIndex {
				if t := info.TypeOf(x.X); t != nil {
					if _, isSlice := t.Underlying().(*types.Slice); isSlice {
						s.ev = append(s.ev, c11Ev{kind: "index", lhs: vs[0], x: vs[1], t: t, node: x, nas: len(s.as), fr: fr.path})
					}
				}
			}
			if v, ok := it.listIndex(s, vs[0], vs[1]); ok {
				return v
			}
			return it.load(s, &c11V{k: "index", xs: []*c11V{vs[0], vs[1]}})
		})
	case *ast.SliceExpr:
		absent := &c11V{k: "sym", name: "-"}
		es := []ast.Expr{x.X}
		idx := [2]int{-1, -1}
		if x.Low != nil {
			idx[0] = len(es)
			es = append(es, x.Low)
		}
		if x.High != nil {
			idx[1] = len(es)
			es = append(es, x.High)
		}
		return it.evalN(fr, st, es, func(s *c11St, vs []*c11V) *c11V {
			lo, hi := absent, absent
			if idx[0] >= 0 {
				lo = vs[idx[0]]
			}
			if idx[1] >= 0 {
				hi = vs[idx[1]]
			}
			if v, ok := it.listSlice(s, vs[0], lo, hi); ok {
				return v
			}
			return &c11V{k: "slice", xs: []*c11V{vs[0], lo, hi}}
		})
	case *ast.StarExpr:
		return it.evalN(fr, st, []ast.Expr{x.X}, func(s *c11St, vs []*c11V) *c11V {
			if v, ok := it.readRef(fr, s, vs[0]); ok {
				return v
			}
			return c11Deref(vs[0])
		})
	case *ast.UnaryExpr:
		switch x.Op {
		case token.AND:
			if id, ok := ast.Unparen(x.X).(*ast.Ident); ok {
				if v, ok := info.Uses[id].(*types.Var); ok && !v.IsField() {
					if cur, ok := st.env[v]; ok && cur.k == "struct" {
						return one(c11Addr(cur))
					}
					if v.Pkg() != nil && v.Parent() == v.Pkg().Scope() {
						return one(c11Addr(it.evalIdent(fr, st, id)))
					}
					if st.escaped == nil {
						st.escaped = map[types.Object]string{}
					}
					st.escaped[v] = fr.envP
					return one(c11Ref(v, fr.envP))
				}
			}
			return it.evalN(fr, st, []ast.Expr{x.X}, func(s *c11St, vs []*c11V) *c11V { return c11Addr(vs[0]) })
		case token.NOT:
			return it.evalN(fr, st, []ast.Expr{x.X}, func(s *c11St, vs []*c11V) *c11V { return c11Not(vs[0]) })
		case token.SUB:
			return it.evalN(fr, st, []ast.Expr{x.X}, func(s *c11St, vs []*c11V) *c11V { return c11Bin(token.SUB, c11Int(0), vs[0]) })
		case token.ADD:
			return it.eval(fr, st, x.X)
		}
		return one(it.unk(st, "unary "+x.Op.String()))
	case *ast.BinaryExpr:
		if x.Op == token.LAND || x.Op == token.LOR {
			// short circuit: the right operand is evaluated (and its calls happen) only when the left one does not decide
			var out []c11SV
			for _, l := range it.eval(fr, st, x.X) {
				T, F := it.split(l.st, l.v)
				need, done := T, F
				if x.Op == token.LOR {
					need, done = F, T
				}
				for _, s := range need {
					out = append(out, it.eval(fr, s, x.Y)...)
				}
				for _, s := range done {
					out = append(out, c11SV{st: s, v: c11Bool(x.Op == token.LOR)})
				}
			}
			return out
		}
		return it.evalN(fr, st, []ast.Expr{x.X, x.Y}, func(s *c11St, vs []*c11V) *c11V { return c11Bin(x.Op, vs[0], vs[1]) })
	case *ast.TypeAssertExpr:
		if x.Type == nil {
			return it.eval(fr, st, x.X)
		}
		t := info.TypeOf(x.Type)
		return it.evalN(fr, st, []ast.Expr{x.X}, func(s *c11St, vs []*c11V) *c11V {
			return &c11V{k: "assert", xs: []*c11V{vs[0]}, typ: t}
		})
	case *ast.CompositeLit:
		return it.evalLit(fr, st, x)
	case *ast.CallExpr:
		return it.evalCall(fr, st, x)
	}
	return one(it.unk(st, fmt.Sprintf("%T", e)))
}

func (it *c11Interp) evalIdent(fr *c11Frame, st *c11St, id *ast.Ident) *c11V {
	obj := fr.info.Uses[id]
	if obj == nil {
		obj = fr.info.Defs[id]
	}
	switch o := obj.(type) {
	case *types.Nil:
		return c11Nil()
	case *types.Const:
		return c11Const(o.Val())
	case *types.Func:
		return &c11V{k: "func", fn: o}
	case *types.Var:
		if v, ok := st.env[o]; ok {
			return v
		}
		if o.Pkg() != nil && o.Parent() == o.Pkg().Scope() {
			return c11Sym(o.Pkg().Path()+"."+o.Name(), o)
		}
		// a variable of an enclosing function (closure) or one never assigned on this path
		return c11Sym("free "+o.Name()+"@"+strconv.Itoa(int(o.Pos())), o)
	}
	return it.unk(st, "identifier "+id.Name)
}

// selectPath applies a (possibly promoted) field selection.
func (it *c11Interp) selectPath(st *c11St, base *c11V, t types.Type, index []int) *c11V {
	for _, i := range index {
		if p, ok := t.Underlying().(*types.Pointer); ok {
			t = p.Elem()
		}
		stt, ok := t.Underlying().(*types.Struct)
		if !ok || i >= stt.NumFields() {
			return it.unk(st, "selection")
		}
		f := stt.Field(i)
		base = it.readField(st, base, f)
		t = f.Type()
	}
	return base
}

// readField reads base.f: from the struct value when base is one built on the path, else the symbolic place.
func (it *c11Interp) readField(st *c11St, base *c11V, f *types.Var) *c11V {
	b := c11StripPtr(base)
	if b.k == "struct" {
		if o := st.heap[b.id]; o != nil {
			if v, ok := o.f[f.Name()]; ok {
				return v
			}
			if o.hv != "" {
				return c11Sym(o.hv+"."+f.Name(), nil) // modified in a loop: unknown content
			}
			if o.base != nil && o.base.k != "zero" {
				return c11Field(o.base, f)
			}
			return it.zeroOf(st, f.Type())
		}
	}
	if b.k == "zero" {
		return it.zeroOf(st, f.Type())
	}
	return it.load(st, c11Field(b, f))
}

// load reads a memory place: the value of the latest store to exactly that place on the path, provided no
// later store may alias it (a store to the same field of another base, or to another index of the same
// base); otherwise the place itself (its unknown content).
func (it *c11Interp) load(st *c11St, place *c11V) *c11V {
	k := place.key()
	for i := len(st.ev) - 1; i >= 0; i-- {
		ev := st.ev[i]
		switch ev.kind {
		case "loop":
			return place // stores before a loop head may be overwritten by earlier iterations
		case "store":
			if ev.lhs.key() == k {
				if ev.rhs.k == "struct" {
					return place
				}
				return ev.rhs
			}
			if ev.lhs.k == place.k {
				switch place.k {
				case "field":
					if ev.lhs.obj == place.obj {
						return place
					}
				case "index":
					if ev.lhs.xs[0].key() == place.xs[0].key() {
						return place
					}
				default:
					return place
				}
			}
		}
	}
	return place
}

// evalN evaluates several expressions left to right (forking as needed) and combines their values.
func (it *c11Interp) evalN(fr *c11Frame, st *c11St, es []ast.Expr, f func(*c11St, []*c11V) *c11V) []c11SV {
	type part struct {
		st *c11St
		vs []*c11V
	}
	cur := []part{{st: st}}
	for _, e := range es {
		var next []part
		for _, p := range cur {
			for _, r := range it.eval(fr, p.st, e) {
				v := r.v
				if v == nil && len(r.vs) > 0 {
					v = r.vs[0]
				}
				if v == nil {
					v = it.unk(r.st, "no value")
				}
				next = append(next, part{st: r.st, vs: append(append([]*c11V(nil), p.vs...), v)})
			}
		}
		cur = next
	}
	var out []c11SV
	for _, p := range cur {
		out = append(out, c11SV{st: p.st, v: f(p.st, p.vs)})
	}
	return out
}

func (it *c11Interp) evalLit(fr *c11Frame, st *c11St, x *ast.CompositeLit) []c11SV {
	info := fr.info
	t := info.TypeOf(x)
	if t == nil {
		return []c11SV{{st: st, v: it.unk(st, "literal type")}}
	}
	tt := t
	if p, ok := tt.Underlying().(*types.Pointer); ok { // elided &T in a slice of pointers
		tt = p.Elem()
	}
	stt, isStruct := tt.Underlying().(*types.Struct)
	var es []ast.Expr
	var keys []string
	for i, el := range x.Elts {
		if kv, ok := el.(*ast.KeyValueExpr); ok {
			es = append(es, kv.Value)
			if id, ok := kv.Key.(*ast.Ident); ok && isStruct {
				keys = append(keys, id.Name)
			} else {
				keys = append(keys, "")
			}
		} else {
			es = append(es, el)
			if isStruct && i < stt.NumFields() {
				keys = append(keys, stt.Field(i).Name())
			} else {
				keys = append(keys, "")
			}
		}
	}
	return it.evalN(fr, st, es, func(s *c11St, vs []*c11V) *c11V {
		if !isStruct {
			if _, isSlice := t.Underlying().(*types.Slice); isSlice && it.concrete {
				return c11List(vs)
			}
			return &c11V{k: "lit", typ: t, xs: vs, id: it.fresh()}
		}
		o := &c11Obj{typ: tt, f: map[string]*c11V{}}
		for i, v := range vs {
			if keys[i] == "" {
				o.unkey = true
				continue
			}
			o.f[keys[i]] = v
		}
		id := it.fresh()
		s.heap[id] = o
		v := &c11V{k: "struct", id: id, typ: tt}
		if tt != t {
			return c11Addr(v)
		}
		return v
	})
}

func (it *c11Interp) evalCall(fr *c11Frame, st *c11St, call *ast.CallExpr) []c11SV {
	info := fr.info
	// conversion: the operand passes through
	if tv, ok := info.Types[call.Fun]; ok && tv.IsType() && len(call.Args) == 1 {
		return it.eval(fr, st, call.Args[0])
	}
	if bn := builtinName(info, call); bn != "" {
		if bn == "panic" {
			var out []c11SV
			for _, r := range it.evalN(fr, st, call.Args, func(s *c11St, vs []*c11V) *c11V { return c11Nil() }) {
				out = append(out, c11SV{st: r.st, v: it.unk(r.st, "panic")}) // statement-level panics end the path in exec
			}
			return out
		}
		var args []ast.Expr
		for _, a := range call.Args {
			if tv, ok := info.Types[a]; ok && tv.IsType() {
				continue // make([]T, n): the type argument
			}
			args = append(args, a)
		}
		var mk types.Type
		if bn == "make" || bn == "new" {
			mk = info.TypeOf(call)
		}
		return it.evalN(fr, st, args, func(s *c11St, vs []*c11V) *c11V {
			for i := range vs {
				vs[i] = it.copyStruct(s, vs[i]) // struct values are passed / appended by value
			}
			if v, ok := it.listBuiltin(fr, s, bn, call, vs); ok {
				return v
			}
			v := &c11V{k: "call", name: bn, xs: vs, typ: mk}
			if bn == "make" || bn == "new" {
				v.name = bn + "@" + strconv.Itoa(int(call.Pos())) + fr.path
			}
			if bn == "append" {
				v.typ = info.TypeOf(call)
				s.ev = append(s.ev, c11Ev{kind: "call", call: v, node: call, nas: len(s.as), fr: fr.path})
			}
			if bn == "delete" || bn == "clear" {
				s.ev = append(s.ev, c11Ev{kind: "call", call: v, node: call, nas: len(s.as), fr: fr.path})
			}
			return v
		})
	}
	fn := callee(info, call)
	var recvE ast.Expr
	if fn != nil && fn.Type().(*types.Signature).Recv() != nil {
		if sel, ok := ast.Unparen(call.Fun).(*ast.SelectorExpr); ok {
			recvE = sel.X
		}
	}
	es := []ast.Expr{}
	if recvE != nil {
		es = append(es, recvE)
	} else if fn == nil {
		es = append(es, call.Fun) // function value
	}
	es = append(es, call.Args...)
	var out []c11SV
	static := fn
	for _, r := range it.evalN(fr, st, es, func(s *c11St, vs []*c11V) *c11V { return &c11V{k: "lit", xs: vs} }) {
		vs := r.v.xs
		fn := static
		boundRecv := false
		if fn == nil && len(vs) > 0 && vs[0].k == "func" && vs[0].fn.Type().(*types.Signature).Recv() == nil {
			// a named function held in a variable, parameter or struct field: the call is the call of that function
			fn, vs = vs[0].fn, vs[1:]
		} else if fn == nil && len(vs) > 0 && vs[0].k == "func" && len(vs[0].xs) == 1 {
			// a method value: the call is the method call on the receiver it was taken from
			fn, vs = vs[0].fn, append([]*c11V{vs[0].xs[0]}, vs[1:]...)
			boundRecv = true
		}
		if fn != nil {
			if fi := it.funcs[fn]; fi != nil && fi.Decl.Body != nil && it.inline(fn) && fr.depth < 4 && !it.onStack(fr, fn) {
				var recv *c11V
				args := vs
				if recvE != nil || boundRecv {
					recv, args = vs[0], vs[1:]
				}
				for _, o := range it.callInline(fr, r.st, fi, recv, args, call) {
					switch {
					case o.ctl == c11Panic:
						it.done = append(it.done, o)
					case len(o.res) == 1:
						out = append(out, c11SV{st: o.st, v: o.res[0]})
					default:
						out = append(out, c11SV{st: o.st, vs: o.res})
					}
				}
				continue
			}
			for i := range vs {
				vs[i] = it.copyStruct(r.st, vs[i])
			}
			v := &c11V{k: "call", fn: fn, xs: vs, recv: recvE != nil || boundRecv}
			r.st.ev = append(r.st.ev, c11Ev{kind: "call", call: v, node: call, nas: len(r.st.as), fr: fr.path})
			out = append(out, c11SV{st: r.st, v: v})
			continue
		}
		if f := vs[0]; fn == nil && f.k == "funclit" && fr.depth < 5 && !strings.Contains(fr.path, "/lit@"+strconv.Itoa(int(f.node.Pos()))+"#") {
			// A function literal is executed in place on the environment of the frame that created it: the
			// current one (local closure) or a caller still on the stack (closure handed to a helper).
			lit := f.node.(*ast.FuncLit)
			owner := -2 // -1: the current environment; >= 0: index in the stack of callers
			if f.name == fr.envP {
				owner = -1
			} else {
				for i := len(r.st.stack) - 1; i >= 0; i-- {
					if r.st.stack[i].path == f.name {
						owner = i
						break
					}
				}
			}
			if cf := it.litInfo[lit]; owner != -2 && cf != nil {
				st := r.st
				if owner >= 0 {
					callee := st.env
					st.env = st.stack[owner].env
					st.stack = append(st.stack, c11Saved{path: "(suspended)", env: callee})
				}
				nf := &c11Frame{pk: cf.pk, info: cf.info, fi: nil, lit: lit, envP: f.name, depth: fr.depth + 1,
					path: fr.path + "/lit@" + strconv.Itoa(int(lit.Pos())) + "#" + strconv.Itoa(int(call.Pos()))}
				i := 1
				for _, fl := range lit.Type.Params.List {
					for _, nm := range fl.Names {
						if o := cf.info.Defs[nm]; o != nil && i < len(vs) {
							st.env[o] = it.copyStruct(st, vs[i])
						}
						i++
					}
					if len(fl.Names) == 0 {
						i++
					}
				}
				if lit.Type.Results != nil {
					for _, fl := range lit.Type.Results.List {
						for _, nm := range fl.Names {
							if o, ok := cf.info.Defs[nm].(*types.Var); ok {
								st.env[o] = it.zeroOf(st, o.Type())
							}
						}
					}
				}
				for _, o := range it.execList(nf, st, lit.Body.List) {
					if o.ctl == c11Return && len(o.res) == 0 && lit.Type.Results != nil {
						for _, fl := range lit.Type.Results.List {
							for _, nm := range fl.Names {
								if ro, ok := cf.info.Defs[nm].(*types.Var); ok {
									o.res = append(o.res, o.st.env[ro])
								}
							}
						}
					}
					if owner >= 0 {
						n := len(o.st.stack)
						top := o.st.stack[n-1]
						o.st.stack = o.st.stack[:n-1]
						o.st.stack[owner].env = o.st.env
						o.st.env = top.env
					}
					switch o.ctl {
					case c11Panic:
						it.done = append(it.done, o)
					case c11Return, c11Normal:
						switch len(o.res) {
						case 0:
							out = append(out, c11SV{st: o.st, v: it.unk(o.st, "no value")})
						case 1:
							out = append(out, c11SV{st: o.st, v: o.res[0]})
						default:
							out = append(out, c11SV{st: o.st, vs: o.res})
						}
					default:
						o.st.note("stray control transfer out of a function literal")
						out = append(out, c11SV{st: o.st, v: it.unk(o.st, "no value")})
					}
				}
				continue
			}
		}
		v := &c11V{k: "callv", xs: vs}
		r.st.ev = append(r.st.ev, c11Ev{kind: "call", call: v, node: call, nas: len(r.st.as), fr: fr.path})
		out = append(out, c11SV{st: r.st, v: v})
	}
	return out
}

func (it *c11Interp) onStack(fr *c11Frame, fn *types.Func) bool {
	// the call path spells the functions entered; a function already on it is not entered again
	return (fr.fi != nil && fr.fi.Obj == fn) || c11OnPath(fr.path, fn)
}

func c11OnPath(path string, fn *types.Func) bool {
	return strings.Contains(path, "/"+fn.FullName()+"@")
}
