package rules

import "osmcheck/core"

// Round 8: wrappers and one-element slices handed out from per-call blocks instead of being allocated one by one.

// c13BlockCreates: one slot per iteration, indexed by the loop index.
const c13BlockCreates = `	if o := change.Create; o != nil {
		list := o.Nodes
		boxes, cells := make([]osm.OSM, len(list)), make(osm.Nodes, len(list))
		for i, n := range list {
			n.Visible = true
			cells[i] = n
			boxes[i].Nodes = cells[i : i+1 : i+1]
			actions = append(actions, osm.Action{Type: osm.ActionCreate, OSM: &boxes[i]})
		}

		wboxes, wcells := make([]osm.OSM, len(o.Ways)), make(osm.Ways, len(o.Ways))
		for i := range o.Ways {
			w := o.Ways[i]
			w.Visible = true
			wcells[i] = w
			box := &wboxes[i]
			box.Ways = wcells[i : i+1 : i+1]
			actions = append(actions, osm.Action{Type: osm.ActionCreate, OSM: box})
		}

		for _, r := range o.Relations {
			r.Visible = true
			actions = append(actions, osm.Action{
				Type: osm.ActionCreate,
				OSM:  &osm.OSM{Relations: osm.Relations{r}},
			})
		}
	}
`

// c13BlockNodeLoop: a window of the block slid forward by the slots each element used.
const c13BlockNodeLoop = `	boxes, cells := make([]osm.OSM, 2*len(o.Nodes)), make(osm.Nodes, 2*len(o.Nodes))
	for _, n := range o.Nodes {
		old, err := findPreviousNode(ctx, n, ds, ignoreMissing)
		if err != nil {
			if e := checkErr(ds, ignoreMissing, err, n.FeatureID()); e != nil {
				return nil, e
			}
		}

		if old == nil {
			n.Visible = true
			cells[0] = n
			boxes[0].Nodes = cells[:1:1]
			actions = append(actions, osm.Action{Type: osm.ActionCreate, OSM: &boxes[0]})
			boxes, cells = boxes[1:], cells[1:]
			continue
		}

		n.Visible = currentVisible
		cells[0], cells[1] = old, n
		boxes[0].Nodes, boxes[1].Nodes = cells[:1:1], cells[1:2:2]
		actions = append(actions, osm.Action{Type: actionType, Old: &boxes[0], New: &boxes[1]})
		boxes, cells = boxes[2:], cells[2:]
	}
`

var c13Benign8 = []core.Mutant{
	{Name: "creates-from-per-call-blocks", File: c13Chg, Find: c13SrcCreate, Replace: c13BlockCreates},
	{Name: "node-wrappers-from-sliding-window", File: c13Chg, Find: c13SrcNodeLoop, Replace: c13BlockNodeLoop},
	{Name: "checkerr-only-for-non-nil-error", File: c13Chg,
		Find:    "\t\tif e := checkErr(ds, ignoreMissing, err, w.FeatureID()); e != nil {\n\t\t\treturn nil, e\n\t\t}\n",
		Replace: "\t\tif err != nil {\n\t\t\tif e := checkErr(ds, ignoreMissing, err, w.FeatureID()); !(e == nil) {\n\t\t\t\treturn nil, e\n\t\t\t}\n\t\t}\n"},
	{Name: "own-version-cached-after-history-call", File: c13Chg,
		Find:    "\tloc, max := -1, -1\n\tfor i, way := range ways {\n\t\tif v := way.Version; v < w.Version && v > max {",
		Replace: "\town := w.Version\n\tloc, max := -1, -1\n\tfor i, way := range ways {\n\t\tif v := way.Version; v < own && v > max {"},
}

var c13Mutants8 = []core.Mutant{
	{Name: "block-view-two-index", File: c13Chg, Find: c13SrcCreate, Replace: c13Sub(c13BlockCreates, "boxes[i].Nodes = cells[i : i+1 : i+1]", "boxes[i].Nodes = cells[i : i+1]"),
		ExpectRule: "S4", ExpectConstruct: "create@Node"},
	{Name: "block-slot-shared-by-all-elements", File: c13Chg, Find: c13SrcCreate,
		Replace:    c13Sub(c13BlockCreates, "\t\t\tbox := &wboxes[i]\n", "\t\t\tbox := &wboxes[0]\n"),
		ExpectRule: "S5", ExpectConstruct: "effects@Create/Way"},
	{Name: "block-element-not-stored", File: c13Chg, Find: c13SrcCreate, Replace: c13Sub(c13BlockCreates, "\t\t\tcells[i] = n\n", ""),
		ExpectRule: "S4", ExpectConstruct: "create@Node"},
	{Name: "window-not-advanced-on-fallback", File: c13Chg, Find: c13SrcNodeLoop,
		Replace:    c13Sub(c13BlockNodeLoop, "\t\t\tboxes, cells = boxes[1:], cells[1:]\n\t\t\tcontinue", "\t\t\tcontinue"),
		ExpectRule: "S5", ExpectConstruct: "effects@Modify/Node"},
	{Name: "window-advanced-by-one-after-two-slots", File: c13Chg, Find: c13SrcNodeLoop,
		Replace:    c13Sub(c13BlockNodeLoop, "\t\tboxes, cells = boxes[2:], cells[2:]\n", "\t\tboxes, cells = boxes[1:], cells[1:]\n"),
		ExpectRule: "S5", ExpectConstruct: "effects@Delete/Node"},
	{Name: "window-old-and-new-share-a-slot", File: c13Chg, Find: c13SrcNodeLoop,
		Replace:    c13Sub(c13BlockNodeLoop, "Old: &boxes[0], New: &boxes[1]}", "Old: &boxes[0], New: &boxes[0]}"),
		ExpectRule: "S4", ExpectConstruct: "update@Modify/Node"},
	{Name: "cached-own-version-read-from-history-entry", File: c13Chg,
		Find:       "\tloc, max := -1, -1\n\tfor i, way := range ways {\n\t\tif v := way.Version; v < w.Version && v > max {",
		Replace:    "\town := 0\n\tif len(ways) > 0 {\n\t\town = ways[0].Version\n\t}\n\tloc, max := -1, -1\n\tfor i, way := range ways {\n\t\tif v := way.Version; v < own && v > max {",
		ExpectRule: "S2", ExpectConstruct: "select@Way"},
}

// c13Benign8b: a lazily allocated action list (nil until the first action).
var c13Benign8b = []core.Mutant{
	{Name: "creates-list-allocated-lazily", File: c13Chg, Find: c13SrcCreate,
		Replace: c13Sub(c13SrcCreate, "\t\t\tn.Visible = true\n", "\t\t\tn.Visible = true\n\t\t\tif actions == nil {\n\t\t\t\tactions = make([]osm.Action, 0, len(o.Nodes))\n\t\t\t}\n")},
}

var c13Mutants8b = []core.Mutant{
	{Name: "lazy-list-reallocated-every-element", File: c13Chg, Find: c13SrcCreate,
		Replace:    c13Sub(c13SrcCreate, "\t\t\tw.Visible = true\n", "\t\t\tw.Visible = true\n\t\t\tif len(actions) > 0 {\n\t\t\t\tactions = make([]osm.Action, 0, len(o.Ways))\n\t\t\t}\n"),
		ExpectRule: "S3", ExpectConstruct: "one-action@Create/Way"},
}
