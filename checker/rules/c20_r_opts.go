package rules

import (
	"fmt"
	"go/types"
	"sort"
	"strings"
)

// H4 base@: the method(s) of Datasource that compute the base URL (role: no parameters, one string result):
// the configured BaseURL when it is non-empty, otherwise the exported default constant.
func (cx *c20Ctx) baseURLCheck(tab *c20Table) {
	r := cx.r
	d, ok := cx.defaultBase()
	if !ok {
		r.Anchor("osmapi.BaseURL (exported default base URL constant)")
		return
	}
	var cands []*FuncInfo
	for _, fi := range cx.funcs {
		sig := c20Sig(fi.Obj)
		if sig.Recv() == nil || namedPath(sig.Recv().Type()) != cx.dsType || sig.Params().Len() != 0 || sig.Results().Len() != 1 {
			continue
		}
		if b, ok := sig.Results().At(0).Type().Underlying().(*types.Basic); ok && b.Info()&types.IsString != 0 {
			cands = append(cands, fi)
		}
	}
	okDefault := (strings.HasPrefix(d, "http://") || strings.HasPrefix(d, "https://")) && strings.HasSuffix(d, tab.BasePathSuffix)
	if len(cands) == 0 {
		if !okDefault {
			r.Bad("base@default", cx.getFn.Decl.Pos(), "default base URL %q is not an absolute URL ending in %s", d, tab.BasePathSuffix)
			return
		}
		r.OKTrivial("base@default", cx.getFn.Decl.Pos(), "no separate base-URL method; the choice between the configured and the default base URL %q is evaluated inside every endpoint (path@ obligations)", d)
		return
	}
	for _, fi := range cands {
		c := "base@" + fi.Name()
		run := cx.runWith(fi, tab.OptionSeparator, func(*types.Func) string { return "" })
		if why, a := run.abortText(cx); why != "" {
			r.Unknown(c, a.whyAt.Pos(), "%s could not be executed symbolically: %s", fi.Name(), why)
			continue
		}
		bad := ""
		nCfg, nDef := 0, 0
		for _, st := range run.rets {
			v := st.ret[0]
			cfg, known := st.fact("nonempty:recv.BaseURL")
			got := ""
			if v.k == c20kStr {
				got = cx.normURL(v.sym, st).render(nil)
			}
			switch {
			case v.k != c20kStr:
				bad = fmt.Sprintf("`%s` returns %s, neither the configured BaseURL nor the default constant", src(r.P.Fset, st.retAt), v.String())
			case got != "{base}":
				how := "without testing whether the configured BaseURL is empty"
				if known && cfg {
					how = "although the configured BaseURL is non-empty: a configured base URL is ignored"
				} else if known {
					how = "although the configured BaseURL is empty: an empty base URL is used"
				}
				bad = fmt.Sprintf("`%s` returns `%s` %s", src(r.P.Fset, st.retAt), v.sym.render(nil), how)
			case cfg:
				nCfg++
			default:
				nDef++
			}
		}
		switch {
		case bad != "":
			r.Bad(c, fi.Decl.Pos(), "%s", bad)
		case !okDefault:
			r.Bad(c, fi.Decl.Pos(), "default base URL %q is not an absolute URL ending in %s", d, tab.BasePathSuffix)
		case nCfg == 0 || nDef == 0:
			r.Unknown(c, fi.Decl.Pos(), "%s does not distinguish a configured from an empty BaseURL", fi.Name())
		default:
			r.OK(c, fi.Decl.Pos(), "returns the configured BaseURL exactly when it is non-empty, otherwise the constant absolute URL %q ending in %s", d, tab.BasePathSuffix)
		}
	}
}

type c20Iv struct{ lo, hi int64 }

const c20Inf = int64(1) << 60

// H6 options: constructor, apply method and range test of one option of the table.
func (cx *c20Ctx) optionCheck(op c20Option, tab *c20Table) {
	r := cx.r
	cc, ca, cr := "ctor@"+op.Ctor, "apply@"+op.Ctor, "range@"+op.Ctor
	ctor := findFunc(cx.pk, op.Ctor)
	if ctor == nil || c20Sig(ctor.Obj).Recv() != nil || c20Sig(ctor.Obj).Params().Len() != 1 || c20Sig(ctor.Obj).Results().Len() != 1 {
		r.Anchor("osmapi." + op.Ctor + "(value) option constructor")
		return
	}
	sig := c20Sig(ctor.Obj)
	x0 := c20NewSX(cx, ctor, nil)
	resT := sig.Results().At(0).Type()
	if k := x0.optKind(resT); k != op.Kind {
		r.Bad(cc, ctor.Decl.Pos(), "%s returns a %s; the table lists it as a %s option", op.Ctor, resT, op.Kind)
		return
	}
	iface := resT.Underlying().(*types.Interface)
	if iface.NumMethods() != 1 {
		r.Anchor("single apply method of " + resT.String())
		return
	}
	// constructor: every path returns a fresh option value one field of which is the parameter
	run := cx.runWith(ctor, tab.OptionSeparator, func(*types.Func) string { return "" })
	if why, a := run.abortText(cx); why != "" {
		r.Unknown(cc, a.whyAt.Pos(), "%s could not be executed symbolically: %s", op.Ctor, why)
		return
	}
	var optT *types.Named
	field := ""
	for _, st := range run.rets {
		v := st.ret[0]
		nt, _ := v.typ.(*types.Named)
		f := ""
		for name, fv := range st.fieldsOf(v) {
			if c20IsInput(fv, "p0") {
				f = name
			}
		}
		if v.k != c20kObj || nt == nil || f == "" || (optT != nil && (optT != nt || field != f)) {
			r.Unknown(cc, cx.posOf(st, ctor.Decl.Pos()), "`%s` does not return an option value holding exactly the parameter (got %s)", src(r.P.Fset, st.retAt), v.String())
			return
		}
		optT, field = nt, f
	}
	if optT == nil {
		r.Unknown(cc, ctor.Decl.Pos(), "%s never returns", op.Ctor)
		return
	}
	r.OK(cc, ctor.Decl.Pos(), "%s(%s) returns &%s{%s: %s}", op.Ctor, sig.Params().At(0).Name(), optT.Obj().Name(), field, sig.Params().At(0).Name())

	// apply method of the option type
	mname := iface.Method(0).Name()
	var ap *FuncInfo
	if sel := types.NewMethodSet(types.NewPointer(optT)).Lookup(cx.pk.Types, mname); sel != nil {
		if fn, ok := sel.Obj().(*types.Func); ok {
			ap = cx.byObj[fn]
		}
	}
	if ap == nil || c20Sig(ap.Obj).Params().Len() != 1 || c20Sig(ap.Obj).Results().Len() != 2 {
		r.Anchor("(*" + optT.Obj().Name() + ")." + mname + "([]string) ([]string, error)")
		return
	}
	x := c20NewSX(cx, ap, func(*types.Func) string { return "" })
	x.sep = tab.OptionSeparator
	x.preset = map[int]c20V{0: {k: c20kList, in: true}}
	want := op.Key + "={recv." + field + "}"
	if op.Value == "time" {
		zone := "local"
		if op.UTC {
			zone = "utc"
		}
		want = op.Key + "={" + zone + ":" + op.TimeLayout + ":recv." + field + "}"
	}
	var ivs []c20Iv
	nSucc := 0
	rangeUnk := ""
	for _, st := range x.run() {
		if st.ctl == c20cAbort {
			r.Unknown(ca, ap.Decl.Pos(), "%s could not be executed symbolically: %s", ap.Name(), st.why)
			return
		}
		if !c20IsSuccess(st) {
			continue
		}
		nSucc++
		l := st.ret[0]
		if l.k != c20kList || !l.in || l.star != nil || len(l.elems) != 1 {
			r.Bad(ca, cx.posOf(st, ap.Decl.Pos()), "`%s` returns %s, not the incoming parameter list with exactly one string appended: other options would be lost or duplicated", src(r.P.Fset, st.retAt), l.String())
			return
		}
		if got := c20MergeLits(l.elems[0]).render(nil); got != want {
			r.Bad(ca, cx.posOf(st, ap.Decl.Pos()), "%s appends `%s`; the documented parameter is `%s` (recv.%s is the value given to %s)", ap.Name(), got, want, field, op.Ctor)
			return
		}
		lo, hi, exact := st.interval("recv."+field, -c20Inf, c20Inf)
		if !exact || len(st.notes) > 0 {
			rangeUnk = "the set of accepted values is not an interval decided by comparisons with constants (" + st.factText() + " " + strings.Join(st.notes, "; ") + ")"
		}
		ivs = append(ivs, c20Iv{lo, hi})
	}
	if nSucc == 0 {
		r.Unknown(ca, ap.Decl.Pos(), "no path of %s returns a nil error", ap.Name())
		return
	}
	r.OK(ca, ap.Decl.Pos(), "every path returning a nil error appends exactly `%s` to the incoming list; recv.%s is the constructor's argument", want, field)
	if op.Min == nil && op.Max == nil {
		return
	}
	sort.Slice(ivs, func(i, j int) bool { return ivs[i].lo < ivs[j].lo })
	merged := []c20Iv{ivs[0]}
	for _, iv := range ivs[1:] {
		last := &merged[len(merged)-1]
		if iv.lo <= last.hi+1 {
			if iv.hi > last.hi {
				last.hi = iv.hi
			}
		} else {
			merged = append(merged, iv)
		}
	}
	text := func(iv c20Iv) string {
		lo, hi := "-inf", "+inf"
		if iv.lo > -c20Inf {
			lo = c20Itoa(iv.lo)
		}
		if iv.hi < c20Inf {
			hi = c20Itoa(iv.hi)
		}
		return lo + ".." + hi
	}
	switch {
	case rangeUnk != "":
		r.Unknown(cr, ap.Decl.Pos(), "%s: %s", ap.Name(), rangeUnk)
	case len(merged) != 1 || merged[0].lo != *op.Min || merged[0].hi != *op.Max:
		var ts []string
		for _, iv := range merged {
			ts = append(ts, text(iv))
		}
		r.Bad(cr, ap.Decl.Pos(), "%s appends the parameter for values %s; API v0.6 allows %d..%d: out-of-range values are sent to the server (or valid ones rejected)", ap.Name(), strings.Join(ts, ", "), *op.Min, *op.Max)
	default:
		r.OK(cr, ap.Decl.Pos(), "the tests passed on the path(s) that append imply %d <= %s <= %d; every other value ends in an error return", *op.Min, field, *op.Max)
	}
}

// H6 join@: package-level functions whose only parameter is an option slice and that return (string, error):
// the options' strings in argument order joined with the separator, the first option error returned.
func (cx *c20Ctx) joinCheck(tab *c20Table) {
	r := cx.r
	n := 0
	for _, fi := range cx.funcs {
		sig := c20Sig(fi.Obj)
		if sig.Recv() != nil || sig.Params().Len() != 1 || sig.Results().Len() != 2 || !c20IsErrorType(sig.Results().At(1).Type()) {
			continue
		}
		sl, ok := sig.Params().At(0).Type().Underlying().(*types.Slice)
		x := c20NewSX(cx, fi, nil)
		if !ok || x.optKind(sl.Elem()) == "" {
			continue
		}
		kind := x.optKind(sl.Elem())
		n++
		c := "join@" + fi.Name()
		run := cx.runWith(fi, tab.OptionSeparator, func(*types.Func) string { return "" })
		if why, a := run.abortText(cx); why != "" {
			r.Unknown(c, a.whyAt.Pos(), "%s could not be executed symbolically: %s", fi.Name(), why)
			continue
		}
		var paths []c20Path
		bad := ""
		for _, st := range run.rets {
			if !c20IsSuccess(st) {
				if last := st.ret[1]; !(last.k == c20kObj && last.tag == "err" && last.name == "option") {
					bad = fmt.Sprintf("`%s` returns %s instead of the failing option's error", src(r.P.Fset, st.retAt), last.String())
				}
				continue
			}
			if st.ret[0].k != c20kStr {
				bad = fmt.Sprintf("`%s` returns %s", src(r.P.Fset, st.retAt), st.ret[0].String())
				continue
			}
			paths = append(paths, c20Path{sym: cx.normURL(st.ret[0].sym, st), st: st})
		}
		sym, why := c20MergeURLs(paths)
		want := "{" + kind + ":opts}"
		switch {
		case bad != "":
			r.Bad(c, fi.Decl.Pos(), "%s", bad)
		case why != "":
			r.Unknown(c, fi.Decl.Pos(), "%s: %s", fi.Name(), why)
		case sym.render(map[int]string{0: "opts"}) != want:
			r.Bad(c, fi.Decl.Pos(), "%s yields `%s`, not the option strings of the parameter joined with %q (`%s`)", fi.Name(), sym.render(map[int]string{0: "opts"}), tab.OptionSeparator, want)
		default:
			r.OK(c, fi.Decl.Pos(), "applies every option in argument order to an initially empty list, returns the first option error, joins with %q (\"\" only for no options)", tab.OptionSeparator)
		}
	}
	if n == 0 {
		r.OKTrivial("join@inline", cx.getFn.Decl.Pos(), "no separate option-joining function; the joining is evaluated inside every endpoint (path@ obligations)")
	}
}
