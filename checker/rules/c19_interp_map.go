package rules

// c19_interp_map.go — lookup tables in the abstract evaluator: map literals with concrete keys (`switch` rewritten
// as a table: suffix per kind, directory per type) and bytes.Buffer as a string builder.

import (
	"go/ast"
	"go/constant"
	"go/token"
	"go/types"
)

// c19MapVal is a map built by a composite literal (and later stores) whose keys are concrete values.
type c19MapVal struct {
	keys, vals *[]c19Value
	elem       types.Type
}

func (in *c19Interp) evalMapLit(x *ast.CompositeLit, mt *types.Map, env *c19Env) c19Value {
	keys, vals := []c19Value{}, []c19Value{}
	for _, el := range x.Elts {
		kv, ok := el.(*ast.KeyValueExpr)
		if !ok {
			return in.opaque(in.info.TypeOf(x), in.src(x))
		}
		k := c19Retype(in.eval(kv.Key, env), mt.Key())
		if _, concrete := k.(c19Const); !concrete {
			return in.opaque(in.info.TypeOf(x), in.src(x))
		}
		keys = append(keys, k)
		vals = append(vals, c19CopyVal(c19Retype(in.eval(kv.Value, env), mt.Elem())))
	}
	return c19MapVal{keys: &keys, vals: &vals, elem: mt.Elem()}
}

// mapIndex looks a concrete key up: (value, present, decided).
func (in *c19Interp) mapIndex(mv c19MapVal, key c19Value) (c19Value, bool, bool) {
	kc, ok := key.(c19Const)
	if !ok {
		return nil, false, false
	}
	for i, k := range *mv.keys {
		c := k.(c19Const)
		if c.v.Kind() == kc.v.Kind() && constant.Compare(c.v, token.EQL, kc.v) {
			return (*mv.vals)[i], true, true
		}
	}
	return in.zero(mv.elem), false, true
}

func (in *c19Interp) mapStore(mv c19MapVal, key, v c19Value) bool {
	kc, ok := key.(c19Const)
	if !ok {
		return false
	}
	for i, k := range *mv.keys {
		c := k.(c19Const)
		if c.v.Kind() == kc.v.Kind() && constant.Compare(c.v, token.EQL, kc.v) {
			(*mv.vals)[i] = v
			return true
		}
	}
	*mv.keys = append(*mv.keys, key)
	*mv.vals = append(*mv.vals, v)
	return true
}

// c19Int64 is constant.Int64Val without its panic on a value that is not an integer.
func c19Int64(v constant.Value) (int64, bool) {
	if v == nil || v.Kind() != constant.Int {
		return 0, false
	}
	return constant.Int64Val(v)
}

// evalSlice evaluates s[lo:hi] on a concrete string or slice with concrete bounds (zero padding by
// `"000"[len(s):] + s`, trimming a prefix), opaque otherwise.
func (in *c19Interp) evalSlice(x *ast.SliceExpr, env *c19Env) c19Value {
	base := in.eval(x.X, env)
	bound := func(e ast.Expr, def int64) (int64, bool) {
		if e == nil {
			return def, true
		}
		return c19AsInt(in.eval(e, env))
	}
	opaque := func() c19Value { return in.opaque(in.info.TypeOf(x), in.src(x)) }
	if x.Slice3 {
		return opaque()
	}
	switch b := base.(type) {
	case c19Const:
		str, ok := c19AsString(b)
		if !ok {
			return opaque()
		}
		lo, ok1 := bound(x.Low, 0)
		hi, ok2 := bound(x.High, int64(len(str)))
		if !ok1 || !ok2 {
			return opaque()
		}
		if lo < 0 || hi < lo || hi > int64(len(str)) {
			panic(c19Abort{why: "panic"})
		}
		return c19Const{v: constant.MakeString(str[lo:hi]), typ: b.typ}
	case c19Slice:
		lo, ok1 := bound(x.Low, 0)
		hi, ok2 := bound(x.High, int64(len(b.elems)))
		if !ok1 || !ok2 {
			return opaque()
		}
		if lo < 0 || hi < lo || hi > int64(len(b.elems)) {
			panic(c19Abort{why: "panic"})
		}
		return c19Slice{elems: b.elems[lo:hi]}
	}
	return opaque()
}

// havoc forgets what is known about the objects reachable from v (a pointer, a struct, a closure's captured
// variables): a function that could not be evaluated was handed them.
func (in *c19Interp) havoc(v c19Value, by string, depth int) {
	if depth > 3 {
		return
	}
	switch x := v.(type) {
	case c19Ptr:
		in.havoc(x.obj, by, depth)
	case *c19Obj:
		if x.havoc != "" {
			return
		}
		x.havoc = by
		for f := range x.fields {
			x.fields[f] = in.opaque(f.Type(), f.Name()+" after "+by)
		}
		x.sbBad = true
	case c19CellPtr:
		x.cell.v = in.opaque(types.Typ[types.Invalid], "variable after "+by)
	case c19Closure:
		for e := x.env; e != nil; e = e.parent {
			for o, c := range e.vars {
				switch c.v.(type) {
				case c19Ptr, *c19Obj:
					in.havoc(c.v, by, depth+1)
				case c19Closure, c19FuncVal, c19Nil:
				default:
					c.v = in.opaque(o.Type(), o.Name()+" after "+by)
				}
			}
		}
	}
}
