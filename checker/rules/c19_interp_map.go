package rules

// c19_interp_map.go — lookup tables in the abstract evaluator: map literals with concrete keys (`switch` rewritten
// as a table: suffix per kind, directory per type) and bytes.Buffer as a string builder.

import (
	"go/ast"
	"go/constant"
	"go/token"
	"go/types"
)

// c19MapVal is a map built by a composite literal (and later stores) whose keys are concrete values.
type c19MapVal struct {
	keys, vals *[]c19Value
	elem       types.Type
}

func (in *c19Interp) evalMapLit(x *ast.CompositeLit, mt *types.Map, env *c19Env) c19Value {
	keys, vals := []c19Value{}, []c19Value{}
	for _, el := range x.Elts {
		kv, ok := el.(*ast.KeyValueExpr)
		if !ok {
			return in.opaque(in.info.TypeOf(x), in.src(x))
		}
		k := c19Retype(in.eval(kv.Key, env), mt.Key())
		if _, concrete := k.(c19Const); !concrete {
			return in.opaque(in.info.TypeOf(x), in.src(x))
		}
		keys = append(keys, k)
		vals = append(vals, c19CopyVal(c19Retype(in.eval(kv.Value, env), mt.Elem())))
	}
	return c19MapVal{keys: &keys, vals: &vals, elem: mt.Elem()}
}

// mapIndex looks a concrete key up: (value, present, decided).
func (in *c19Interp) mapIndex(mv c19MapVal, key c19Value) (c19Value, bool, bool) {
	kc, ok := key.(c19Const)
	if !ok {
		return nil, false, false
	}
	for i, k := range *mv.keys {
		c := k.(c19Const)
		if c.v.Kind() == kc.v.Kind() && constant.Compare(c.v, token.EQL, kc.v) {
			return (*mv.vals)[i], true, true
		}
	}
	return in.zero(mv.elem), false, true
}

func (in *c19Interp) mapStore(mv c19MapVal, key, v c19Value) bool {
	kc, ok := key.(c19Const)
	if !ok {
		return false
	}
	for i, k := range *mv.keys {
		c := k.(c19Const)
		if c.v.Kind() == kc.v.Kind() && constant.Compare(c.v, token.EQL, kc.v) {
			(*mv.vals)[i] = v
			return true
		}
	}
	*mv.keys = append(*mv.keys, key)
	*mv.vals = append(*mv.vals, v)
	return true
}
