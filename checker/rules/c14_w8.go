package rules

import (
	"go/ast"
	"go/token"
	"go/types"
	"sort"
	"strings"

	"osmcheck/core"
)

// W8 no emission without a history: the contract between the DFS and the datasource
//
// The DFS emits an id once the history lookup returned a nil error (W3: not-found and other errors leave before the
// emission). "Never emits an id without history" therefore rests on the datasource: a nil error must come with a
// non-empty history. Datasources supplied by the user are trusted; the module's own in-memory datasource (the type(s) of
// the root package that implement the ordering's datasource interface, i.e. what OSM.HistoryDatasource() returns) is
// checked:
//
//	notfound@T.RelationHistory   every return with a nil error returns a value that the path has tested to be non-nil /
//	                             non-empty (`v == nil`, `len(v) == 0` on the looked-up VALUE). Key presence (`v, ok :=
//	                             m[id]`) or a test of the map as a whole is not that evidence: a key stored with a nil
//	                             history would be reported as found.
//	emit-needs-history@dfs       the DFS either guards the emission with its own test of the lookup result
//	                             (`len(relations) > 0`) or relies on that contract.
func c14W8(r *core.R) {
	m := c14Get(r)
	if m == nil {
		return
	}
	g, wf, fs := m.wg, m.walkFacts(), r.P.Fset
	iface, _ := m.fDS.Type().Underlying().(*types.Interface)
	root := r.P.Pkg("")
	if iface == nil || root == nil {
		r.Anchor("the ordering's datasource interface and the root package")
		return
	}

	// (a) the DFS's own evidence
	c := "emit-needs-history@dfs"
	nonEmpty := m.nonEmptyHistory()
	guarded := len(nonEmpty) > 0 && !g.reach([]*c14State{g.entry}, nil, nonEmpty.inverse().skip).hasNode(wf.emits...)

	// (b) the module's own datasource(s)
	type dsType struct {
		name string
		fn   *c14Fn
	}
	var dss []dsType
	scope := root.Types.Scope()
	for _, nm := range scope.Names() {
		tn, ok := scope.Lookup(nm).(*types.TypeName)
		if !ok {
			continue
		}
		nt, ok := tn.Type().(*types.Named)
		if !ok {
			continue
		}
		if _, isIface := nt.Underlying().(*types.Interface); isIface {
			continue
		}
		if !types.Implements(types.NewPointer(nt), iface) && !types.Implements(nt, iface) {
			continue
		}
		obj, _, _ := types.LookupFieldOrMethod(types.NewPointer(nt), true, root.Types, "RelationHistory")
		if fo, ok := obj.(*types.Func); ok {
			if fn := m.eng.declFn(fo); fn != nil {
				dss = append(dss, dsType{fn.name, fn})
			}
		}
	}
	sort.Slice(dss, func(i, j int) bool { return dss[i].name < dss[j].name })

	switch {
	case guarded:
		r.OK(c, nonEmpty.first().pos(), "every path to the emission takes the non-empty edge of `%s` on the lookup result: an id is emitted only with at least one version, whatever the datasource returns", m.nodeSrc(nonEmpty.first()))
	case len(wf.history) == 1:
		var names []string
		for _, d := range dss {
			names = append(names, d.name)
		}
		r.OKTrivial(c, wf.history[0].call.Pos(), "the DFS does not test the result of `%s` itself; a nil error is taken to come with a non-empty history (W3 sends not-found and errors away before the emission) — the contract checked below for the module's own datasource (%s), trusted for user datasources", src(fs, wf.history[0].call), strings.Join(names, ", "))
	default:
		r.Anchor("exactly one history lookup reached from the DFS")
	}

	for _, d := range dss {
		c := "notfound@" + d.name
		dg := m.eng.explore(d.name, d.fn, nil, nil, nil)
		if dg.truncated || d.fn.nres != 2 {
			r.Unknown(c, d.fn.pos(), "%s not explored (results: %d)", d.name, d.fn.nres)
			continue
		}
		var bad *c14State
		nFound := 0
		for _, s := range dg.exitStates() {
			ret, _ := s.n.ast.(*ast.ReturnStmt)
			vals := dg.returnVals(s.store, s.n.ctx, ret)
			if vals[1] != c14Nil {
				continue // a non-nil (or unknown, e.g. the not-found sentinel) error: classified by the caller
			}
			nFound++
			if vals[0] != c14NonNil {
				bad = s
			}
		}
		switch {
		case bad != nil:
			r.Bad(c, bad.n.pos(), "`%s` reports success (nil error) although the path has not found the returned history to be non-nil / non-empty (a test of the looked-up value such as `v == nil` or `len(v) == 0`; the presence of the key, or a test of the map as a whole, does not count): a key stored with a nil or empty history is reported as found, the child-first ordering does not take its not-found branch, walks zero versions and emits an id that has no history", m.nodeSrc(bad.n))
		case nFound == 0:
			r.Unknown(c, d.fn.pos(), "%s has no return with a nil error", d.name)
		default:
			r.OK(c, d.fn.pos(), "%d return(s) of %s with a nil error, each on a path that found the looked-up history non-nil / non-empty", nFound, d.name)
		}
	}
	if len(dss) == 0 {
		r.Anchor("a type of the root package implementing the ordering's datasource interface (osm.HistoryDatasource)")
	}
}

// nonEmptyHistory: the edges on which the result of the history lookup is known to hold at least one version
// (`len(relations) > 0` true, `len(relations) == 0` false, …).
func (m *c14Model) nonEmptyHistory() c14Edges {
	g := m.wg
	nonEmpty := c14Edges{}
	for _, n := range m.atoms(g) {
		v := m.atomVal(g, n)
		if v.k != 'b' {
			continue
		}
		isLen := func(a *c14Val) bool {
			return a != nil && a.k == 'C' && a.name == "len" && len(a.args) == 1 && m.isHistRels(a.args[0])
		}
		isK := func(a *c14Val, k string) bool { return a != nil && a.k == 'c' && a.key == "c("+k+")" }
		switch {
		case v.op == token.EQL && ((isLen(v.x) && isK(v.y, "0")) || (isLen(v.y) && isK(v.x, "0"))):
			nonEmpty[n] = -1
		case v.op == token.NEQ && ((isLen(v.x) && isK(v.y, "0")) || (isLen(v.y) && isK(v.x, "0"))):
			nonEmpty[n] = 1
		case v.op == token.LSS && isK(v.x, "0") && isLen(v.y), v.op == token.LEQ && isK(v.x, "1") && isLen(v.y):
			nonEmpty[n] = 1
		case v.op == token.LSS && isLen(v.x) && isK(v.y, "1"), v.op == token.LEQ && isLen(v.x) && isK(v.y, "0"):
			nonEmpty[n] = -1
		}
	}
	return nonEmpty
}
