package rules

import (
	"fmt"
	"os"
	"reflect"
	"strconv"
	"strings"
)

// ---- descriptor model (DESIGN §3.2): a small parser for osmformat.proto ------------------------------------

type c01Field struct {
	Label  string // optional, required, repeated
	Type   string // int32, sint64, bool, string, bytes, <MessageName>, <EnumName>
	Name   string
	Num    int
	Packed bool
	Delta  bool // trailing comment says DELTA coded / encoded
	IsMsg  bool
	IsEnum bool
}

type c01Message struct {
	Name   string
	Fields map[int]*c01Field
	Enums  map[string]bool
}

type c01Descriptor struct {
	Messages map[string]*c01Message
}

// c01ParseProto parses the subset of proto2 used by osmformat.proto.
func c01ParseProto(path string) (*c01Descriptor, error) {
	b, err := os.ReadFile(path)
	if err != nil {
		return nil, err
	}
	src := string(b)
	// strip /* */ comments, keep // comments (they carry DELTA markers)
	for {
		i := strings.Index(src, "/*")
		if i < 0 {
			break
		}
		j := strings.Index(src[i:], "*/")
		if j < 0 {
			return nil, fmt.Errorf("unterminated comment")
		}
		src = src[:i] + src[i+j+2:]
	}
	d := &c01Descriptor{Messages: map[string]*c01Message{}}
	var stack []*c01Message
	enumDepth := 0
	enumNames := map[string]bool{}
	for _, line := range strings.Split(src, "\n") {
		comment := ""
		if i := strings.Index(line, "//"); i >= 0 {
			comment = line[i+2:]
			line = line[:i]
		}
		line = strings.TrimSpace(line)
		if line == "" {
			continue
		}
		toks := strings.Fields(strings.NewReplacer("{", " { ", "}", " } ", ";", " ; ", "=", " = ", "[", " [ ", "]", " ] ").Replace(line))
		switch {
		case toks[0] == "message" && len(toks) >= 3:
			m := &c01Message{Name: toks[1], Fields: map[int]*c01Field{}, Enums: map[string]bool{}}
			d.Messages[m.Name] = m
			stack = append(stack, m)
		case toks[0] == "enum" && len(toks) >= 3:
			enumDepth++
			enumNames[toks[1]] = true
			if len(stack) > 0 {
				stack[len(stack)-1].Enums[toks[1]] = true
			}
		case toks[0] == "}":
			if enumDepth > 0 {
				enumDepth--
			} else if len(stack) > 0 {
				stack = stack[:len(stack)-1]
			}
		case enumDepth > 0:
			// enum value
		case (toks[0] == "optional" || toks[0] == "required" || toks[0] == "repeated") && len(toks) >= 5 && len(stack) > 0:
			num, err := strconv.Atoi(toks[4])
			if err != nil || toks[3] != "=" {
				return nil, fmt.Errorf("cannot parse field line %q", line)
			}
			f := &c01Field{Label: toks[0], Type: toks[1], Name: toks[2], Num: num}
			rest := strings.Join(toks[5:], " ")
			if strings.Contains(rest, "packed = true") {
				f.Packed = true
			}
			up := strings.ToUpper(comment)
			if strings.Contains(up, "DELTA CODED") || strings.Contains(up, "DELTA ENCODED") {
				f.Delta = true
			}
			stack[len(stack)-1].Fields[num] = f
		}
	}
	for _, m := range d.Messages {
		for _, f := range m.Fields {
			if _, ok := d.Messages[f.Type]; ok {
				f.IsMsg = true
			} else if enumNames[f.Type] {
				f.IsEnum = true
			}
		}
	}
	if len(d.Messages) < 8 {
		return nil, fmt.Errorf("only %d messages parsed", len(d.Messages))
	}
	return d, nil
}

// scalar proto type -> protoscan read method
var c01ReadMethod = map[string]string{
	"int32": "Int32", "int64": "Int64", "uint32": "Uint32", "uint64": "Uint64",
	"sint32": "Sint32", "sint64": "Sint64", "bool": "Bool", "string": "String", "bytes": "Bytes",
	"fixed32": "Fixed32", "fixed64": "Fixed64", "sfixed32": "Sfixed32", "sfixed64": "Sfixed64", "double": "Double", "float": "Float",
}

// wire class of packed element types: protoscan.WireTypeVarint = 0, 64bit = 1, 32bit = 5
func c01WireClass(t string, isEnum bool) int64 {
	switch t {
	case "fixed64", "sfixed64", "double":
		return 1
	case "fixed32", "sfixed32", "float":
		return 5
	}
	return 0
}

// pbTag parses a generated `protobuf:"..."` struct tag.
func c01PBTag(tag string) (wire string, num int, label, name string, packed bool, ok bool) {
	v := reflect.StructTag(tag).Get("protobuf")
	if v == "" {
		return
	}
	parts := strings.Split(v, ",")
	if len(parts) < 3 {
		return
	}
	wire = parts[0]
	num, _ = strconv.Atoi(parts[1])
	label = parts[2]
	for _, p := range parts[3:] {
		if strings.HasPrefix(p, "name=") {
			name = strings.TrimPrefix(p, "name=")
		}
		if p == "packed" {
			packed = true
		}
	}
	return wire, num, label, name, packed, true
}

// expected generated wire encoding per proto type
func c01PBWire(f *c01Field) string {
	switch f.Type {
	case "int32", "int64", "uint32", "uint64", "bool":
		return "varint"
	case "sint32":
		return "zigzag32"
	case "sint64":
		return "zigzag64"
	case "string", "bytes":
		return "bytes"
	case "fixed32", "sfixed32", "float":
		return "fixed32"
	case "fixed64", "sfixed64", "double":
		return "fixed64"
	}
	if f.IsEnum {
		return "varint"
	}
	return "bytes"
}
