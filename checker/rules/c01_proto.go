package rules

import (
	"fmt"
	"go/ast"
	"go/token"
	"go/types"
	"os"
	"path/filepath"
	"reflect"
	"strconv"
	"strings"

	"osmcheck/core"
)

// ---- descriptor model (DESIGN §3.2): a small parser for osmformat.proto ------------------------------------

type c01Field struct {
	Label  string // optional, required, repeated
	Type   string // int32, sint64, bool, string, bytes, <MessageName>, <EnumName>
	Name   string
	Num    int
	Packed bool
	Delta  bool // trailing comment says DELTA coded / encoded
	IsMsg  bool
	IsEnum bool
}

type c01Message struct {
	Name   string
	Fields map[int]*c01Field
	Enums  map[string]bool
}

type c01Descriptor struct {
	Messages map[string]*c01Message
}

// c01ParseProto parses the subset of proto2 used by osmformat.proto.
func c01ParseProto(path string) (*c01Descriptor, error) {
	b, err := os.ReadFile(path)
	if err != nil {
		return nil, err
	}
	src := string(b)
	// strip /* */ comments, keep // comments (they carry DELTA markers)
	for {
		i := strings.Index(src, "/*")
		if i < 0 {
			break
		}
		j := strings.Index(src[i:], "*/")
		if j < 0 {
			return nil, fmt.Errorf("unterminated comment")
		}
		src = src[:i] + src[i+j+2:]
	}
	d := &c01Descriptor{Messages: map[string]*c01Message{}}
	var stack []*c01Message
	enumDepth := 0
	enumNames := map[string]bool{}
	for _, line := range strings.Split(src, "\n") {
		comment := ""
		if i := strings.Index(line, "//"); i >= 0 {
			comment = line[i+2:]
			line = line[:i]
		}
		line = strings.TrimSpace(line)
		if line == "" {
			continue
		}
		toks := strings.Fields(strings.NewReplacer("{", " { ", "}", " } ", ";", " ; ", "=", " = ", "[", " [ ", "]", " ] ").Replace(line))
		switch {
		case toks[0] == "message" && len(toks) >= 3:
			m := &c01Message{Name: toks[1], Fields: map[int]*c01Field{}, Enums: map[string]bool{}}
			d.Messages[m.Name] = m
			stack = append(stack, m)
		case toks[0] == "enum" && len(toks) >= 3:
			enumDepth++
			enumNames[toks[1]] = true
			if len(stack) > 0 {
				stack[len(stack)-1].Enums[toks[1]] = true
			}
		case toks[0] == "}":
			if enumDepth > 0 {
				enumDepth--
			} else if len(stack) > 0 {
				stack = stack[:len(stack)-1]
			}
		case enumDepth > 0:
			// enum value
		case (toks[0] == "optional" || toks[0] == "required" || toks[0] == "repeated") && len(toks) >= 5 && len(stack) > 0:
			num, err := strconv.Atoi(toks[4])
			if err != nil || toks[3] != "=" {
				return nil, fmt.Errorf("cannot parse field line %q", line)
			}
			f := &c01Field{Label: toks[0], Type: toks[1], Name: toks[2], Num: num}
			rest := strings.Join(toks[5:], " ")
			if strings.Contains(rest, "packed = true") {
				f.Packed = true
			}
			up := strings.ToUpper(comment)
			if strings.Contains(up, "DELTA CODED") || strings.Contains(up, "DELTA ENCODED") {
				f.Delta = true
			}
			stack[len(stack)-1].Fields[num] = f
		}
	}
	for _, m := range d.Messages {
		for _, f := range m.Fields {
			if _, ok := d.Messages[f.Type]; ok {
				f.IsMsg = true
			} else if enumNames[f.Type] {
				f.IsEnum = true
			}
		}
	}
	if len(d.Messages) < 8 {
		return nil, fmt.Errorf("only %d messages parsed", len(d.Messages))
	}
	return d, nil
}

// scalar proto type -> protoscan read method
var c01ReadMethod = map[string]string{
	"int32": "Int32", "int64": "Int64", "uint32": "Uint32", "uint64": "Uint64",
	"sint32": "Sint32", "sint64": "Sint64", "bool": "Bool", "string": "String", "bytes": "Bytes",
	"fixed32": "Fixed32", "fixed64": "Fixed64", "sfixed32": "Sfixed32", "sfixed64": "Sfixed64", "double": "Double", "float": "Float",
}

// wire class of packed element types: protoscan.WireTypeVarint = 0, 64bit = 1, 32bit = 5
func c01WireClass(t string, isEnum bool) int64 {
	switch t {
	case "fixed64", "sfixed64", "double":
		return 1
	case "fixed32", "sfixed32", "float":
		return 5
	}
	return 0
}

// ---- typing of protoscan messages and iterators --------------------------------------------------------------

// c01MsgVar is a protoscan.Message variable with the descriptor message it scans.
type c01MsgVar struct {
	obj  types.Object
	fi   *FuncInfo
	msg  string // descriptor message name
	decl token.Pos
}

// c01Read is one decode call on a message variable or iterator.
type c01Read struct {
	call   *ast.CallExpr
	method string
	fi     *FuncInfo
	mv     *c01MsgVar // for message reads
	caseN  int        // enclosing case number (-1 none)
}

// c01Iter describes a cached iterator field of the per-worker decoder.
type c01Iter struct {
	field   *types.Var
	sources []c01IterSrc // where it is assigned: (message, field number)
}

type c01IterSrc struct {
	msg string
	num int
	pos token.Pos
	fi  *FuncInfo
}

type c01Model struct {
	p     *core.Program
	m     *pbfModel
	desc  *c01Descriptor
	vars  []*c01MsgVar
	byObj map[types.Object]*c01MsgVar
	// data-expression typing: []byte parameter (function, index) -> message
	paramMsg map[types.Object]string
	iters    map[*types.Var]*c01Iter
	// iterator-typed parameters bound to decoder fields at call sites
	paramIter map[types.Object]*types.Var
	reads     []*c01Read
	dataMsg   map[types.Object]string // local []byte variables holding an embedded message
	errs      []string
}

var c01Cache = map[*core.Program]*c01Model{}

func c01Get(r *core.R) *c01Model {
	if cm, ok := c01Cache[r.P]; ok {
		return cm
	}
	cm := &c01Model{p: r.P, byObj: map[types.Object]*c01MsgVar{}, paramMsg: map[types.Object]string{}, iters: map[*types.Var]*c01Iter{}, paramIter: map[types.Object]*types.Var{}}
	c01Cache[r.P] = cm
	cm.m = getPBFModel(r.P)
	if len(cm.m.errs) > 0 {
		cm.errs = append(cm.errs, cm.m.errs...)
		return cm
	}
	d, err := c01ParseProto(filepath.Join(r.P.Root, "osmpbf", "internal", "osmpbf", "osmformat.proto"))
	if err != nil {
		cm.errs = append(cm.errs, "osmformat.proto: "+err.Error())
		return cm
	}
	cm.desc = d
	cm.build()
	return cm
}

const protoscanMsg = "github.com/paulmach/protoscan.Message"
const protoscanIter = "github.com/paulmach/protoscan.Iterator"

// enclosingCase finds the field number under which node n executes with respect to message variable mv:
// a `case N:` of `switch mv.FieldNumber()`, or the body of `if fn == N [&& ...]` where fn := mv.FieldNumber().
func (cm *c01Model) enclosingCase(fi *FuncInfo, n ast.Node, mv types.Object) int {
	info := cm.m.info
	par := parentsOf(cm.p, fi)
	isFieldNumberOf := func(e ast.Expr) bool {
		call, ok := ast.Unparen(e).(*ast.CallExpr)
		if !ok || !isMethod(callee(info, call), protoscanMsg, "FieldNumber") {
			return false
		}
		return rootObj(info, call.Fun.(*ast.SelectorExpr).X) == mv
	}
	// variables holding mv.FieldNumber()
	fnVars := map[types.Object]bool{}
	ast.Inspect(fi.Decl.Body, func(x ast.Node) bool {
		if as, ok := x.(*ast.AssignStmt); ok && len(as.Lhs) == 1 && len(as.Rhs) == 1 && isFieldNumberOf(as.Rhs[0]) {
			fnVars[objOf(info, as.Lhs[0])] = true
		}
		return true
	})
	var child ast.Node = n
	for p := par[n]; p != nil; child, p = p, par[p] {
		switch s := p.(type) {
		case *ast.CaseClause:
			sw, ok := par[par[s]].(*ast.SwitchStmt)
			if !ok || sw.Tag == nil || !isFieldNumberOf(sw.Tag) || len(s.List) != 1 {
				continue
			}
			if v, ok := constInt(info, s.List[0]); ok {
				return int(v)
			}
		case *ast.IfStmt:
			if s.Body != child {
				continue
			}
			var conj []ast.Expr
			var split func(e ast.Expr)
			split = func(e ast.Expr) {
				e = ast.Unparen(e)
				if be, ok := e.(*ast.BinaryExpr); ok && be.Op == token.LAND {
					split(be.X)
					split(be.Y)
					return
				}
				conj = append(conj, e)
			}
			split(s.Cond)
			for _, cj := range conj {
				if be, ok := cj.(*ast.BinaryExpr); ok && be.Op == token.EQL && fnVars[objOf(info, be.X)] {
					if v, ok := constInt(info, be.Y); ok {
						return int(v)
					}
				}
			}
		case *ast.FuncLit:
			return -1
		}
	}
	return -1
}

func (cm *c01Model) build() {
	m := cm.m
	info := m.info
	// root: the function the worker entry calls with the blob data
	var entry *FuncInfo
	for _, fn := range m.units[m.goOf("worker").lit].calls {
		sig := fn.Type().(*types.Signature)
		if sig.Recv() != nil && namedPath(sig.Recv().Type()) == namedPath(m.ddT) && sig.Results().Len() == 2 {
			entry = findFunc(m.pk, funcName(fn))
		}
	}
	if entry == nil {
		cm.errs = append(cm.errs, "decode entry point called by the worker")
		return
	}
	// the []byte parameter of the in-package function called from the entry with a []byte is a PrimitiveBlock
	ast.Inspect(entry.Decl.Body, func(n ast.Node) bool {
		call, ok := n.(*ast.CallExpr)
		if !ok {
			return true
		}
		fn := callee(info, call)
		if fn == nil || fn.Pkg() != m.pk.Types || fn.Type().(*types.Signature).Recv() == nil || len(call.Args) != 1 {
			return true
		}
		if sl, ok := info.TypeOf(call.Args[0]).Underlying().(*types.Slice); !ok || !types.Identical(sl.Elem(), types.Typ[types.Byte]) {
			return true
		}
		if tf := findFunc(m.pk, funcName(fn)); tf != nil {
			if po := c01Param(info, tf, 0); po != nil {
				cm.paramMsg[po] = "PrimitiveBlock"
			}
		}
		return true
	})
	if len(cm.paramMsg) == 0 {
		cm.errs = append(cm.errs, "function receiving the primitive block bytes from the worker entry point")
		return
	}
	// fixpoint: discover message variables and propagate data typing
	funcs := []*FuncInfo{}
	for _, u := range m.sortedUnits() {
		if fd, ok := u.node.(*ast.FuncDecl); ok && u.roles["worker"] && !isGenerated(cm.p, fd.Pos()) {
			funcs = append(funcs, u.fi)
		}
	}
	dataMsg := map[types.Object]string{} // local []byte var -> message
	cm.dataMsg = dataMsg
	for changed, rounds := true, 0; changed && rounds < 10; rounds++ {
		changed = false
		for _, fi := range funcs {
			ast.Inspect(fi.Decl.Body, func(n ast.Node) bool {
				as, ok := n.(*ast.AssignStmt)
				if !ok || len(as.Rhs) != 1 {
					return true
				}
				call, ok := as.Rhs[0].(*ast.CallExpr)
				if !ok {
					return true
				}
				fn := callee(info, call)
				switch {
				case isPkgFunc(fn, "github.com/paulmach/protoscan", "New") && len(call.Args) == 1 && len(as.Lhs) == 1:
					do := objOf(info, call.Args[0])
					msg := cm.paramMsg[do]
					if msg == "" {
						msg = dataMsg[do]
					}
					vo := objOf(info, as.Lhs[0])
					if msg != "" && vo != nil && cm.byObj[vo] == nil {
						mv := &c01MsgVar{obj: vo, fi: fi, msg: msg, decl: as.Pos()}
						cm.vars = append(cm.vars, mv)
						cm.byObj[vo] = mv
						changed = true
					}
				case isMethod(fn, protoscanMsg, "MessageData") && len(as.Lhs) == 2:
					mvo := rootObj(info, call.Fun.(*ast.SelectorExpr).X)
					mv := cm.byObj[mvo]
					if mv == nil {
						return true
					}
					n := cm.enclosingCase(fi, call, mvo)
					if n < 0 {
						return true
					}
					if f := cm.desc.Messages[mv.msg].Fields[n]; f != nil && f.IsMsg {
						do := objOf(info, as.Lhs[0])
						if do != nil && dataMsg[do] == "" {
							dataMsg[do] = f.Type
							changed = true
						}
					}
				}
				return true
			})
			// calls passing typed data into in-package functions
			ast.Inspect(fi.Decl.Body, func(n ast.Node) bool {
				call, ok := n.(*ast.CallExpr)
				if !ok {
					return true
				}
				fn := callee(info, call)
				if fn == nil || fn.Pkg() != m.pk.Types {
					return true
				}
				tf := findFunc(m.pk, funcName(fn))
				if tf == nil {
					return true
				}
				for i, a := range call.Args {
					do := objOf(info, a)
					if do == nil {
						continue
					}
					msg := dataMsg[do]
					if msg == "" {
						msg = cm.paramMsg[do]
					}
					if msg == "" {
						continue
					}
					if po := c01Param(info, tf, i); po != nil {
						if old := cm.paramMsg[po]; old == "" {
							cm.paramMsg[po] = msg
							changed = true
						} else if old != msg {
							cm.errs = append(cm.errs, fmt.Sprintf("parameter %s of %s receives both %s and %s data", po.Name(), tf.Name(), old, msg))
						}
					}
				}
				return true
			})
		}
	}
	// reads and iterator assignments
	for _, fi := range funcs {
		fi := fi
		ast.Inspect(fi.Decl.Body, func(n ast.Node) bool {
			call, ok := n.(*ast.CallExpr)
			if !ok {
				return true
			}
			fn := callee(info, call)
			if fn == nil {
				return true
			}
			sel, ok := call.Fun.(*ast.SelectorExpr)
			if !ok {
				return true
			}
			recvT := ""
			if s := info.Selections[sel]; s != nil {
				recvT = namedPath(s.Recv())
			}
			if recvT != protoscanMsg {
				return true
			}
			mvo := rootObj(info, sel.X)
			mv := cm.byObj[mvo]
			switch fn.Name() {
			case "Next", "Err", "FieldNumber", "Skip", "Reset", "WireType":
				return true
			}
			rd := &c01Read{call: call, method: fn.Name(), fi: fi, mv: mv, caseN: -1}
			if mv != nil {
				rd.caseN = cm.enclosingCase(fi, call, mvo)
			}
			cm.reads = append(cm.reads, rd)
			return true
		})
		// dec.F, err = X.Iterator(dec.F)
		ast.Inspect(fi.Decl.Body, func(n ast.Node) bool {
			as, ok := n.(*ast.AssignStmt)
			if !ok || len(as.Rhs) != 1 || len(as.Lhs) != 2 {
				return true
			}
			call, ok := as.Rhs[0].(*ast.CallExpr)
			if !ok || !isMethod(callee(info, call), protoscanMsg, "Iterator") {
				return true
			}
			f := fieldOf(info, as.Lhs[0])
			if f == nil {
				return true
			}
			mvo := rootObj(info, call.Fun.(*ast.SelectorExpr).X)
			mv := cm.byObj[mvo]
			if mv == nil {
				return true
			}
			it := cm.iters[f]
			if it == nil {
				it = &c01Iter{field: f}
				cm.iters[f] = it
			}
			it.sources = append(it.sources, c01IterSrc{msg: mv.msg, num: cm.enclosingCase(fi, call, mvo), pos: as.Pos(), fi: fi})
			return true
		})
	}
	// iterator-typed parameters bound at call sites
	for _, fi := range funcs {
		ast.Inspect(fi.Decl.Body, func(n ast.Node) bool {
			call, ok := n.(*ast.CallExpr)
			if !ok {
				return true
			}
			fn := callee(info, call)
			if fn == nil || fn.Pkg() != m.pk.Types {
				return true
			}
			tf := findFunc(m.pk, funcName(fn))
			if tf == nil {
				return true
			}
			for i, a := range call.Args {
				if f := fieldOf(info, a); f != nil && namedPath(f.Type()) == protoscanIter {
					if po := c01Param(info, tf, i); po != nil {
						if old, ok := cm.paramIter[po]; ok && old != f {
							cm.errs = append(cm.errs, fmt.Sprintf("iterator parameter %s of %s is bound to different fields", po.Name(), tf.Name()))
						}
						cm.paramIter[po] = f
					}
				}
			}
			return true
		})
	}
}

// c01Param returns the idx-th parameter object of a declared function.
func c01Param(info *types.Info, fi *FuncInfo, idx int) types.Object {
	pi := 0
	for _, fld := range fi.Decl.Type.Params.List {
		for _, nm := range fld.Names {
			if pi == idx {
				return info.Defs[nm]
			}
			pi++
		}
	}
	return nil
}

// iterField resolves an iterator expression (dec.F or a bound parameter) to the decoder field.
func (cm *c01Model) iterField(e ast.Expr) *types.Var {
	info := cm.m.info
	if f := fieldOf(info, e); f != nil && namedPath(f.Type()) == protoscanIter {
		return f
	}
	if o := objOf(info, e); o != nil {
		return cm.paramIter[o]
	}
	return nil
}

// iterColumn returns the descriptor field(s) an iterator field carries: a single (type, name, delta) when all its
// assignment sites agree on name and element type.
func (cm *c01Model) iterColumn(f *types.Var) (*c01Field, string) {
	it := cm.iters[f]
	if it == nil || len(it.sources) == 0 {
		return nil, "never assigned from Message.Iterator"
	}
	var first *c01Field
	for _, s := range it.sources {
		msg := cm.desc.Messages[s.msg]
		if msg == nil || msg.Fields[s.num] == nil {
			return nil, fmt.Sprintf("assigned under case %d of %s, which the descriptor does not define", s.num, s.msg)
		}
		fd := msg.Fields[s.num]
		if first == nil {
			first = fd
		} else if first.Name != fd.Name || first.Type != fd.Type || first.Delta != fd.Delta {
			return nil, fmt.Sprintf("assigned from %s.%s (%s) and from a column named %s (%s)", s.msg, fd.Name, fd.Type, first.Name, first.Type)
		}
	}
	return first, ""
}

// pbTag parses a generated `protobuf:"..."` struct tag.
func c01PBTag(tag string) (wire string, num int, label, name string, packed bool, ok bool) {
	v := reflect.StructTag(tag).Get("protobuf")
	if v == "" {
		return
	}
	parts := strings.Split(v, ",")
	if len(parts) < 3 {
		return
	}
	wire = parts[0]
	num, _ = strconv.Atoi(parts[1])
	label = parts[2]
	for _, p := range parts[3:] {
		if strings.HasPrefix(p, "name=") {
			name = strings.TrimPrefix(p, "name=")
		}
		if p == "packed" {
			packed = true
		}
	}
	return wire, num, label, name, packed, true
}

// expected generated wire encoding per proto type
func c01PBWire(f *c01Field) string {
	switch f.Type {
	case "int32", "int64", "uint32", "uint64", "bool":
		return "varint"
	case "sint32":
		return "zigzag32"
	case "sint64":
		return "zigzag64"
	case "string", "bytes":
		return "bytes"
	case "fixed32", "sfixed32", "float":
		return "fixed32"
	case "fixed64", "sfixed64", "double":
		return "fixed64"
	}
	if f.IsEnum {
		return "varint"
	}
	return "bytes"
}
