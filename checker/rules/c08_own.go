package rules

import (
	"fmt"
	"go/ast"
	"go/token"
	"go/types"

	"golang.org/x/tools/go/cfg"

	"osmcheck/core"
)

// C08.O8 — an element that is handed to the consumer owns its storage.
//
// The slices of an element (tags, way nodes, members) may be kept for reuse, but only by the scratch element itself.
// Storage that outlives the element slot — a field of the decoder or of another struct of the package, a package
// variable, a sync.Pool, a local that is assigned more than once — is "persistent". For every element slot (the same
// slots as O1/O2, aliases included) a may-analysis over the CFG, with the functions the slot is handed to executed on
// their own CFG, tracks two facts:
//   borrowed  a slice field of the slot's element shares its backing array with persistent storage P that still refers
//             to it: set by `x.F = P…`, a literal `T{F: P…}` stored in the slot, or `P = x.F…`; cleared when P is
//             assigned something else (nil, a fresh slice) or the slot's field is replaced by fresh storage, or the
//             slot is re-pointed at a literal that does not take P;
//   escaped   the element was appended to the object slice and the slot has not been re-pointed since.
// Violations: the element escapes while borrowed (the decoder still holds the array of an element the consumer owns:
// the next group or block decoded by the same worker writes into it), and `P = x.F…` / `pool.Put(x.F…)` while escaped
// (the decoder takes a reference to the arrays of an element it has already handed out).

type c08Own struct {
	fl    *c08Flow
	memo  map[string]int
	stack map[string]bool
	viol  string
	vpos  token.Pos
	from  string // description of the persistent storage last borrowed from
}

const (
	c08oB = 1 << iota
	c08oE
)

// persistent: e (an expression of element-slice type) denotes, or is a re-slice / append result of, storage that
// outlives the slot; it returns a description.
func (o *c08Own) persistent(f *c01Fn, e ast.Expr, x types.Object, depth int) string {
	info := o.fl.info
	if e == nil || depth > 6 {
		return ""
	}
	e = ast.Unparen(e)
	switch y := e.(type) {
	case *ast.SliceExpr:
		return o.persistent(f, y.X, x, depth+1)
	case *ast.TypeAssertExpr:
		return o.persistent(f, y.X, x, depth+1)
	case *ast.CallExpr:
		if builtinName(info, y) == "append" && len(y.Args) > 0 {
			return o.persistent(f, y.Args[0], x, depth+1)
		}
		if c01IsConversion(info, y) && len(y.Args) == 1 {
			return o.persistent(f, y.Args[0], x, depth+1)
		}
		if fn := callee(info, y); fn != nil && fn.Name() == "Get" && namedPath(c01RecvTypeOf(fn)) == "sync.Pool" {
			return "" // taken out of the pool: the pool no longer refers to it
		}
		return ""
	case *ast.SelectorExpr:
		fld := fieldOf(info, y)
		if fld == nil || !c08IsElemSlice(fld.Type()) {
			return ""
		}
		if o.fl.is(f, y.X, x) || o.fl.below(f, y, x) {
			return "" // the slot's own field
		}
		if c08IsElemType(info.TypeOf(y.X)) {
			return "" // a field of some other element: not storage the decoder keeps
		}
		return "`" + types.ExprString(y) + "`"
	case *ast.Ident:
		ob := objOf(info, y)
		v, ok := ob.(*types.Var)
		if !ok || !c08IsElemSlice(v.Type()) {
			return ""
		}
		if v.Pkg() != nil && v.Parent() == v.Pkg().Scope() {
			return "package variable `" + v.Name() + "`"
		}
		if c01ParamIndex(info, f.fi, v) >= 0 {
			return ""
		}
		ds := c01Defs(info, f.body, v)
		if len(ds) == 1 && ds[0].rhs != nil && ds[0].index < 0 {
			return o.persistent(f, ds[0].rhs, x, depth+1) // a name for another expression
		}
		if len(ds) > 1 || (len(ds) == 1 && ds[0].rhs == nil) {
			return "local `" + v.Name() + "`, which is assigned at several places"
		}
	}
	return ""
}

// persistentTarget: l is an lvalue that is persistent storage of element-slice type.
func (o *c08Own) persistentTarget(f *c01Fn, l ast.Expr, x types.Object) string {
	info := o.fl.info
	l = ast.Unparen(l)
	if t := info.TypeOf(l); t == nil || !c08IsElemSlice(t) {
		return ""
	}
	switch y := l.(type) {
	case *ast.SelectorExpr:
		if o.fl.is(f, y.X, x) || o.fl.below(f, y, x) || c08IsElemType(info.TypeOf(y.X)) {
			return ""
		}
		return "`" + types.ExprString(y) + "`"
	case *ast.Ident:
		v, ok := objOf(info, y).(*types.Var)
		if !ok {
			return ""
		}
		if v.Pkg() != nil && v.Parent() == v.Pkg().Scope() {
			return "package variable `" + v.Name() + "`"
		}
		if ds := c01Defs(info, f.body, v); len(ds) > 1 || (len(ds) == 1 && ds[0].rhs == nil) {
			return "local `" + v.Name() + "`, which is assigned at several places"
		}
	}
	return ""
}

// ownField: e is (a re-slice / append result of) a slice field of the slot's element.
func (o *c08Own) ownField(f *c01Fn, e ast.Expr, x types.Object, depth int) bool {
	info := o.fl.info
	if e == nil || depth > 6 {
		return false
	}
	e = ast.Unparen(e)
	switch y := e.(type) {
	case *ast.SliceExpr:
		return o.ownField(f, y.X, x, depth+1)
	case *ast.CallExpr:
		if builtinName(info, y) == "append" && len(y.Args) > 0 {
			return o.ownField(f, y.Args[0], x, depth+1)
		}
		if c01IsConversion(info, y) && len(y.Args) == 1 {
			return o.ownField(f, y.Args[0], x, depth+1)
		}
	case *ast.SelectorExpr:
		fld := fieldOf(info, y)
		return fld != nil && c08IsElemSlice(fld.Type()) && (o.fl.is(f, y.X, x) || o.fl.below(f, y, x))
	case *ast.Ident:
		if v, ok := objOf(info, y).(*types.Var); ok && c08IsElemSlice(v.Type()) {
			if ds := c01Defs(info, f.body, v); len(ds) == 1 && ds[0].rhs != nil && ds[0].index < 0 {
				return o.ownField(f, ds[0].rhs, x, depth+1)
			}
		}
	}
	return false
}

func (o *c08Own) bad(pos token.Pos, format string, args ...interface{}) {
	if o.viol == "" {
		o.viol, o.vpos = fmt.Sprintf(format, args...), pos
	}
}

// literalBorrows: the struct literal stored in the slot takes persistent storage for one of its slice fields.
func (o *c08Own) literalBorrows(f *c01Fn, rh ast.Expr, x types.Object) string {
	e := ast.Unparen(rh)
	if ue, ok := e.(*ast.UnaryExpr); ok && ue.Op == token.AND {
		e = ast.Unparen(ue.X)
	}
	cl, ok := e.(*ast.CompositeLit)
	if !ok {
		return ""
	}
	for _, el := range cl.Elts {
		v := el
		if kv, ok := el.(*ast.KeyValueExpr); ok {
			v = kv.Value
		}
		if t := o.fl.info.TypeOf(v); t != nil && c08IsElemSlice(t) {
			if p := o.persistent(f, v, x, 0); p != "" {
				return p
			}
		}
	}
	return ""
}

// run returns the facts at the normal exits of fi for slot x entered with facts st.
func (o *c08Own) run(fi *FuncInfo, x types.Object, st int, depth int) int {
	key := fmt.Sprintf("%p/%p/%d", fi.Obj, x, st)
	if v, ok := o.memo[key]; ok {
		return v
	}
	if o.stack[key] || depth > 4 {
		return st
	}
	o.stack[key] = true
	defer delete(o.stack, key)
	fl := o.fl
	info := fl.info
	fs := fl.r.P.Fset
	f := c01FnOf(fl.r.P, fi)
	in := map[*cfg.Block]int{f.g.Blocks[0]: st}
	visited := map[*cfg.Block]bool{}
	work := []*cfg.Block{f.g.Blocks[0]}
	exit := 0
	for len(work) > 0 {
		b := work[len(work)-1]
		work = work[:len(work)-1]
		visited[b] = true
		cur := in[b]
		for _, n := range b.Nodes {
			// calls that take the slot's element
			ast.Inspect(n, func(y ast.Node) bool {
				if _, isLit := y.(*ast.FuncLit); isLit {
					return false
				}
				call, ok := y.(*ast.CallExpr)
				if !ok {
					return true
				}
				if tf := c01Callee(f.pk, call); tf != nil {
					for i, a := range call.Args {
						if fl.is(f, a, x) {
							if po := c01Param(info, tf, i); po != nil {
								before := o.viol
								cur = o.run(tf, po, cur, depth+1)
								if o.viol != before && before == "" {
									o.viol, o.vpos = fmt.Sprintf("`%s`: %s", src(fs, call), o.viol), call.Pos()
								}
							}
						}
					}
				}
				// pool.Put(x.F…): the pool refers to the element's array from now on
				if fn := callee(info, call); fn != nil && fn.Name() == "Put" && namedPath(c01RecvTypeOf(fn)) == "sync.Pool" && len(call.Args) == 1 && o.ownField(f, call.Args[0], x, 0) {
					if cur&c08oE != 0 {
						o.bad(call.Pos(), "`%s` gives the pool the storage of an element that was already appended to the block's object slice", src(fs, call))
					}
					cur |= c08oB
					o.from = "the pool in `" + src(fs, call) + "`"
				}
				return true
			})
			if as, ok := n.(*ast.AssignStmt); ok {
				for i, l := range as.Lhs {
					var rh ast.Expr
					if len(as.Rhs) == len(as.Lhs) {
						rh = as.Rhs[i]
					} else if len(as.Rhs) == 1 {
						rh = as.Rhs[0]
					}
					lu := ast.Unparen(l)
					switch {
					case fl.isSelf(lu, x) && rh != nil:
						// the slot is re-pointed
						if p := o.literalBorrows(f, rh, x); p != "" {
							cur = c08oB
							o.from = p
						} else if c08IsFreshAlloc(info, rh, x) {
							cur = 0
						}
					case func() bool { se, ok := lu.(*ast.StarExpr); return ok && fl.is(f, se.X, x) }() && rh != nil:
						if p := o.literalBorrows(f, rh, x); p != "" {
							cur |= c08oB
							o.from = p
						} else if cl, isLit := ast.Unparen(rh).(*ast.CompositeLit); isLit {
							keeps := false
							for _, el := range cl.Elts {
								if kv, ok := el.(*ast.KeyValueExpr); ok && o.ownField(f, kv.Value, x, 0) {
									keeps = true
								}
							}
							if !keeps {
								cur &^= c08oB // every slice of the element is dropped
							}
						}
					case fl.below(f, lu, x) && rh != nil && c08IsElemSlice(info.TypeOf(lu)):
						if p := o.persistent(f, rh, x, 0); p != "" {
							cur |= c08oB
							o.from = p
						} else if !o.ownField(f, rh, x, 0) {
							cur &^= c08oB // the field gets storage of its own (make, nil, a helper's result)
						}
					default:
						if p := o.persistentTarget(f, lu, x); p != "" && rh != nil {
							switch {
							case o.ownField(f, rh, x, 0):
								if cur&c08oE != 0 {
									o.bad(as.Pos(), "`%s` makes %s refer to the storage of an element that was already appended to the block's object slice: whatever is decoded into that storage next overwrites an object the consumer holds", src(fs, as), p)
								}
								cur |= c08oB
								o.from = p
							case o.persistent(f, rh, x, 0) == "":
								cur &^= c08oB // the persistent storage lets go of the array
							}
						}
					}
				}
			}
			if fl.escapes(f, n, x, 0) && !c08OwnJudgedBelow(fl, f, n, x) {
				if cur&c08oB != 0 {
					o.bad(n.Pos(), "`%s` hands the element to the consumer while %s still refers to the backing array of one of its slices (tags, nodes or members): the same worker's next element, group or block is decoded into that array and overwrites the object the consumer already holds. Storage kept by the decoder may only be lent to the scratch element; it has to be given up (set to nil) before the element can be accepted, or the accepted element's successor must start from fresh slices", src(fs, n), o.from)
				}
				cur |= c08oE
			}
		}
		if len(b.Succs) == 0 {
			if c01IsNormalExit(f, b) {
				exit |= cur
			}
			continue
		}
		for _, nb := range b.Succs {
			if !visited[nb] || in[nb]|cur != in[nb] {
				in[nb] |= cur
				work = append(work, nb)
			}
		}
	}
	o.memo[key] = exit
	return exit
}

// c08OwnJudgedBelow: the escape at n happens inside a callee that takes the slot as an argument (the callee's own run
// sees it with the facts handed in).
func c08OwnJudgedBelow(fl *c08Flow, f *c01Fn, n ast.Node, x types.Object) bool {
	direct := false
	ast.Inspect(n, func(y ast.Node) bool {
		call, ok := y.(*ast.CallExpr)
		if !ok {
			return true
		}
		if builtinName(fl.info, call) == "append" && len(call.Args) >= 2 && fl.isQ(f, call.Args[0]) {
			for _, a := range call.Args[1:] {
				if fl.is(f, a, x) {
					direct = true
				}
			}
		}
		return true
	})
	return !direct
}

func c08O8(r *core.R) {
	m := c01PBFModel(r)
	if m == nil {
		return
	}
	q := c08QField(r, m)
	if q == nil {
		return
	}
	n := 0
	for _, el := range c08Tracked(r, m, q) {
		if c01ParamIndex(m.info, el.fi, el.obj) >= 0 && !c08WritesThroughParam(m, el.fi.Obj, c01ParamIndex(m.info, el.fi, el.obj), 0) {
			continue
		}
		fl := &c08Flow{r: r, m: m, info: m.info, q: q, memo: map[string]int{}, stack: map[string]bool{}}
		o := &c08Own{fl: fl, memo: map[string]int{}, stack: map[string]bool{}}
		o.run(el.fi, el.obj, 0, 0)
		n++
		c := "ownership@" + el.fi.Name() + " " + el.obj.Name()
		if o.viol != "" {
			r.Bad(c, o.vpos, "%s", o.viol)
		} else {
			r.OK(c, el.obj.Pos(), "whenever `%s` is appended to the object slice none of its slices shares a backing array with storage the decoder keeps (struct fields, package variables, pools, locals assigned at several places), and the decoder never takes a reference to the slices of an element it has handed out", el.obj.Name())
		}
	}
	if n == 0 {
		r.Anchor("element variables appended to the block's object slice")
	}
}
