package rules

import (
	"go/ast"
	"go/token"
	"go/types"
)

// c07CountedLoopStmt recognises a loop that runs exactly N times and returns N: the counted `for` forms of
// c07CountedLoop, and `for i := range S` / `for range S` where S is a slice field of the decoder whose only
// assignment is `S = make([]T, N)` (a presized slice, filled by index in the loop).
func c07CountedLoopStmt(m *pbfModel, loop ast.Stmt) types.Object {
	switch l := loop.(type) {
	case *ast.ForStmt:
		return c07CountedLoop(m.info, l)
	case *ast.RangeStmt:
		f := fieldOf(m.info, l.X)
		if f == nil {
			return nil
		}
		n := c07MakeLenObj(m, f)
		if n == nil {
			return nil
		}
		// the body does not leave the loop early and does not resize the slice
		bad := false
		ast.Inspect(l.Body, func(x ast.Node) bool {
			switch s := x.(type) {
			case *ast.FuncLit:
				return false
			case *ast.BranchStmt:
				if s.Tok == token.BREAK || s.Tok == token.GOTO {
					bad = true
				}
			case *ast.ReturnStmt:
				bad = true
			case *ast.AssignStmt:
				for _, lh := range s.Lhs {
					if fieldOf(m.info, lh) == f {
						bad = true // (element stores `S[i] = x` are index expressions, not the field itself)
					}
					if o := objOf(m.info, lh); o != nil && o == n {
						bad = true
					}
				}
			}
			return true
		})
		if bad {
			return nil
		}
		return n
	}
	return nil
}

// c07MakeLenObj: slice field f is assigned exactly once in the package, as `f = make([]T, N)` (length N, no separate
// capacity) with N a variable; it returns N.
func c07MakeLenObj(m *pbfModel, f *types.Var) types.Object {
	var n types.Object
	count := 0
	for _, fi := range m.funcs {
		ast.Inspect(fi.Decl.Body, func(x ast.Node) bool {
			as, ok := x.(*ast.AssignStmt)
			if !ok {
				return true
			}
			for i, l := range as.Lhs {
				if fieldOf(m.info, l) != f {
					continue
				}
				count++
				if len(as.Lhs) != len(as.Rhs) {
					count++
					continue
				}
				call, ok := ast.Unparen(as.Rhs[i]).(*ast.CallExpr)
				if !ok || builtinName(m.info, call) != "make" || len(call.Args) != 2 {
					count++
					continue
				}
				if o, ok := objOf(m.info, call.Args[1]).(*types.Var); ok && !o.IsField() {
					n = o
				} else {
					count++
				}
			}
			return true
		})
	}
	if count != 1 {
		return nil
	}
	return n
}

// c07SameCount reports whether variables a and b always hold the same worker count: the same variable, or one is a
// parameter / local bound to the other through calls.
func c07SameCount(m *pbfModel, a, b types.Object) bool {
	if a == nil || b == nil {
		return false
	}
	return a == b || m.boundTo(a, b, map[types.Object]bool{}) || m.boundTo(b, a, map[types.Object]bool{})
}
