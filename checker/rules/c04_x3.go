package rules

import (
	"fmt"
	"go/types"
	"strings"

	"osmcheck/core"
)

// c04Single is the observation of a root when only one element field (path) is set.
type c04Single struct {
	target  []*types.Var
	traces  []*c04Trace
	aborted string
}

func c04RunSingle(r *core.R, root *c04Root, target []*types.Var) *c04Single {
	trs, ab := c04Run(r.P, root, c04Only(target), "only "+c04PathString(root.tname, target))
	return &c04Single{target: target, traces: trs, aborted: ab}
}

// hasWrapper: the path wrote the start token of the block named wrap (depth 1), or of the root element (wrap "").
func (tr *c04Trace) hasWrapper(wrap string) bool {
	for _, t := range tr.tokens {
		if t.start && ((wrap == "" && t.depth == 0) || (wrap != "" && t.depth == 1 && t.name.kind == "const" && t.name.s == wrap)) {
			return true
		}
	}
	return false
}

// emitted: on every path the value at target is encoded; missingOn is a path where it is not; wrapped reports whether
// the block named wrap was written on that path.
func (s *c04Single) emitted(wrap string) (always bool, missingOn *c04Trace, wrapped bool) {
	always = true
	for _, tr := range s.traces {
		hit := false
		for _, em := range tr.emits {
			if len(em.path) == len(s.target) && c04IsPrefix(em.path, s.target) {
				hit = true
			}
		}
		if !hit && missingOn == nil {
			always, missingOn, wrapped = false, tr, tr.hasWrapper(wrap)
		}
	}
	if len(s.traces) == 0 {
		always = false
	}
	return
}

// c04ForkText describes the unknown conditions a path took (why an emission may be missing).
func c04ForkText(r *core.R, tr *c04Trace) string {
	if tr == nil {
		return "no path"
	}
	var s []string
	seen := map[string]bool{}
	for _, e := range tr.path.St.Trace {
		if e.Kind == "fork" && e.Cond != nil {
			t := fmt.Sprintf("`%s` is %v", src(r.P.Fset, e.Cond), e.Taken)
			if !seen[t] && len(s) < 6 {
				seen[t] = true
				s = append(s, t)
			}
		}
	}
	if len(s) == 0 {
		return "on the only path for this input"
	}
	return "when " + strings.Join(s, " and ")
}

// c04FieldClass classifies an element field of a root: written directly, decomposed into a wrapped body, or promoted
// from an embedded struct.
type c04FieldClass struct {
	xf       *c03Field
	gopath   []*types.Var
	promoted bool
	direct   bool
	inner    []*c03Field // decomposed: element fields of the body type
}

func c04Classify(r *core.R, root *c04Root) []c04FieldClass {
	trs, _ := c04Run(r.P, root, c04AllSet, "all set")
	var out []c04FieldClass
	for _, xf := range c04ElemFields(root.T) {
		fc := c04FieldClass{xf: xf, gopath: c04GoPathOf(xf), promoted: len(xf.Via) > 0}
		for _, tr := range trs {
			for _, em := range tr.emits {
				if len(em.path) == len(fc.gopath) && c04IsPrefix(em.path, fc.gopath) {
					fc.direct = true
				}
			}
		}
		if !fc.direct && !fc.promoted {
			fc.inner = c04ElemFields(c03ElemType(xf.Var.Type()))
		}
		out = append(out, fc)
	}
	return out
}

func c04JoinNames(fs []*types.Var) string {
	var s []string
	for _, f := range fs {
		s = append(s, f.Name())
	}
	return strings.Join(s, ".")
}

// c04X3: completeness of the hand-written containers.
func c04X3(r *core.R) {
	c03Init(r)
	var v c04Verdicts
	am := c03BuildActionModel(r, nil, []string{"old", "new"})
	reads := c04ActionReads(am)
	if am != nil && am.aborted != "" {
		v.unknown("explore@"+am.un.Name(), am.un.Decl.Pos(), "%s could not be explored completely: %s", am.un.Name(), am.aborted)
	}
	for _, root := range c04Roots(r.P) {
		for _, fc := range c04Classify(r, root) {
			fname := c04PathString(root.tname, fc.gopath)
			pos := root.fi.Decl.Pos()
			switch {
			case fc.promoted:
				// the directly embedded element of an action: written exactly when the decoder can store it back
				owner := c03TypeName(c03Deref(fc.xf.Via[len(fc.xf.Via)-1].Type()))
				c := "kind " + owner + "." + fc.xf.Var.Name() + "@" + root.tname
				s := c04RunSingle(r, root, fc.gopath)
				written, miss, _ := s.emitted("")
				label, rd := reads[c04JoinNames(fc.gopath)]
				switch {
				case s.aborted != "":
					v.unknown(c, pos, "%s could not be explored: %s", root.name, s.aborted)
				case rd && written:
					v.ok(c, pos, "written by %s when it alone is set, and stored back by the unmarshaller for <%s>", root.name, label)
				case written:
					v.bad(c, pos, "%s writes %s directly inside its element but %s.UnmarshalXML stores no child element into it: the element is lost on unmarshalling", root.name, fname, root.tname)
				case rd:
					v.bad(c, c04MissPos(miss, pos), "%s.UnmarshalXML stores <%s> into %s but %s does not write it (%s): a create action holding it marshals to an empty element", root.tname, label, fname, root.name, c04ForkText(r, miss))
				default:
					v.ok(c, pos, "neither written directly by %s nor stored back by the unmarshaller", root.name)
				}
			case fc.direct:
				c := "complete@" + root.tname + " " + root.tname + "." + fc.xf.Var.Name()
				s := c04RunSingle(r, root, fc.gopath)
				written, miss, _ := s.emitted("")
				switch {
				case s.aborted != "":
					v.unknown(c, pos, "%s could not be explored: %s", root.name, s.aborted)
				case written:
					v.ok(c, pos, "element field %s (<%s>) is encoded when it alone is set", fname, fc.xf.Name)
				default:
					v.bad(c, c04MissPos(miss, pos), "%s does not encode %s (%s) although the decoder reads <%s> into it: marshalling drops every %s", root.name, fname, c04ForkText(r, miss), fc.xf.Name, fc.xf.Name)
				}
			case len(fc.inner) == 0:
				v.bad("complete@"+root.tname+" "+fname, pos, "%s never encodes %s although the decoder reads <%s> into it", root.name, fname, fc.xf.Name)
			default:
				bodyT := c03TypeName(c03ElemType(fc.xf.Var.Type()))
				for _, g := range fc.inner {
					c := "complete@" + fname + " " + bodyT + "." + g.Var.Name()
					target := append(append([]*types.Var{}, fc.gopath...), c04GoPathOf(g)...)
					s := c04RunSingle(r, root, target)
					written, miss, wrapped := s.emitted(fc.xf.Name)
					switch {
					case s.aborted != "":
						v.unknown(c, pos, "%s could not be explored: %s", root.name, s.aborted)
					case written:
						v.ok(c, pos, "%s.%s (<%s>) is encoded inside the <%s> block when it alone is set", bodyT, g.Var.Name(), g.Name, fc.xf.Name)
					case !wrapped:
						v.ok(c, pos, "(the whole <%s> block is missing for this input: reported by X6)", fc.xf.Name)
					default:
						v.bad(c, c04MissPos(miss, pos), "%s writes the <%s> block of %s without %s.%s (%s) although the decoder reads <%s> into it: every %s of the block is dropped", root.name, fc.xf.Name, fname, bodyT, g.Var.Name(), c04ForkText(r, miss), g.Name, g.Name)
					}
				}
			}
		}
	}
	v.emit(r)
}
