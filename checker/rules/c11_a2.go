package rules

// C11.A2 (public side) — annotate.Ways / annotate.Relations apply every option to the Options value they hand
// to core.Compute and map Compute's typed errors to the public, same-named error types; the option
// constructors set the same-named core.Options field. Decided on the paths of the exported functions with all
// unexported functions of package annotate inlined: it does not matter whether the option loop or the error
// mapping lives in Ways/Relations or in a helper, whether the mapping is a type switch or a chain of type
// assertions, nor how the helpers are called.

import (
	"go/ast"
	"go/token"
	"go/types"
	"sort"
	"strconv"
	"strings"

	"golang.org/x/tools/go/packages"

	"osmcheck/core"
)

func c11A2(r *core.R) {
	c11A2Compute(r)
	c11A2Routes(r)
	c11A2Options(r)
}

// c11ExportedCoreErrors lists the exported named types of package core whose pointer implements error.
func c11ExportedCoreErrors(p *core.Program) []*types.Named {
	cpk := p.Pkg("annotate/internal/core")
	if cpk == nil {
		return nil
	}
	errIface := types.Universe.Lookup("error").Type().Underlying().(*types.Interface)
	var out []*types.Named
	for _, nm := range cpk.Types.Scope().Names() {
		tn, ok := cpk.Types.Scope().Lookup(nm).(*types.TypeName)
		if !ok || !tn.Exported() || tn.IsAlias() {
			continue
		}
		nt, ok := tn.Type().(*types.Named)
		if !ok {
			continue
		}
		if _, isIface := nt.Underlying().(*types.Interface); isIface {
			continue
		}
		if types.Implements(types.NewPointer(nt), errIface) {
			out = append(out, nt)
		}
	}
	return out
}

func c11A2Routes(r *core.R) {
	apk := r.P.Pkg("annotate")
	if apk == nil {
		r.Anchor("package annotate")
		return
	}
	errs := c11ExportedCoreErrors(r.P)
	if len(errs) == 0 {
		r.Anchor("exported error types of annotate/internal/core")
		return
	}
	for _, name := range []string{"Ways", "Relations"} {
		fi := findFunc(apk, name)
		if fi == nil || fi.Decl.Body == nil {
			r.Anchor("annotate." + name)
			continue
		}
		sig := fi.Obj.Type().(*types.Signature)
		if !sig.Variadic() {
			r.Anchor("variadic ...Option parameter of annotate." + name)
			continue
		}
		optsParam := c11Param(sig.Params().At(sig.Params().Len() - 1))
		it := c11NewInterp(apk)
		paths := c11AllPaths(it, fi, nil)
		c11Dump(r, name, paths)
		if notes := c11PathNotes(it, paths); len(notes) > 0 {
			r.Unknown("route@"+name, fi.Decl.Pos(), "annotate.%s could not be followed on every path: %s", name, strings.Join(notes, "; "))
			continue
		}
		c11A2Route(r, apk, fi, name, paths, errs)
		c11A2Applied(r, fi, name, paths, optsParam)
	}
}

// c11ComputeCall finds the core.Compute call event of a path.
func c11ComputeCall(st *c11St) (c11Ev, bool) {
	for _, ev := range st.ev {
		if ev.kind == "call" {
			if _, ok := ev.call.isFuncCall(c11CorePath, "Compute"); ok {
				return ev, true
			}
		}
	}
	return c11Ev{}, false
}

func c11A2Route(r *core.R, apk *packages.Package, fi *FuncInfo, name string, paths []c11Out, errs []*types.Named) {
	var routeBad, passBad []string
	mapBad := map[string][]string{}
	mapOK := map[string]string{}
	nCall, nErrPaths, nPass := 0, 0, 0
	pos := fi.Decl.Pos()
	for _, p := range paths {
		if p.ctl != c11Return {
			continue
		}
		st := p.st
		cev, ok := c11ComputeCall(st)
		if !ok {
			continue
		}
		nCall++
		pos = cev.node.Pos()
		errC := &c11V{k: "res", xs: []*c11V{cev.call}, id: 1}
		if len(p.res) == 0 {
			continue
		}
		res := p.res[len(p.res)-1]
		if st.isNil(errC, -1) == c11T {
			continue // success path
		}
		nErrPaths++
		where := "`" + src(r.P.Fset, p.ret) + "` (" + r.P.Rel(c11Pos(p.ret)) + ")"
		if res.k == "nil" {
			routeBad = append(routeBad, where+" returns nil on a path where core.Compute's error is not known to be nil: its error (the documented typed errors) is dropped")
			continue
		}
		// classification of the error on this path
		var isT *types.Named
		classified := true
		for _, nt := range errs {
			want := types.NewPointer(nt)
			switch st.decided(-1, func(a *c11V) bool {
				return a.k == "typeis" && a.xs[0].key() == errC.key() && types.Identical(a.typ, want)
			}) {
			case c11T:
				isT = nt
			case c11U:
				classified = false
			}
		}
		if isT == nil && !classified {
			if res.key() == errC.key() {
				routeBad = append(routeBad, where+" hands core.Compute's error to the caller without classifying it: callers receive internal core.* error types, so the documented *annotate.NoHistoryError / *annotate.NoVisibleChildError never match")
			} else {
				routeBad = append(routeBad, where+" returns "+res.key()+" without having tested the type of core.Compute's error")
			}
			continue
		}
		if isT == nil {
			nPass++
			if res.key() != errC.key() {
				passBad = append(passBad, where+" returns "+res.key()+" for an error that is none of the core error types: datasource errors and the untyped inconsistency error must be returned unchanged")
			}
			continue
		}
		tname := isT.Obj().Name()
		b := c11StripPtr(res)
		if b.k != "struct" || st.heap[b.id] == nil || res.k != "addr" {
			mapBad[tname] = append(mapBad[tname], where+" returns "+res.key()+" for a *core."+tname+", not a pointer to the same-named public type")
			continue
		}
		o := st.heap[b.id]
		if got := namedPath(o.typ); got != c11AnnPath+"."+tname {
			mapBad[tname] = append(mapBad[tname], where+": *core."+tname+" is mapped to "+got+", not to the same-named documented type annotate."+tname)
			continue
		}
		srcST, _ := isT.Underlying().(*types.Struct)
		dstST, _ := o.typ.Underlying().(*types.Struct)
		if srcST == nil || dstST == nil || o.unkey {
			mapBad[tname] = append(mapBad[tname], where+": error types are not structs built with field names")
			continue
		}
		asserted := &c11V{k: "assert", xs: []*c11V{errC}, typ: types.NewPointer(isT)}
		used := map[string]bool{}
		var bad []string
		for _, k := range o.names() {
			kf := c11StructField(dstST, k)
			if kf == nil {
				continue
			}
			want := ""
			if sf := c11StructField(srcST, k); sf != nil {
				want = sf.Name()
			} else {
				// corresponding field: the only source field of the same type that has no same-named destination
				n := 0
				for i := 0; i < srcST.NumFields(); i++ {
					sf := srcST.Field(i)
					if c11StructField(dstST, sf.Name()) == nil && types.Identical(sf.Type(), kf.Type()) {
						want = sf.Name()
						n++
					}
				}
				if n != 1 {
					want = ""
				}
			}
			if want == "" {
				continue // destination-only field (not derivable from the core error)
			}
			if !o.f[k].isFieldOf(asserted.key(), want) {
				bad = append(bad, tname+"."+k+" is "+o.f[k].key()+": it must come from the core error's "+want)
				continue
			}
			used[want] = true
		}
		for i := 0; i < srcST.NumFields(); i++ {
			if !used[srcST.Field(i).Name()] {
				bad = append(bad, "core."+tname+"."+srcST.Field(i).Name()+" is not carried over")
			}
		}
		if len(bad) > 0 {
			mapBad[tname] = append(mapBad[tname], where+": "+strings.Join(bad, "; "))
			continue
		}
		var fs []string
		for f := range used {
			fs = append(fs, f)
		}
		sort.Strings(fs)
		mapOK[tname] = strings.Join(fs, ",")
	}
	c := "route@" + name
	switch {
	case nCall == 0:
		r.Anchor("call of core.Compute in annotate." + name)
		return
	case nErrPaths == 0:
		r.Bad(c, pos, "no return path keeps core.Compute's error: the documented typed errors are dropped")
	case len(routeBad) > 0:
		r.Bad(c, pos, "%s", strings.Join(c11Uniq(routeBad), "; "))
	default:
		r.OK(c, pos, "on each of the %d return paths where core.Compute's error may be non-nil, the error is classified against every exported core error type and a non-nil error is returned", nErrPaths)
	}
	for _, nt := range errs {
		tname := nt.Obj().Name()
		c := "maperr@" + name + " " + tname
		switch {
		case len(mapBad[tname]) > 0:
			r.Bad(c, pos, "%s; the public error would not identify the child/time the internal error reports", strings.Join(c11Uniq(mapBad[tname]), "; "))
		case mapOK[tname] == "":
			if _, ok := mapOK[tname]; ok {
				r.OK(c, pos, "a *core.%s is returned as &annotate.%s", tname, tname)
			} else {
				r.Bad(c, pos, "no path of annotate.%s recognises a *core.%s: Compute's %s reaches the caller as an internal type, so errors.As / type assertions on the documented *annotate.%s fail", name, tname, tname, tname)
			}
		default:
			r.OK(c, pos, "on every path that recognises a *core.%s the result is &annotate.%s with {%s} carried over from the corresponding fields", tname, tname, mapOK[tname])
		}
	}
	c = "passthrough@" + name
	switch {
	case len(passBad) > 0:
		r.Bad(c, pos, "%s", strings.Join(c11Uniq(passBad), "; "))
	case nPass == 0:
		r.Bad(c, pos, "no path returns an error of core.Compute that is none of the core error types: datasource errors would not propagate unchanged")
	default:
		r.OK(c, pos, "errors that are none of the core error types (datasource errors, the untyped inconsistency error) are returned unchanged (%d paths)", nPass)
	}
}

// c11A2Applied: every option of the variadic parameter is applied to the Options value handed to core.Compute.
func c11A2Applied(r *core.R, fi *FuncInfo, name string, paths []c11Out, optsParam *c11V) {
	c := "options@" + name
	pos := fi.Decl.Pos()
	var bad []string
	nCall := 0
	// the loop(s) that call an element of the variadic parameter: loop key -> the argument on every iteration path
	type iter struct {
		arg string // the value every iteration applies its option to ("" = not an option loop)
		ok  bool   // every completed iteration applies its option to that value
	}
	applied := map[string][]string{} // loop key -> per completed iteration: the argument of the option call ("" = none)
	for _, p := range paths {
		if p.ctl != c11Back {
			continue
		}
		arg := ""
		for _, ev := range p.st.ev {
			if ev.kind != "call" || ev.call.k != "callv" || len(ev.call.xs) != 2 {
				continue
			}
			f := ev.call.xs[0]
			if f.k == "index" && f.xs[0].key() == optsParam.key() {
				if lk, ok := c11IsIterKey(f.xs[1]); ok && lk == p.loopKey {
					arg = ev.call.xs[1].key()
				}
				if lk, ok := c11IsLoopSym(f.xs[1]); ok && lk == p.loopKey && c11CountsAll(p, f.xs[1], optsParam) {
					arg = ev.call.xs[1].key()
				}
			}
		}
		applied[p.loopKey] = append(applied[p.loopKey], arg)
	}
	loops := map[string]*iter{}
	for k, args := range applied {
		l := &iter{ok: true}
		for _, a := range args {
			if a != "" {
				l.arg = a
			}
		}
		if l.arg == "" {
			continue
		}
		for _, a := range args {
			if a != l.arg {
				l.ok = false // an iteration ends without applying its option (or applies it to something else)
			}
		}
		loops[k] = l
	}
	for _, p := range paths {
		if p.ctl != c11Return {
			continue
		}
		cev, ok := c11ComputeCall(p.st)
		if !ok {
			continue
		}
		nCall++
		pos = cev.node.Pos()
		args, _ := cev.call.isFuncCall(c11CorePath, "Compute")
		var A *c11V
		for _, a := range args {
			if b := c11StripPtr(a); b.k == "struct" && namedPath(b.typ) == c11CorePath+".Options" {
				A = a
			}
		}
		if A == nil {
			bad = append(bad, "the *core.Options argument of `"+src(r.P.Fset, cev.node)+"` is not a value built by annotate."+name+" that the options could have been applied to: IgnoreInconsistency / IgnoreMissingChildren / Threshold / ChildFilter given by the caller have no effect")
			continue
		}
		// a completed option loop on the way to the call, applied to this very value
		okLoop := false
		for _, ev := range p.st.ev {
			if ev.kind == "loop" && ev.nas <= cev.nas {
				if l := loops[ev.key]; l != nil && l.ok && l.arg == A.key() {
					okLoop = true
				}
			}
		}
		if !okLoop {
			bad = append(bad, "no loop over the options that calls every option with the value handed to `"+src(r.P.Fset, cev.node)+"` completes before that call: the caller's options have no effect")
		}
	}
	switch {
	case nCall == 0:
		r.Anchor("call of core.Compute in annotate." + name)
	case len(bad) > 0:
		r.Bad(c, pos, "%s", strings.Join(c11Uniq(bad), "; "))
	default:
		r.OK(c, pos, "on every path reaching core.Compute a loop over the variadic options has called each option with the *core.Options value that is handed to Compute")
	}
}

// c11CountsAll: on the iteration path p the loop symbol n counts through all of list: it started at 0, the
// iteration runs under n < len(list), and n is advanced by exactly one at the end of the iteration.
func c11CountsAll(p c11Out, n, list *c11V) bool {
	st := p.st
	started := false
	for _, ev := range st.ev {
		if ev.kind == "loop" && ev.key == p.loopKey {
			if pre := ev.pre[n.obj]; pre != nil && pre.isConstInt(0) {
				started = true
			}
		}
	}
	lenL := &c11V{k: "call", name: "len", xs: []*c11V{list}}
	end := st.env[n.obj]
	return started && st.truth(c11Bin(token.LSS, n, lenL)) == c11T && end != nil && end.key() == c11Bin(token.ADD, n, c11Int(1)).key()
}

// c11A2Options: each exported option constructor returns a function that sets the same-named core.Options field from the constructor's argument.
func c11A2Options(r *core.R) {
	apk := r.P.Pkg("annotate")
	if apk == nil {
		return
	}
	info := apk.TypesInfo
	found := map[string]bool{}
	for _, fi := range allFuncs(apk) {
		sig := fi.Obj.Type().(*types.Signature)
		if sig.Recv() != nil || !fi.Obj.Exported() || sig.Results().Len() != 1 || namedPath(sig.Results().At(0).Type()) != c11AnnPath+".Option" {
			continue
		}
		name := fi.Obj.Name()
		found[name] = true
		c := "option@" + name
		if sig.Params().Len() != 1 {
			r.Unknown(c, fi.Decl.Pos(), "option constructor %s does not take exactly one argument", name)
			continue
		}
		arg := c11Param(sig.Params().At(0))
		it := c11NewInterp(apk)
		outs, fr := it.run(fi, nil)
		var bad, unk []string
		nSet, nRefused := 0, 0
		pos := fi.Decl.Pos()
		for _, o := range outs {
			if o.ctl != c11Return || len(o.res) != 1 || o.res[0].k != "funclit" {
				unk = append(unk, "does not return a function literal")
				continue
			}
			lit := o.res[0].node.(*ast.FuncLit)
			if len(lit.Type.Params.List) != 1 || len(lit.Type.Params.List[0].Names) != 1 {
				unk = append(unk, "the returned function does not name its *core.Options parameter")
				continue
			}
			po := info.Defs[lit.Type.Params.List[0].Names[0]]
			target := c11Sym("options value", po)
			st := o.st
			st.env[po] = target
			st.ev = nil
			if lit.Type.Results != nil {
				for _, f := range lit.Type.Results.List {
					for _, nm := range f.Names {
						if ro, ok := info.Defs[nm].(*types.Var); ok {
							st.env[ro] = it.zeroOf(st, ro.Type())
						}
					}
				}
			}
			lfr := &c11Frame{pk: fr.pk, info: fr.info, lit: lit, path: "/lit", depth: 1}
			for _, lo := range it.execList(lfr, st, lit.Body.List) {
				if lo.ctl == c11Return && len(lo.res) == 0 && lit.Type.Results != nil { // bare return with named results
					for _, f := range lit.Type.Results.List {
						for _, nm := range f.Names {
							if ro, ok := info.Defs[nm].(*types.Var); ok {
								lo.res = append(lo.res, lo.st.env[ro])
							}
						}
					}
				}
				if len(lo.st.notes) > 0 {
					unk = append(unk, strings.Join(lo.st.notes, "; "))
					continue
				}
				// An argument that is out of the option's domain (a negative duration) may be refused: the path
				// that has decided `arg < 0` may leave the field alone and/or return an error. Every other value,
				// the zero value included, must be applied.
				refused := lo.st.truth(c11Bin(token.LSS, arg, c11Int(0))) == c11T
				if lo.ctl != c11Return || len(lo.res) != 1 || (lo.res[0].k != "nil" && !refused) {
					bad = append(bad, "the option can return a non-nil error / no value for an argument that is not known to be negative")
				}
				var sets []c11Ev
				for _, ev := range lo.st.ev {
					if ev.kind == "store" && ev.lhs.k == "field" && ev.lhs.xs[0].key() == target.key() {
						sets = append(sets, ev)
					}
				}
				switch {
				case len(sets) == 0 && refused:
					nRefused++
				case len(sets) != 1:
					bad = append(bad, "on some path (not one that decided the argument negative) the option assigns "+strconv.Itoa(len(sets))+" fields of core.Options; it must set exactly the field "+name+" for every value of its argument, the zero value included")
				case sets[0].lhs.obj.Name() != name:
					pos = sets[0].node.Pos()
					bad = append(bad, "`"+src(r.P.Fset, sets[0].node)+"`: the public option "+name+" sets core.Options."+sets[0].lhs.obj.Name()+" instead of the same-named field, so the documented "+name+" behaviour is not switched by it")
				case sets[0].rhs.key() != arg.key():
					pos = sets[0].node.Pos()
					bad = append(bad, "core.Options."+name+" receives "+sets[0].rhs.key()+": it must receive the option's argument")
				default:
					pos = sets[0].node.Pos()
					nSet++
				}
			}
		}
		switch {
		case it.overflow || len(unk) > 0:
			r.Unknown(c, fi.Decl.Pos(), "option constructor %s: %s; accepted: `func %s(v T) Option { return func(o *core.Options) error { o.%s = v; return nil } }`", name, strings.Join(c11Uniq(unk), "; "), name, name)
		case len(bad) > 0:
			r.Bad(c, pos, "%s", strings.Join(c11Uniq(bad), "; "))
		case nSet == 0:
			r.Bad(c, pos, "option %s never sets core.Options.%s", name, name)
		default:
			r.OK(c, pos, "on every path the returned function sets core.Options.%s (and nothing else) from the constructor's argument and returns nil (%d paths that decided the argument negative refuse it)", name, nRefused)
		}
	}
	for _, name := range []string{"ChildFilter", "IgnoreInconsistency", "IgnoreMissingChildren", "Threshold"} {
		if !found[name] {
			r.Bad("option@"+name, 0, "package annotate has no exported option constructor %s returning Option: the documented option cannot be set", name)
		}
	}
}
