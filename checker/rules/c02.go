package rules

import (
	"osmcheck/core"
)

func init() {
	register(&core.Property{
		ID:    "C02",
		Title: "Parallel PBF decoding preserves file order under every schedule",
		Explanation: "Decided on the pipeline model (found by role, goroutine bodies as closures or as `go f(args)` methods, helpers followed) for every schedule, because the rules are about which goroutine can touch what and in which channel order, not about timing. The order rules run automata over every path of a goroutine (control-flow graph, helper calls inlined), so they do not depend on statement shape, naming or on which helper holds a statement: " +
			"(Q1) the only ordering mechanism is wired consistently: in the reader, between two passes of the read loop's head, the slot dec.inputs[i] is evaluated once and before the step, i is stepped once by (i+1)%n (n the worker count), exactly one pair (data or error) is emitted on the picked channel, i starts at 0, and a block sent before the loop goes to slot 0 followed by exactly one step; the serializer picks dec.outputs[i] with the same start, step and modulus, receives once per turn from the picked channel and forwards exactly the received pair once to the consumer's queue; worker k receives from the channel appended to inputs and sends on the channel appended to outputs in its iteration of the spawning loop (each appended once, unconditionally, nowhere else) and emits exactly one output pair per input pair on every path; only the consumer (Close) and the serializer's deferred exit may cancel the decoder's context; " +
			"(Q2) each worker gets a per-iteration fresh decoder value (allocation or constructor) referenced only by its go statement; goroutine closures capture no loop variable; " +
			"(Q3) on every path of the decode entry a fresh make is assigned to the object slice before anything is appended and before it is returned; the slice is only written by that make and by append; " +
			"(Q4) the reader's scratch buffers flow only into io.ReadFull, binary.BigEndian.Uint32, proto.Unmarshal and len; no proto.UnmarshalOptions and no unsafe in the package; " +
			"(Q5) no decoder/Scanner field is written in one role and accessed in another without a hand-off (accesses under a Done case belong to C07), and per-worker decoder fields are only reached through the receiver / a parameter of worker-only functions. " +
			"NOT decided: equality of the delivered sequences as values, races inside libraries or user filter callbacks; round-robin counters written in another form than `i = (i+1) % n` are reported as not understood.",
		Assumptions: []string{"go/types, go/cfg (x/tools v0.29.0)", "FIFO order of Go channels", "proto.Unmarshal copies bytes/strings out of its input (default options)", "static intra-package call graph"},
		LevelText:   "Structural necessary conditions of order preservation under every schedule: round-robin dispatch and collection agree (start, step, modulus, one operation per block), workers are 1:1 with their channel pair and emit one pair per block, and no memory is shared across goroutines after hand-off.",
		LevelNote:   "Trusts the type checker, FIFO channels, and that proto.Unmarshal copies; does not decide value equality of sequences or library internals.",
		Technique:   "pipeline-model extraction + structural agreement of the two round-robin counters + ownership/escape rules (closure capture, fresh-slice typestate, scratch-buffer flow) + per-field role separation",
		DesignRef:   "DESIGN.md §3.1, §5 C02",
		Rules: []*core.Rule{
			{ID: "Q1", Floor: 9, Doc: "round-robin dispatch and collection agree; one output pair per input pair; cancel authority (reader 4 constructs, serializer 2, worker 2, cancel sites >= 1)", Run: c02Q1},
			{ID: "Q2", Floor: 4, Doc: "private per-worker decoder; closures capture no loop variable", Run: c02Q2},
			{ID: "Q3", Floor: 3, Doc: "object slice is fresh per block and only appended to before it is returned", Run: c02Q3},
			{ID: "Q4", Floor: 5, Doc: "scratch buffers do not escape; no UnmarshalOptions; no unsafe", Run: c02Q4},
			{ID: "Q5", Floor: 30, Doc: "role separation of decoder, Scanner and per-worker decoder fields", Run: c02Q5},
		},
		Benign: c02Benign,
		Mutants: []core.Mutant{
			{Name: "serializer-starts-at-1", File: "osmpbf/decode.go", Find: "for i := 0; ; i = (i + 1) % n {", Replace: "for i := 1 % n; ; i = (i + 1) % n {", ExpectRule: "Q1", ExpectConstruct: "serializer"},
			{Name: "reader-step-2", File: "osmpbf/decode.go", Find: "\t\t\tinput := dec.inputs[i]\n\t\t\ti = (i + 1) % n", Replace: "\t\t\tinput := dec.inputs[i]\n\t\t\ti = (i + 2) % n", ExpectRule: "Q1", ExpectConstruct: "reader"},
			{Name: "restart-no-advance", File: "osmpbf/decode.go", Find: "\t\t\tdec.inputs[0] <- iPair{Offset: 0, Blob: blob, Err: err}\n\n\t\t\ti = (i + 1) % n\n", Replace: "\t\t\tdec.inputs[0] <- iPair{Offset: 0, Blob: blob, Err: err}\n", ExpectRule: "Q1", ExpectConstruct: "restart"},
			{Name: "error-pair-skips-slot", File: "osmpbf/decode.go", Find: "\t\t\tpair := iPair{Offset: offset, Blob: blob}\n\t\t\tif err != nil {\n\t\t\t\tpair = iPair{Err: err}\n\t\t\t}\n", Replace: "\t\t\tpair := iPair{Offset: offset, Blob: blob}\n\t\t\tif err != nil {\n\t\t\t\tpair = iPair{Err: err}\n\t\t\t\tinput = dec.inputs[0]\n\t\t\t}\n", ExpectRule: "Q1", ExpectConstruct: "reader"},
			{Name: "worker-skips-error-pairs", File: "osmpbf/decode.go", Find: "\t\t\t\t} else {\n\t\t\t\t\tout = oPair{Err: p.Err} // send input error as is\n\t\t\t\t}", Replace: "\t\t\t\t} else if p.Err != io.EOF {\n\t\t\t\t\tcontinue\n\t\t\t\t} else {\n\t\t\t\t\tout = oPair{Err: p.Err} // send input error as is\n\t\t\t\t}", ExpectRule: "Q1", ExpectConstruct: "worker"},
			{Name: "outputs-appended-twice", File: "osmpbf/decode.go", Find: "\t\tdec.outputs = append(dec.outputs, output)\n", Replace: "\t\tdec.outputs = append(dec.outputs, output)\n\t\tif i == 0 {\n\t\t\tdec.outputs = append(dec.outputs, output)\n\t\t}\n", ExpectRule: "Q1", ExpectConstruct: "worker"},
			{Name: "worker-cancels-on-error", File: "osmpbf/decode.go", Find: "\t\t\t\tselect {\n\t\t\t\tcase output <- out:\n\t\t\t\tcase <-dec.ctx.Done():\n\t\t\t\t}\n", Replace: "\t\t\t\tselect {\n\t\t\t\tcase output <- out:\n\t\t\t\tcase <-dec.ctx.Done():\n\t\t\t\t}\n\n\t\t\t\tif out.Err != nil && out.Err != io.EOF {\n\t\t\t\t\tdec.cancel()\n\t\t\t\t\treturn\n\t\t\t\t}\n", ExpectRule: "Q1", ExpectConstruct: "cancel-authority"},
			{Name: "worker-skips-empty-blocks", File: "osmpbf/decode.go", Find: "\t\t\t\t\tobjects, err := dd.Decode(p.Blob)\n", Replace: "\t\t\t\t\tobjects, err := dd.Decode(p.Blob)\n\t\t\t\t\tif err == nil && len(objects) == 0 {\n\t\t\t\t\t\tcontinue\n\t\t\t\t\t}\n", ExpectRule: "Q1", ExpectConstruct: "one-out-per-in"},
			{Name: "reader-picks-after-step", File: "osmpbf/decode.go", Find: "\t\t\tinput := dec.inputs[i]\n\t\t\ti = (i + 1) % n\n", Replace: "\t\t\ti = (i + 1) % n\n\t\t\tinput := dec.inputs[i]\n", ExpectRule: "Q1", ExpectConstruct: "dispatch"},
			{Name: "serializer-skips-empty-pairs", File: "osmpbf/decode.go", Find: "\t\t\tselect {\n\t\t\tcase dec.serializer <- p:\n\t\t\tcase <-dec.ctx.Done():\n\t\t\t\treturn\n\t\t\t}\n", Replace: "\t\t\tif len(p.Objects) == 0 && p.Err == nil {\n\t\t\t\tcontinue\n\t\t\t}\n\n\t\t\tselect {\n\t\t\tcase dec.serializer <- p:\n\t\t\tcase <-dec.ctx.Done():\n\t\t\t\treturn\n\t\t\t}\n", ExpectRule: "Q1", ExpectConstruct: "forward"},
			{Name: "serializer-collects-fixed-slot", File: "osmpbf/decode.go", Find: "\t\t\toutput := dec.outputs[i]\n\n\t\t\tvar p oPair", Replace: "\t\t\toutput := dec.outputs[0]\n\n\t\t\tvar p oPair", ExpectRule: "Q1", ExpectConstruct: "collect"},
			{Name: "shared-data-decoder", File: "osmpbf/decode.go", Find: "\t// start data decoders\n\tfor i := 0; i < n; i++ {\n\t\tinput := make(chan iPair, numChanels)\n\t\toutput := make(chan oPair, numChanels)\n\n\t\tdd := &dataDecoder{scanner: dec.scanner}\n", Replace: "\t// start data decoders\n\tdd := &dataDecoder{scanner: dec.scanner}\n\tfor i := 0; i < n; i++ {\n\t\tinput := make(chan iPair, numChanels)\n\t\toutput := make(chan oPair, numChanels)\n", ExpectRule: "Q2", ExpectConstruct: "decoder"},
			{Name: "reuse-object-slice", File: "osmpbf/decode_data.go", Find: "dec.q = make([]osm.Object, 0, 8000)", Replace: "dec.q = dec.q[:0]", ExpectRule: "Q3", ExpectConstruct: "q"},
			{Name: "keep-blob-buffer", File: "osmpbf/decode.go", Find: "\tblob := &osmpbf.Blob{}\n\tif err := proto.Unmarshal(buf, blob); err != nil {\n\t\treturn nil, err\n\t}\n\treturn blob, nil", Replace: "\tblob := &osmpbf.Blob{}\n\tif err := proto.Unmarshal(buf, blob); err != nil {\n\t\treturn nil, err\n\t}\n\tif blob.Raw != nil {\n\t\tblob.Raw = buf[len(buf)-len(blob.Raw):]\n\t}\n\treturn blob, nil", ExpectRule: "Q4", ExpectConstruct: "buf"},
			{Name: "unmarshal-options-merge", File: "osmpbf/decode.go", Find: "\tif err := proto.Unmarshal(buf, blob); err != nil {\n\t\treturn nil, err\n\t}\n\treturn blob, nil", Replace: "\tif err := (proto.UnmarshalOptions{Merge: true}).Unmarshal(buf, blob); err != nil {\n\t\treturn nil, err\n\t}\n\treturn blob, nil", ExpectRule: "Q4", ExpectConstruct: "UnmarshalOptions"},
			{Name: "worker-writes-decoder-field", File: "osmpbf/decode.go", Find: "\t\t\t\tvar out oPair\n", Replace: "\t\t\t\tvar out oPair\n\t\t\t\tdec.cIndex = 0\n", ExpectRule: "Q5", ExpectConstruct: "cIndex"},
		},
	})
}
