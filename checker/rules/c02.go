package rules

import (
	"fmt"
	"go/ast"
	"go/token"
	"go/types"
	"strings"

	"osmcheck/core"
)

func init() {
	register(&core.Property{
		ID:    "C02",
		Title: "Parallel PBF decoding preserves file order under every schedule",
		Explanation: "Decided on the pipeline model for every schedule, because the rules are about which goroutine can touch what and in which channel order, not about timing: " +
			"(Q1) the only ordering mechanism is wired consistently: the reader dispatches block k to inputs[i] with i stepping (i+1)%n from 0, once per block, error pairs included; the serializer collects from outputs[i] with the same start, step and modulus, one receive per turn; worker k connects inputs[k] to outputs[k] and emits exactly one output pair per input pair; " +
			"(Q2) each worker owns a private decoder value allocated in the spawning loop and captured by exactly one closure; goroutine closures capture no loop variable; " +
			"(Q3) the object slice handed to the consumer is a fresh make per block and is only appended to between that make and the return; " +
			"(Q4) the reader's scratch buffers flow only into io.ReadFull, binary.BigEndian.Uint32, proto.Unmarshal and len; no proto.UnmarshalOptions and no unsafe in the package; " +
			"(Q5) no decoder/Scanner field is written in one role and accessed in another without a hand-off (accesses under a Done case belong to C07), and per-worker decoder fields are only reached through the owning decoder value. " +
			"NOT decided: equality of the delivered sequences as values, races inside libraries or user filter callbacks.",
		Assumptions: []string{"go/types, go/cfg (x/tools v0.29.0)", "FIFO order of Go channels", "proto.Unmarshal copies bytes/strings out of its input (default options)", "static intra-package call graph"},
		LevelText:   "Structural necessary conditions of order preservation under every schedule: round-robin dispatch and collection agree (start, step, modulus, one operation per block), workers are 1:1 with their channel pair and emit one pair per block, and no memory is shared across goroutines after hand-off.",
		LevelNote:   "Trusts the type checker, FIFO channels, and that proto.Unmarshal copies; does not decide value equality of sequences or library internals.",
		Technique:   "pipeline-model extraction + structural agreement of the two round-robin counters + ownership/escape rules (closure capture, fresh-slice typestate, scratch-buffer flow) + per-field role separation",
		DesignRef:   "DESIGN.md §3.1, §5 C02",
		Rules: []*core.Rule{
			{ID: "Q1", Floor: 7, Doc: "round-robin dispatch and collection agree; one output pair per input pair", Run: c02Q1},
			{ID: "Q2", Floor: 4, Doc: "private per-worker decoder; closures capture no loop variable", Run: c02Q2},
			{ID: "Q3", Floor: 3, Doc: "object slice is fresh per block and only appended to before it is returned", Run: c02Q3},
			{ID: "Q4", Floor: 5, Doc: "scratch buffers do not escape; no UnmarshalOptions; no unsafe", Run: c02Q4},
			{ID: "Q5", Floor: 30, Doc: "role separation of decoder, Scanner and per-worker decoder fields", Run: c02Q5},
		},
		Mutants: []core.Mutant{
			{Name: "serializer-starts-at-1", File: "osmpbf/decode.go", Find: "for i := 0; ; i = (i + 1) % n {", Replace: "for i := 1 % n; ; i = (i + 1) % n {", ExpectRule: "Q1", ExpectConstruct: "serializer"},
			{Name: "reader-step-2", File: "osmpbf/decode.go", Find: "\t\t\tinput := dec.inputs[i]\n\t\t\ti = (i + 1) % n", Replace: "\t\t\tinput := dec.inputs[i]\n\t\t\ti = (i + 2) % n", ExpectRule: "Q1", ExpectConstruct: "reader"},
			{Name: "restart-no-advance", File: "osmpbf/decode.go", Find: "\t\t\tdec.inputs[0] <- iPair{Offset: 0, Blob: blob, Err: err}\n\n\t\t\ti = (i + 1) % n\n", Replace: "\t\t\tdec.inputs[0] <- iPair{Offset: 0, Blob: blob, Err: err}\n", ExpectRule: "Q1", ExpectConstruct: "restart"},
			{Name: "error-pair-skips-slot", File: "osmpbf/decode.go", Find: "\t\t\tpair := iPair{Offset: offset, Blob: blob}\n\t\t\tif err != nil {\n\t\t\t\tpair = iPair{Err: err}\n\t\t\t}\n", Replace: "\t\t\tpair := iPair{Offset: offset, Blob: blob}\n\t\t\tif err != nil {\n\t\t\t\tpair = iPair{Err: err}\n\t\t\t\tinput = dec.inputs[0]\n\t\t\t}\n", ExpectRule: "Q1", ExpectConstruct: "reader"},
			{Name: "worker-skips-error-pairs", File: "osmpbf/decode.go", Find: "\t\t\t\t} else {\n\t\t\t\t\tout = oPair{Err: p.Err} // send input error as is\n\t\t\t\t}", Replace: "\t\t\t\t} else if p.Err != io.EOF {\n\t\t\t\t\tcontinue\n\t\t\t\t} else {\n\t\t\t\t\tout = oPair{Err: p.Err} // send input error as is\n\t\t\t\t}", ExpectRule: "Q1", ExpectConstruct: "worker"},
			{Name: "outputs-appended-twice", File: "osmpbf/decode.go", Find: "\t\tdec.outputs = append(dec.outputs, output)\n", Replace: "\t\tdec.outputs = append(dec.outputs, output)\n\t\tif i == 0 {\n\t\t\tdec.outputs = append(dec.outputs, output)\n\t\t}\n", ExpectRule: "Q1", ExpectConstruct: "worker"},
			{Name: "shared-data-decoder", File: "osmpbf/decode.go", Find: "\t// start data decoders\n\tfor i := 0; i < n; i++ {\n\t\tinput := make(chan iPair, numChanels)\n\t\toutput := make(chan oPair, numChanels)\n\n\t\tdd := &dataDecoder{scanner: dec.scanner}\n", Replace: "\t// start data decoders\n\tdd := &dataDecoder{scanner: dec.scanner}\n\tfor i := 0; i < n; i++ {\n\t\tinput := make(chan iPair, numChanels)\n\t\toutput := make(chan oPair, numChanels)\n", ExpectRule: "Q2", ExpectConstruct: "decoder"},
			{Name: "reuse-object-slice", File: "osmpbf/decode_data.go", Find: "dec.q = make([]osm.Object, 0, 8000)", Replace: "dec.q = dec.q[:0]", ExpectRule: "Q3", ExpectConstruct: "q"},
			{Name: "keep-blob-buffer", File: "osmpbf/decode.go", Find: "\tblob := &osmpbf.Blob{}\n\tif err := proto.Unmarshal(buf, blob); err != nil {\n\t\treturn nil, err\n\t}\n\treturn blob, nil", Replace: "\tblob := &osmpbf.Blob{}\n\tif err := proto.Unmarshal(buf, blob); err != nil {\n\t\treturn nil, err\n\t}\n\tif blob.Raw != nil {\n\t\tblob.Raw = buf[len(buf)-len(blob.Raw):]\n\t}\n\treturn blob, nil", ExpectRule: "Q4", ExpectConstruct: "buf"},
			{Name: "unmarshal-options-merge", File: "osmpbf/decode.go", Find: "\tif err := proto.Unmarshal(buf, blob); err != nil {\n\t\treturn nil, err\n\t}\n\treturn blob, nil", Replace: "\tif err := (proto.UnmarshalOptions{Merge: true}).Unmarshal(buf, blob); err != nil {\n\t\treturn nil, err\n\t}\n\treturn blob, nil", ExpectRule: "Q4", ExpectConstruct: "UnmarshalOptions"},
			{Name: "worker-writes-decoder-field", File: "osmpbf/decode.go", Find: "\t\t\t\tvar out oPair\n", Replace: "\t\t\t\tvar out oPair\n\t\t\t\tdec.cIndex = 0\n", ExpectRule: "Q5", ExpectConstruct: "cIndex"},
		},
	})
}

// stepForm recognises `v = (v + K) % n` and returns K and the modulus object.
func stepForm(info *types.Info, st ast.Stmt, v types.Object) (int64, types.Object, bool) {
	as, ok := st.(*ast.AssignStmt)
	if !ok || as.Tok != token.ASSIGN || len(as.Lhs) != 1 || len(as.Rhs) != 1 || objOf(info, as.Lhs[0]) != v {
		return 0, nil, false
	}
	be, ok := ast.Unparen(as.Rhs[0]).(*ast.BinaryExpr)
	if !ok || be.Op != token.REM {
		return 0, nil, false
	}
	sum, ok := ast.Unparen(be.X).(*ast.BinaryExpr)
	if !ok || sum.Op != token.ADD || objOf(info, sum.X) != v {
		return 0, nil, false
	}
	k, ok := constInt(info, sum.Y)
	if !ok {
		return 0, nil, false
	}
	n := objOf(info, be.Y)
	return k, n, n != nil
}

func c02Q1(r *core.R) {
	m := modelOrAnchor(r)
	if m == nil {
		return
	}
	info := m.info
	// number-of-workers variable: bound of the spawning loop
	var nObj types.Object
	var spawnLoop *ast.ForStmt
	for _, g := range m.gos {
		if g.inLoop != nil {
			spawnLoop = g.inLoop
			if be, ok := g.inLoop.Cond.(*ast.BinaryExpr); ok {
				nObj = objOf(info, be.Y)
			}
		}
	}
	if nObj == nil || !loopRunsNTimes(info, spawnLoop, nObj) {
		r.Anchor("worker-spawning loop `for i := 0; i < n; i++`")
		return
	}
	ops := m.chanOps()
	consumerRecv := ""
	for _, op := range ops {
		if (op.kind == "recv" || op.kind == "range") && op.u.roles["consumer"] {
			consumerRecv = op.class
		}
	}
	// channel classes: inputs = what workers range over, outputs = what workers send on
	var inCls, outCls string
	for _, op := range ops {
		if op.u.roles["worker"] && len(op.u.roles) == 1 {
			if op.kind == "range" {
				inCls = op.class
			}
			if op.kind == "send" {
				outCls = op.class
			}
		}
	}
	if inCls == "" || outCls == "" || consumerRecv == "" {
		r.Anchor("worker input/output channel classes")
		return
	}

	// ---- reader
	rd := m.goOf("reader")
	ru := m.units[rd.lit]
	var rloop *ast.ForStmt
	for _, st := range rd.lit.Body.List {
		if fs, ok := st.(*ast.ForStmt); ok {
			rloop = fs
		}
	}
	if rloop == nil {
		r.Anchor("reader loop at the top level of the reader goroutine")
		return
	}
	// counter: the variable indexing dec.<inCls> in the loop
	var iObj types.Object
	var chVar types.Object
	var pickIdx, stepIdx, sendIdx = -1, -1, -1
	for k, st := range rloop.Body.List {
		switch s := st.(type) {
		case *ast.AssignStmt:
			if len(s.Lhs) == 1 && len(s.Rhs) == 1 {
				if ix, ok := ast.Unparen(s.Rhs[0]).(*ast.IndexExpr); ok {
					if f := fieldOf(info, ix.X); f != nil && f.Name() == inCls {
						if pickIdx >= 0 {
							r.Bad("dispatch@"+ru.name, s.Pos(), "the channel for a block is chosen more than once per iteration")
						}
						pickIdx = k
						iObj = objOf(info, ix.Index)
						chVar = objOf(info, s.Lhs[0])
					}
				}
			}
		case *ast.SelectStmt:
			for _, c := range s.Body.List {
				if snd, ok := c.(*ast.CommClause).Comm.(*ast.SendStmt); ok {
					if sendIdx >= 0 {
						r.Bad("dispatch@"+ru.name, snd.Pos(), "more than one send per iteration")
					}
					sendIdx = k
					if chVar == nil || objOf(info, snd.Chan) != chVar {
						r.Bad("dispatch@"+ru.name+" send", snd.Pos(), "the block is sent on `%s`, not on the channel picked by the round-robin counter in this iteration", src(r.P.Fset, snd.Chan))
					}
				}
			}
		case *ast.SendStmt:
			sendIdx = k
			if chVar == nil || objOf(info, s.Chan) != chVar {
				r.Bad("dispatch@"+ru.name+" send", s.Pos(), "the block is sent on `%s`, not on the channel picked by the round-robin counter in this iteration", src(r.P.Fset, s.Chan))
			}
		}
	}
	if iObj != nil {
		for k, st := range rloop.Body.List {
			if kk, nn, ok := stepForm(info, st, iObj); ok {
				if stepIdx >= 0 {
					r.Bad("dispatch@"+ru.name+" step", st.Pos(), "the round-robin counter is stepped more than once per iteration")
				}
				stepIdx = k
				if kk != 1 || nn != nObj {
					r.Bad("dispatch@"+ru.name+" step", st.Pos(), "`%s`: the dispatch counter must advance by 1 modulo the number of workers %s (the serializer collects with step 1)", src(r.P.Fset, st), nObj.Name())
				}
			}
		}
	}
	c := "dispatch@" + ru.name
	switch {
	case pickIdx < 0 || iObj == nil:
		r.Bad(c, rloop.Pos(), "the reader loop does not pick `dec.%s[i]` once per iteration at the top level of its body", inCls)
	case stepIdx < 0:
		r.Bad(c+" step", rloop.Pos(), "the dispatch counter %s is not advanced by `(i+1) %% %s` once per iteration", iObj.Name(), nObj.Name())
	case sendIdx < 0:
		r.Bad(c, rloop.Pos(), "no unconditional send at the top level of the reader loop: some blocks (e.g. error pairs) would not take their round-robin slot")
	default:
		// no other write to the counter or to the picked channel variable inside the loop
		extra := 0
		ast.Inspect(rloop.Body, func(n ast.Node) bool {
			switch s := n.(type) {
			case *ast.AssignStmt:
				for _, l := range s.Lhs {
					if o := objOf(info, l); o != nil && (o == iObj || o == chVar) {
						extra++
					}
				}
			case *ast.IncDecStmt:
				if objOf(info, s.X) == iObj {
					extra++
				}
			case *ast.BranchStmt:
				if s.Tok == token.CONTINUE || s.Tok == token.BREAK || s.Tok == token.GOTO {
					if s.Pos() < rloop.Body.List[sendIdx].Pos() {
						extra += 100
					}
				}
			}
			return true
		})
		if extra != 2 {
			r.Bad(c, rloop.Pos(), "inside the reader loop the counter/channel variables are written %d times (expected exactly the pick and the step) or a branch statement bypasses the send: a block can take a slot other than its round-robin one", extra)
		} else {
			r.OK(c, rloop.Pos(), "each iteration picks dec.%s[%s], steps %s=(%s+1)%%%s once and sends exactly one pair (data or error) on the picked channel", inCls, iObj.Name(), iObj.Name(), iObj.Name(), nObj.Name())
		}
	}
	// reader start: counter zero-initialised; restart block goes to index 0 then one step
	if iObj != nil {
		c := "restart@" + ru.name
		zero := false
		ast.Inspect(rd.lit.Body, func(n ast.Node) bool {
			if vs, ok := n.(*ast.ValueSpec); ok {
				for k, nm := range vs.Names {
					if info.Defs[nm] == iObj {
						if len(vs.Values) == 0 {
							zero = true
						} else if v, ok := constInt(info, vs.Values[k]); ok && v == 0 {
							zero = true
						}
					}
				}
			}
			if as, ok := n.(*ast.AssignStmt); ok && as.Tok == token.DEFINE {
				for k, l := range as.Lhs {
					if info.Defs[l.(*ast.Ident)] == iObj && k < len(as.Rhs) {
						if v, ok := constInt(info, as.Rhs[k]); ok && v == 0 {
							zero = true
						}
					}
				}
			}
			return true
		})
		if !zero {
			r.Bad(c+" start", rd.lit.Pos(), "the dispatch counter does not start at 0 (the serializer starts collecting at 0)")
		} else {
			r.OK(c+" start", rd.lit.Pos(), "dispatch counter %s starts at 0", iObj.Name())
		}
		// bare sends before the loop
		for _, op := range ops {
			if op.u != ru || op.kind != "send" || op.pos > rloop.Pos() {
				continue
			}
			ix, ok := ast.Unparen(op.expr).(*ast.IndexExpr)
			v, okc := int64(-1), false
			if ok {
				v, okc = constInt(info, ix.Index)
			}
			// the send and exactly one step share a block statement
			par := parentsOf(r.P, m.start)
			var snd ast.Node
			ast.Inspect(rd.lit.Body, func(n ast.Node) bool {
				if s, ok := n.(*ast.SendStmt); ok && s.Pos() == op.pos {
					snd = s
				}
				return true
			})
			blk, _ := par[snd].(*ast.BlockStmt)
			steps := 0
			if blk != nil {
				for _, st := range blk.List {
					if kk, nn, ok := stepForm(info, st, iObj); ok && kk == 1 && nn == nObj && st.Pos() > op.pos {
						steps++
					}
				}
			}
			if okc && v == 0 && steps == 1 {
				r.OK(c, op.pos, "the restart block is sent to dec.%s[0] and the counter is stepped once, so the loop continues at slot 1", inCls)
			} else {
				r.Bad(c, op.pos, "the block read before the loop must go to slot 0 and advance the counter exactly once (const index 0: %v, steps after it: %d): otherwise the serializer collects it out of order", okc && v == 0, steps)
			}
		}
	}

	// ---- serializer
	sg := m.goOf("serializer")
	su := m.units[sg.lit]
	var sloop *ast.ForStmt
	for _, st := range sg.lit.Body.List {
		if fs, ok := st.(*ast.ForStmt); ok {
			sloop = fs
		}
	}
	c = "collect@" + su.name
	if sloop == nil {
		r.Anchor("serializer loop")
	} else {
		var jObj types.Object
		startOK, stepOK := false, false
		if init, ok := sloop.Init.(*ast.AssignStmt); ok && len(init.Lhs) == 1 && len(init.Rhs) == 1 {
			jObj = objOf(info, init.Lhs[0])
			if v, ok := constInt(info, init.Rhs[0]); ok && v == 0 {
				startOK = true
			}
		}
		if jObj != nil && sloop.Post != nil {
			if kk, nn, ok := stepForm(info, sloop.Post, jObj); ok && kk == 1 && nn == nObj {
				stepOK = true
			}
		}
		// one receive per iteration from dec.<outCls>[j]
		nrecv, recvOK := 0, true
		var outVar types.Object
		for _, st := range sloop.Body.List {
			if as, ok := st.(*ast.AssignStmt); ok && len(as.Rhs) == 1 {
				if ix, ok := ast.Unparen(as.Rhs[0]).(*ast.IndexExpr); ok {
					if f := fieldOf(info, ix.X); f != nil && f.Name() == outCls && objOf(info, ix.Index) == jObj {
						outVar = objOf(info, as.Lhs[0])
					}
				}
			}
		}
		for _, op := range ops {
			if op.u == su && op.kind == "recv" && op.class == outCls {
				nrecv++
				if outVar == nil || objOf(info, op.expr) != outVar {
					recvOK = false
				}
				// must be a top-level select of the loop body
				top := false
				for _, st := range sloop.Body.List {
					if st == op.sel {
						top = true
					}
				}
				if !top {
					recvOK = false
				}
			}
		}
		writes := 0
		ast.Inspect(sloop.Body, func(n ast.Node) bool {
			switch s := n.(type) {
			case *ast.AssignStmt:
				for _, l := range s.Lhs {
					if o := objOf(info, l); o != nil && (o == jObj || (o == outVar && s.Tok != token.DEFINE)) {
						writes++
					}
				}
			case *ast.IncDecStmt:
				if objOf(info, s.X) == jObj {
					writes++
				}
			case *ast.BranchStmt:
				if s.Tok == token.CONTINUE {
					writes += 100 // continue still runs the post statement but skips the forward to the queue
				}
			}
			return true
		})
		switch {
		case !startOK:
			r.Bad(c, sloop.Pos(), "the serializer does not start collecting at slot 0 (`%s`), where the reader puts the first block", src(r.P.Fset, sloop.Init))
		case !stepOK:
			r.Bad(c, sloop.Pos(), "the serializer's counter is not advanced by `(i+1) %% %s` per turn", nObj.Name())
		case nrecv != 1 || !recvOK:
			r.Bad(c, sloop.Pos(), "the serializer must receive exactly once per turn, unconditionally, from dec.%s[i] (found %d receives)", outCls, nrecv)
		case writes != 0:
			r.Bad(c, sloop.Pos(), "the serializer's counter/channel variables are modified inside the loop body or a turn is skipped with continue")
		default:
			r.OK(c, sloop.Pos(), "starts at 0, steps (i+1)%%%s in the post statement, one unconditional receive from dec.%s[i] per turn — the same start, step and modulus as the reader's dispatch", nObj.Name(), outCls)
		}
		// forwards what it received to the consumer queue unchanged, once
		c2 := "forward@" + su.name
		nsend := 0
		okFwd := true
		var recvVar types.Object
		for _, op := range ops {
			if op.u == su && op.kind == "recv" && op.class == outCls && op.clause != nil {
				if as, ok := op.clause.Comm.(*ast.AssignStmt); ok && len(as.Lhs) == 1 {
					recvVar = objOf(info, as.Lhs[0])
				}
			}
		}
		ast.Inspect(sloop.Body, func(n ast.Node) bool {
			if s, ok := n.(*ast.SendStmt); ok {
				nsend++
				if f := fieldOf(info, s.Chan); f == nil || f.Name() != consumerRecv || recvVar == nil || objOf(info, s.Value) != recvVar {
					okFwd = false
				}
			}
			return true
		})
		r.Check(nsend == 1 && okFwd, c2, sloop.Pos(), "each received pair is forwarded once, unchanged, to the ordered queue the consumer reads",
			fmt.Sprintf("the serializer does not forward exactly the received pair to dec.%s once per turn (sends: %d)", consumerRecv, nsend))
	}

	// ---- workers: inputs[k] <-> outputs[k]
	wg := m.goOf("worker")
	wu := m.units[wg.lit]
	c = "wiring@" + wu.name
	// locals made in the loop body
	var inVar, outVar types.Object
	appIn, appOut := 0, 0
	for _, st := range spawnLoop.Body.List {
		as, ok := st.(*ast.AssignStmt)
		if !ok || len(as.Lhs) != 1 || len(as.Rhs) != 1 {
			continue
		}
		if call, ok := as.Rhs[0].(*ast.CallExpr); ok {
			switch builtinName(info, call) {
			case "append":
				if f := fieldOf(info, as.Lhs[0]); f != nil && len(call.Args) == 2 && fieldOf(info, call.Args[0]) == f {
					if f.Name() == inCls {
						appIn++
						inVar = objOf(info, call.Args[1])
					}
					if f.Name() == outCls {
						appOut++
						outVar = objOf(info, call.Args[1])
					}
				}
			}
		}
	}
	// all appends to the two fields anywhere in the package
	totalApp := 0
	for _, u := range m.sortedUnits() {
		m.walkUnit(u, func(n ast.Node) bool {
			if as, ok := n.(*ast.AssignStmt); ok {
				for _, l := range as.Lhs {
					if f := fieldOf(info, l); f != nil && (f.Name() == inCls || f.Name() == outCls) && namedPath(selRecv(info, ast.Unparen(l))) == namedPath(m.decoderT) {
						totalApp++
					}
				}
			}
			return true
		})
	}
	// the closure ranges over inVar and sends on outVar; both are made in this iteration
	madeInLoop := func(o types.Object) bool {
		return o != nil && o.Pos() > spawnLoop.Body.Pos() && o.Pos() < spawnLoop.Body.End()
	}
	okWire := appIn == 1 && appOut == 1 && totalApp == 2 && madeInLoop(inVar) && madeInLoop(outVar)
	var rngVar, sndVar types.Object
	for _, op := range ops {
		if op.u == wu && op.kind == "range" {
			rngVar = objOf(info, op.expr)
		}
		if op.u == wu && op.kind == "send" {
			sndVar = objOf(info, op.expr)
		}
	}
	if rngVar != inVar || sndVar != outVar {
		okWire = false
	}
	r.Check(okWire, c, wg.stmt.Pos(), fmt.Sprintf("worker k ranges over the channel appended to dec.%s and sends on the channel appended to dec.%s in the same iteration (each appended exactly once, nowhere else)", inCls, outCls),
		fmt.Sprintf("worker k is not wired inputs[k]→outputs[k]: appends per iteration in=%d out=%d, appends in package=%d, closure ranges over the appended input: %v, sends on the appended output: %v", appIn, appOut, totalApp, rngVar == inVar, sndVar == outVar))
	// one output pair per input pair on all paths
	c = "one-out-per-in@" + wu.name
	var wloop *ast.RangeStmt
	for _, st := range wg.lit.Body.List {
		if rs, ok := st.(*ast.RangeStmt); ok {
			wloop = rs
		}
	}
	if wloop == nil {
		r.Anchor("worker range loop")
	} else {
		top := 0
		for _, st := range wloop.Body.List {
			if sel, ok := st.(*ast.SelectStmt); ok {
				for _, cc := range sel.Body.List {
					if _, ok := cc.(*ast.CommClause).Comm.(*ast.SendStmt); ok {
						top++
					}
				}
			}
			if _, ok := st.(*ast.SendStmt); ok {
				top++
			}
		}
		total, branches := 0, 0
		ast.Inspect(wloop.Body, func(n ast.Node) bool {
			switch s := n.(type) {
			case *ast.SendStmt:
				total++
			case *ast.BranchStmt:
				_ = s
				branches++
			case *ast.ReturnStmt:
				branches++
			}
			return true
		})
		r.Check(top == 1 && total == 1 && branches == 0, c, wloop.Pos(), "the loop body sends exactly one pair per received pair at its top level; no continue/break/return can skip it (a decode or input error is sent as a pair too)",
			fmt.Sprintf("a worker does not emit exactly one output pair per input pair on every path (top-level sends %d, sends %d, branch/return statements %d): the serializer's slot for that block would be filled by the next block", top, total, branches))
	}
}

func c02Q2(r *core.R) {
	m := modelOrAnchor(r)
	if m == nil {
		return
	}
	info := m.info
	wg := m.goOf("worker")
	// the per-worker decoder variable: local of type *dataDecoder used in the worker closure
	var dd types.Object
	ast.Inspect(wg.lit.Body, func(n ast.Node) bool {
		if id, ok := n.(*ast.Ident); ok {
			if o := info.Uses[id]; o != nil && namedPath(o.Type()) == namedPath(m.ddT) {
				if _, isVar := o.(*types.Var); isVar {
					dd = o
				}
			}
		}
		return true
	})
	c := "private decoder@" + m.units[wg.lit].name
	if dd == nil {
		r.Anchor("per-worker decoder variable used in the worker closure")
		return
	}
	inLoop := dd.Pos() > wg.inLoop.Body.Pos() && dd.Pos() < wg.inLoop.Body.End()
	// fresh allocation per iteration
	fresh := false
	ast.Inspect(wg.inLoop.Body, func(n ast.Node) bool {
		if as, ok := n.(*ast.AssignStmt); ok && len(as.Lhs) == 1 && len(as.Rhs) == 1 && info.Defs[identOf(as.Lhs[0])] == dd {
			if ue, ok := as.Rhs[0].(*ast.UnaryExpr); ok && ue.Op == token.AND {
				if _, ok := ue.X.(*ast.CompositeLit); ok {
					fresh = true
				}
			}
			if call, ok := as.Rhs[0].(*ast.CallExpr); ok && builtinName(info, call) == "new" {
				fresh = true
			}
		}
		return true
	})
	// used only inside the worker closure (besides its definition)
	outside := 0
	ast.Inspect(m.start.Decl.Body, func(n ast.Node) bool {
		if id, ok := n.(*ast.Ident); ok && info.Uses[id] == dd {
			if !(id.Pos() > wg.lit.Pos() && id.Pos() < wg.lit.End()) {
				outside++
			}
		}
		return true
	})
	switch {
	case !inLoop || !fresh:
		r.Bad(c, dd.Pos(), "the decoder value `%s` used by the worker goroutines is not a fresh allocation inside the spawning loop: all workers share one decoder and its cached iterators, buffers and object slice", dd.Name())
	case outside > 0:
		r.Bad(c, dd.Pos(), "the per-worker decoder `%s` is also used outside its worker closure (%d uses)", dd.Name(), outside)
	default:
		r.OK(c, dd.Pos(), "`%s` is allocated per iteration of the spawning loop and referenced only by that iteration's closure", dd.Name())
	}
	// closures capture no loop variable of the spawner
	var loopVars []types.Object
	ast.Inspect(m.start.Decl.Body, func(n ast.Node) bool {
		switch l := n.(type) {
		case *ast.ForStmt:
			if init, ok := l.Init.(*ast.AssignStmt); ok && init.Tok == token.DEFINE {
				for _, x := range init.Lhs {
					if l.Pos() < wg.lit.Pos() || true {
						loopVars = append(loopVars, info.Defs[identOf(x)])
					}
				}
			}
		case *ast.RangeStmt:
			if l.Tok == token.DEFINE {
				if l.Key != nil {
					loopVars = append(loopVars, info.Defs[identOf(l.Key)])
				}
				if l.Value != nil {
					loopVars = append(loopVars, info.Defs[identOf(l.Value)])
				}
			}
		}
		return true
	})
	for _, g := range m.gos {
		c := "captures@" + m.units[g.lit].name
		bad := ""
		ast.Inspect(g.lit.Body, func(n ast.Node) bool {
			if id, ok := n.(*ast.Ident); ok {
				for _, lv := range loopVars {
					if lv != nil && info.Uses[id] == lv && !(lv.Pos() > g.lit.Pos() && lv.Pos() < g.lit.End()) {
						bad = lv.Name()
					}
				}
			}
			return true
		})
		if bad != "" {
			r.Bad(c, g.stmt.Pos(), "the goroutine closure captures loop variable `%s` of the spawner (go.mod says go 1.16: one variable per loop, shared by all iterations)", bad)
		} else {
			r.OK(c, g.stmt.Pos(), "captures no loop variable of the spawner (%d loop variables checked)", len(loopVars))
		}
	}
}

func identOf(e ast.Expr) *ast.Ident {
	id, _ := ast.Unparen(e).(*ast.Ident)
	if id == nil {
		return &ast.Ident{}
	}
	return id
}

func c02Q3(r *core.R) {
	m := modelOrAnchor(r)
	if m == nil {
		return
	}
	info := m.info
	// the worker entry point: method of the per-worker decoder called in the worker closure, returning ([]osm.Object, error)
	var entry *FuncInfo
	for _, fn := range m.units[m.goOf("worker").lit].calls {
		sig := fn.Type().(*types.Signature)
		if sig.Recv() != nil && namedPath(sig.Recv().Type()) == namedPath(m.ddT) && sig.Results().Len() == 2 {
			entry = findFunc(m.pk, funcName(fn))
		}
	}
	if entry == nil {
		r.Anchor("decode entry point called by the worker")
		return
	}
	// the field returned on success
	var qField *types.Var
	ast.Inspect(entry.Decl.Body, func(n ast.Node) bool {
		if ret, ok := n.(*ast.ReturnStmt); ok && len(ret.Results) == 2 {
			if f := fieldOf(info, ret.Results[0]); f != nil {
				qField = f
			}
		}
		return true
	})
	if qField == nil {
		r.Anchor("object slice field returned by " + entry.Name())
		return
	}
	c := "fresh@" + entry.Name() + " " + qField.Name()
	g := newCFG(info, entry.Decl.Body)
	dom := dominators(g)
	var makePos token.Pos
	ast.Inspect(entry.Decl.Body, func(n ast.Node) bool {
		if as, ok := n.(*ast.AssignStmt); ok && len(as.Lhs) == 1 && fieldOf(info, as.Lhs[0]) == qField {
			if call, ok := as.Rhs[0].(*ast.CallExpr); ok && builtinName(info, call) == "make" {
				makePos = as.Pos()
			}
		}
		return true
	})
	if !makePos.IsValid() {
		r.Bad(c, entry.Decl.Pos(), "%s does not assign a fresh `make` to dec.%s: the slice handed to the consumer for the previous block is reused while the consumer is still reading it", entry.Name(), qField.Name())
	} else {
		// make dominates every call and every other statement touching q in the entry
		ok := true
		ast.Inspect(entry.Decl.Body, func(n ast.Node) bool {
			switch x := n.(type) {
			case *ast.CallExpr:
				if fn := callee(info, x); fn != nil && fn.Pkg() == m.pk.Types && x.Pos() != makePos {
					if !posDominates(g, dom, makePos, x.Pos()) && m.unitReaches(m.unitOfFunc(fn), func(u *unit) bool { return unitWritesField(m, u, qField) }) {
						ok = false
					}
				}
			case *ast.ReturnStmt:
				if usesField(info, x, qField) && !posDominates(g, dom, makePos, x.Pos()) {
					ok = false
				}
			}
			return true
		})
		r.Check(ok, c, makePos, "a fresh make is assigned before any function that appends to it is called and before it is returned",
			"the fresh make does not dominate the calls that append to the slice / the return")
	}
	// every write to q anywhere: make in entry, or `dec.q = append(dec.q, x)`
	n := 0
	for _, u := range m.sortedUnits() {
		m.walkUnit(u, func(x ast.Node) bool {
			as, ok := x.(*ast.AssignStmt)
			if !ok {
				return true
			}
			for i, l := range as.Lhs {
				if !usesField(info, l, qField) {
					continue
				}
				n++
				cc := "write@" + u.name + " " + qField.Name()
				if fieldOf(info, l) != qField {
					r.Bad(cc, as.Pos(), "`%s` writes an element of the object slice in place", src(r.P.Fset, as))
					continue
				}
				okw := false
				if i < len(as.Rhs) {
					if call, ok := as.Rhs[i].(*ast.CallExpr); ok {
						switch builtinName(info, call) {
						case "make":
							okw = u.fi.Obj == entry.Obj
						case "append":
							okw = len(call.Args) >= 1 && fieldOf(info, call.Args[0]) == qField
						}
					}
				}
				if okw {
					r.OK(cc, as.Pos(), "`%s`", src(r.P.Fset, as))
				} else {
					r.Bad(cc, as.Pos(), "`%s`: the object slice may only be replaced by a fresh make in %s or extended by append; anything else (re-slicing, reuse) lets a worker overwrite objects the consumer still holds", src(r.P.Fset, as), entry.Name())
				}
			}
			return true
		})
	}
	r.Stat("writes_to_object_slice", n)
}

func unitWritesField(m *pbfModel, u *unit, f *types.Var) bool {
	w := false
	m.walkUnit(u, func(x ast.Node) bool {
		if as, ok := x.(*ast.AssignStmt); ok {
			for _, l := range as.Lhs {
				if usesField(m.info, l, f) {
					w = true
				}
			}
		}
		return true
	})
	return w
}

func c02Q4(r *core.R) {
	m := modelOrAnchor(r)
	if m == nil {
		return
	}
	info := m.info
	// scratch buffers of the spawner
	var bufs []types.Object
	ast.Inspect(m.start.Decl.Body, func(n ast.Node) bool {
		as, ok := n.(*ast.AssignStmt)
		if !ok || len(as.Lhs) != 1 || len(as.Rhs) != 1 {
			return true
		}
		call, ok := as.Rhs[0].(*ast.CallExpr)
		if !ok || builtinName(info, call) != "make" {
			return true
		}
		if sl, ok := info.TypeOf(call.Args[0]).Underlying().(*types.Slice); ok && types.Identical(sl.Elem(), types.Typ[types.Byte]) {
			bufs = append(bufs, objOf(info, as.Lhs[0]))
		}
		return true
	})
	if len(bufs) < 3 {
		r.Anchor("reader scratch buffers (make([]byte, K)) in the spawner")
	}
	// track each buffer through in-package parameters
	type key struct {
		o  types.Object
		fn *FuncInfo
	}
	seen := map[types.Object]bool{}
	var work []key
	for _, b := range bufs {
		work = append(work, key{b, m.start})
	}
	for len(work) > 0 {
		k := work[len(work)-1]
		work = work[:len(work)-1]
		if seen[k.o] {
			continue
		}
		seen[k.o] = true
		par := parentsOf(r.P, k.fn)
		c := "buf@" + k.fn.Name() + " " + k.o.Name()
		bad := ""
		var bpos token.Pos
		nuse := 0
		ast.Inspect(k.fn.Decl, func(n ast.Node) bool {
			id, ok := n.(*ast.Ident)
			if !ok || info.Uses[id] != k.o {
				return true
			}
			nuse++
			// climb through slice expressions of the buffer itself
			var e ast.Node = id
			for {
				if se, ok := par[e].(*ast.SliceExpr); ok && se.X == e {
					e = se
					continue
				}
				if pe, ok := par[e].(*ast.ParenExpr); ok {
					e = pe
					continue
				}
				break
			}
			switch p := par[e].(type) {
			case *ast.CallExpr:
				if p.Fun == e {
					return true
				}
				if bn := builtinName(info, p); bn == "len" || bn == "cap" {
					return true
				}
				fn := callee(info, p)
				switch {
				case isPkgFunc(fn, "io", "ReadFull"), isPkgFunc(fn, "google.golang.org/protobuf/proto", "Unmarshal"):
					return true
				case fn != nil && fn.Name() == "Uint32" && fn.Pkg() != nil && fn.Pkg().Path() == "encoding/binary":
					return true
				case fn != nil && fn.Pkg() == m.pk.Types:
					tf := findFunc(m.pk, funcName(fn))
					if tf == nil {
						bad, bpos = "passed to "+fn.Name(), id.Pos()
						return true
					}
					idx := -1
					for i, a := range p.Args {
						if a == e {
							idx = i
						}
					}
					pi := 0
					for _, fld := range tf.Decl.Type.Params.List {
						for _, nm := range fld.Names {
							if pi == idx {
								work = append(work, key{info.Defs[nm], tf})
							}
							pi++
						}
					}
					return true
				default:
					name := "a function value"
					if fn != nil {
						name = fn.FullName()
					}
					bad, bpos = "passed to "+name+", which may retain it", id.Pos()
				}
			case *ast.AssignStmt:
				// buf = buf[:n] (re-slice of itself) is fine
				for i, rh := range p.Rhs {
					if rh == e {
						if i < len(p.Lhs) && objOf(info, p.Lhs[i]) == k.o {
							return true
						}
						bad, bpos = "assigned to `"+src(r.P.Fset, p.Lhs[min(i, len(p.Lhs)-1)])+"`", id.Pos()
					}
				}
				for _, l := range p.Lhs {
					if l == e {
						return true // target of the re-slice
					}
				}
			case *ast.Field:
				return true // parameter declaration
			default:
				bad, bpos = fmt.Sprintf("used in %T", p), id.Pos()
			}
			return true
		})
		if bad != "" {
			r.Bad(c, bpos, "scratch buffer %s is %s: it is overwritten by the next block while that reference is still alive, corrupting blocks already dispatched", k.o.Name(), bad)
		} else {
			r.OK(c, k.o.Pos(), "%d uses: only io.ReadFull, binary.BigEndian.Uint32, proto.Unmarshal, len, self re-slice, or passing on to a tracked parameter", nuse)
		}
	}
	// no UnmarshalOptions, no unsafe in the package
	nopt := 0
	var optPos token.Pos
	for _, f := range m.pk.Syntax {
		if isGenerated(r.P, f.Pos()) {
			continue
		}
		ast.Inspect(f, func(n ast.Node) bool {
			if cl, ok := n.(*ast.CompositeLit); ok && namedPath(info.TypeOf(cl)) == "google.golang.org/protobuf/proto.UnmarshalOptions" {
				nopt++
				optPos = cl.Pos()
			}
			return true
		})
	}
	if nopt > 0 {
		r.Bad("UnmarshalOptions@osmpbf", optPos, "proto.UnmarshalOptions is used: non-default options (Merge, aliasing resolvers) void the assumption that unmarshalling copies out of the reused scratch buffer")
	} else {
		r.OKTrivial("UnmarshalOptions@osmpbf", token.NoPos, "no proto.UnmarshalOptions literal in package osmpbf")
	}
	usesUnsafe := false
	for _, f := range m.pk.Syntax {
		if isGenerated(r.P, f.Pos()) {
			continue
		}
		for _, im := range f.Imports {
			if strings.Trim(im.Path.Value, `"`) == "unsafe" {
				usesUnsafe = true
			}
		}
	}
	if usesUnsafe {
		r.Bad("unsafe@osmpbf", token.NoPos, "package osmpbf imports unsafe: type-based ownership arguments no longer hold")
	} else {
		r.OKTrivial("unsafe@osmpbf", token.NoPos, "package osmpbf (hand-written files) does not import unsafe")
	}
}

func c02Q5(r *core.R) {
	m := modelOrAnchor(r)
	if m == nil {
		return
	}
	pbfRoleSeparation(r, m, true)
	// per-worker decoder fields: every access is rooted in the receiver of a method of that type (or the spawner's local)
	info := m.info
	dd := namedPath(m.ddT)
	perField := map[*types.Var][2]int{}
	var order []*types.Var
	for _, u := range m.sortedUnits() {
		m.walkUnit(u, func(n ast.Node) bool {
			sel, ok := n.(*ast.SelectorExpr)
			if !ok {
				return true
			}
			s := info.Selections[sel]
			if s == nil || s.Kind() != types.FieldVal || namedPath(s.Recv()) != dd {
				return true
			}
			f := s.Obj().(*types.Var)
			if _, ok := perField[f]; !ok {
				order = append(order, f)
			}
			cnt := perField[f]
			cnt[0]++
			root := rootObj(info, sel.X)
			okRoot := false
			if fd, isDecl := u.node.(*ast.FuncDecl); isDecl && fd.Recv != nil && len(fd.Recv.List) == 1 && len(fd.Recv.List[0].Names) == 1 {
				if info.Defs[fd.Recv.List[0].Names[0]] == root && namedPath(root.Type()) == dd {
					okRoot = true
				}
			}
			if !okRoot || !(u.roles["worker"] && len(u.roles) == 1) {
				cnt[1]++
			}
			perField[f] = cnt
			return true
		})
	}
	for _, f := range order {
		cnt := perField[f]
		c := "field " + m.ddT.Obj().Name() + "." + f.Name()
		if cnt[1] == 0 {
			r.OK(c, f.Pos(), "%d accesses, all through the method receiver in worker-only functions: private to the worker that owns the decoder value (Q2)", cnt[0])
		} else {
			r.Bad(c, f.Pos(), "%d of %d accesses are not through the receiver of a worker-only method of the per-worker decoder: the field can be reached from another goroutine", cnt[1], cnt[0])
		}
	}
}
