package rules

import (
	"go/ast"
	"go/types"
)

// pbfFullRead recognises a call that fills a buffer completely from a reader or fails: io.ReadFull(r, buf), and
// io.ReadAtLeast(r, buf, len(buf)) (the same contract). It returns the buffer expression.
func pbfFullRead(info *types.Info, call *ast.CallExpr) (ast.Expr, bool) {
	fn := callee(info, call)
	switch {
	case isPkgFunc(fn, "io", "ReadFull") && len(call.Args) == 2:
		return call.Args[1], true
	case isPkgFunc(fn, "io", "ReadAtLeast") && len(call.Args) == 3:
		if l, ok := ast.Unparen(call.Args[2]).(*ast.CallExpr); ok && builtinName(info, l) == "len" && len(l.Args) == 1 && sameExpr(info, l.Args[0], call.Args[1]) {
			return call.Args[1], true
		}
	}
	return nil, false
}

// pbfIsReadCall reports whether call reads from an io.Reader through the io package helpers (full or partial reads).
func pbfIsReadCall(info *types.Info, call *ast.CallExpr) bool {
	fn := callee(info, call)
	return isPkgFunc(fn, "io", "ReadFull") || isPkgFunc(fn, "io", "ReadAtLeast")
}

// unitReadsInput reports whether the unit lexically reads the input: it calls io.ReadFull / io.ReadAtLeast or mentions
// the decoder's io.Reader field.
func (m *pbfModel) unitReadsInput(u *unit) bool {
	found := false
	m.walkUnit(u, func(n ast.Node) bool {
		switch x := n.(type) {
		case *ast.CallExpr:
			if pbfIsReadCall(m.info, x) {
				found = true
			}
		case *ast.SelectorExpr:
			if f := fieldOf(m.info, x); f != nil && namedPath(f.Type()) == "io.Reader" && m.decoderT != nil && namedPath(selRecv(m.info, x)) == namedPath(m.decoderT) {
				found = true
			}
		}
		return !found
	})
	return found
}

// isWaitGroup reports whether e denotes the decoder's wait group: the field itself, its address, or a parameter / local
// that holds its address (`go w.run(&dec.wg)` ... `wg.Done()`).
func (m *pbfModel) isWaitGroup(e ast.Expr, seen map[types.Object]bool) bool {
	e = ast.Unparen(e)
	if ue, ok := e.(*ast.UnaryExpr); ok && ue.Op.String() == "&" {
		return m.isWaitGroup(ue.X, seen)
	}
	if se, ok := e.(*ast.StarExpr); ok {
		return m.isWaitGroup(se.X, seen)
	}
	if f := fieldOf(m.info, e); f != nil {
		if f == m.wgField {
			return true
		}
		if base, bf := m.structLocalField(e); base != nil {
			if inits, ok := m.fieldInits(base, 0, bf, map[types.Object]bool{}, 0); ok && len(inits) > 0 {
				for _, in := range inits {
					if !m.isWaitGroup(in, seen) {
						return false
					}
				}
				return true
			}
		}
		return false
	}
	o, ok := objOf(m.info, e).(*types.Var)
	if !ok || o.IsField() || seen[o] {
		return false
	}
	seen[o] = true
	defer delete(seen, o)
	defs := m.defsOf(o)
	if len(defs) == 0 {
		return false
	}
	for _, d := range defs {
		if (d.kind != "assign" && d.kind != "arg") || !m.isWaitGroup(d.e, seen) {
			return false
		}
	}
	return true
}
