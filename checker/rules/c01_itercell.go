package rules

import (
	"fmt"
	"go/ast"
	"go/token"
	"go/types"
	"sort"
)

// C01.R2, iterators kept in cells. The cached column iterators need not be fields of the per-worker decoder itself:
// they can be grouped in a struct (nested to any depth) held by the decoder, copied into locals (a spare copy kept for
// allocation reuse), handed to helpers by value or by pointer and returned from them. Such an iterator is a value of
// kind 'T' with the same three states as a decoder field: S (left over from an earlier element or block), A (assigned
// from the current message by Message.Iterator), and the nil pointer N. Values travel with assignments, composite
// copies, arguments and results; a use (a method call or field read on the value, or handing it to a function that is
// not followed) in state S or N is a violation. At the start of an element message every iterator below the decoder
// is S.

// c01NestedIterLeaves lists the cell sub-paths (".field.sub...") of the iterator pointers held in struct-valued
// fields of the per-worker decoder type.
func c01NestedIterLeaves(ddT types.Type) []string {
	st, ok := ddT.Underlying().(*types.Struct)
	if !ok {
		return nil
	}
	var out []string
	var walk func(prefix string, t types.Type, depth int)
	walk = func(prefix string, t types.Type, depth int) {
		if depth > 4 {
			return
		}
		switch u := t.Underlying().(type) {
		case *types.Struct:
			for i := 0; i < u.NumFields(); i++ {
				f := u.Field(i)
				if f.Embedded() && depth == 0 {
					continue // promoted fields of an embedded struct are tracked as fields of the decoder itself
				}
				if c01IsIterPtr(f.Type()) {
					if depth > 0 {
						out = append(out, prefix+"."+f.Name()) // the decoder's own iterator fields are tracked as fields
					}
					continue
				}
				switch f.Type().Underlying().(type) {
				case *types.Struct, *types.Array:
					if c01Trackable(f.Type()) {
						walk(prefix+"."+f.Name(), f.Type(), depth+1)
					}
				}
			}
		case *types.Array:
			if u.Len() > 32 {
				return
			}
			for i := int64(0); i < u.Len(); i++ {
				if c01IsIterPtr(u.Elem()) {
					out = append(out, fmt.Sprintf("%s[%d]", prefix, i))
					continue
				}
				switch u.Elem().Underlying().(type) {
				case *types.Struct, *types.Array:
					walk(fmt.Sprintf("%s[%d]", prefix, i), u.Elem(), depth+1)
				}
			}
		}
	}
	walk("", st, 0)
	sort.Strings(out)
	return out
}

// c01IsIterPtr: t is *protoscan.Iterator.
func c01IsIterPtr(t types.Type) bool {
	if t == nil {
		return false
	}
	_, isPtr := t.(*types.Pointer)
	return isPtr && namedPath(t) == protoscanIter
}

// c01CellLabel names the iterator an expression denotes, independent of the variable it is reached through: the
// declaring struct and field for a selector, otherwise the origin recorded in the value.
func c01CellLabel(info *types.Info, e ast.Expr, v c01Val) string {
	if sel, ok := ast.Unparen(e).(*ast.SelectorExpr); ok {
		if f := fieldOf(info, sel); f != nil {
			t := info.TypeOf(sel.X)
			if pt, isPtr := t.Underlying().(*types.Pointer); isPtr {
				t = pt.Elem()
			}
			if n, isNamed := t.(*types.Named); isNamed {
				return n.Obj().Name() + "." + f.Name()
			}
			return f.Name()
		}
	}
	if v.s != "" {
		return v.s
	}
	return types.ExprString(e)
}

// cellUses records the uses of iterators held in cells inside node n.
func (fm *c01Frame) cellUses(n ast.Node, ev *c01Ev) {
	fr := fm.fr
	info := fr.info
	cand, cached := c01NodeCellCand[n]
	if !cached {
		ast.Inspect(n, func(x ast.Node) bool {
			if _, isLit := x.(*ast.FuncLit); isLit {
				return false
			}
			e, ok := x.(ast.Expr)
			if !ok {
				return true
			}
			switch e.(type) {
			case *ast.Ident, *ast.SelectorExpr, *ast.IndexExpr:
			default:
				return true
			}
			if !c01IsIterPtr(info.TypeOf(e)) {
				return true
			}
			if _, tracked := fm.trackedField(e); tracked {
				return true
			}
			cand = append(cand, e)
			return true
		})
		c01NodeCellCand[n] = cand
	}
	if len(cand) == 0 {
		return
	}
	par := fm.f.par
	for _, e := range cand {
		v := ev.eval(e)
		if v.k != 'T' && v.k != 'N' {
			continue
		}
		var outer ast.Expr = e
		parent := par[e]
		for {
			if pe, ok := parent.(*ast.ParenExpr); ok {
				outer, parent = pe, par[pe]
				continue
			}
			break
		}
		how := ""
		switch p := parent.(type) {
		case *ast.SelectorExpr:
			if p.X == outer {
				how = "is read (" + p.Sel.Name + ") at"
			}
		case *ast.CallExpr:
			if isMethod(callee(info, p), protoscanMsg, "Iterator") {
				break // handed back for allocation reuse
			}
			for _, a := range p.Args {
				if a == outer {
					if fm.decoderMethod(p) != nil {
						break
					}
					if builtinName(info, p) != "" {
						break
					}
					how = "is passed to " + src(fr.r.P.Fset, p.Fun) + " at"
				}
			}
		case *ast.StarExpr:
			how = "is dereferenced at"
		}
		if how == "" {
			continue
		}
		label := c01CellLabel(info, e, v)
		if fr.cuse[label] == nil {
			fr.cuse[label] = map[token.Pos]bool{}
		}
		fr.cuse[label][e.Pos()] = true
		if v.k == 'T' && v.i == 'A' {
			continue
		}
		if v.k == 'N' {
			if _, isCall := parent.(*ast.CallExpr); isCall {
				continue // a nil iterator handed on: judged where it is read
			}
		}
		if _, dup := fr.cviol[label]; dup {
			continue
		}
		what := "still holds the iterator of an earlier block or element"
		if v.k == 'N' {
			what = "is nil"
		}
		fr.cviol[label] = "`" + src(fr.r.P.Fset, e) + "` (" + label + ") " + how + " " + fr.r.P.Rel(e.Pos()) + " (in " + fm.fi.Name() + ") on a path where it " + what + " (presence state in " + fm.fi.Name() + ": " + fm.flagDesc(ev.st) + "): a block or element that lacks this optional column is decoded with the values of an earlier one (or crashes) instead of the format default"
		fr.cvpos[label] = e.Pos()
	}
}

// c01NodeCellCand: the expressions of iterator pointer type inside a CFG node (static).
var c01NodeCellCand = map[ast.Node][]ast.Expr{}

// reportCells emits one obligation per iterator kept in cells that is used while the message is decoded.
func (fr *c01Fresh) reportCells(root *FuncInfo, msg string) int {
	var labels []string
	for l := range fr.cuse {
		labels = append(labels, l)
	}
	sort.Strings(labels)
	for _, l := range labels {
		c := "fresh@" + msg + " " + l
		if v, bad := fr.cviol[l]; bad {
			fr.r.Bad(c, fr.cvpos[l], "%s", v)
			continue
		}
		fr.r.OK(c, root.Decl.Pos(), "at each of its %d use(s) while a %s message is decoded (from %s, through every function it calls; the iterator is followed through struct copies, pointers, arguments and results), in every reachable state (%d block states explored), %s was assigned from the current message", len(fr.cuse[l]), msg, root.Name(), fr.nstate, l)
	}
	return len(labels)
}

// c01DecoderIterFields lists the iterator fields of the per-worker decoder: its own, and those promoted from structs
// it embeds (`dec.versions` with versions declared in an embedded column struct is a field of the decoder).
func c01DecoderIterFields(ddT types.Type) []*types.Var {
	var out []*types.Var
	var walk func(t types.Type, depth int)
	walk = func(t types.Type, depth int) {
		st, ok := t.Underlying().(*types.Struct)
		if !ok || depth > 3 {
			return
		}
		for i := 0; i < st.NumFields(); i++ {
			f := st.Field(i)
			switch {
			case namedPath(f.Type()) == protoscanIter:
				out = append(out, f)
			case f.Embedded():
				ft := f.Type()
				if pt, isPtr := ft.(*types.Pointer); isPtr {
					ft = pt.Elem()
				}
				walk(ft, depth+1)
			}
		}
	}
	walk(ddT, 0)
	return out
}

// structFieldsTracked: e selects a struct-valued field of the decoder (embedded or not) that holds tracked iterator
// fields; it returns those fields.
func (fm *c01Frame) structFieldsTracked(e ast.Expr) []*types.Var {
	info := fm.fr.info
	sel, ok := ast.Unparen(e).(*ast.SelectorExpr)
	if !ok {
		return nil
	}
	f := fieldOf(info, sel)
	if f == nil {
		return nil
	}
	st, ok := f.Type().Underlying().(*types.Struct)
	if !ok {
		return nil
	}
	var out []*types.Var
	for i := 0; i < st.NumFields(); i++ {
		if _, tracked := fm.fr.fieldIdx[st.Field(i)]; tracked {
			out = append(out, st.Field(i))
		}
	}
	return out
}
