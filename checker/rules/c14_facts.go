package rules

import (
	"fmt"
	"go/ast"
	"go/token"
	"go/types"
	"sort"

	"golang.org/x/tools/go/cfg"
)

// ---------------------------------------------------------------------------
// term predicates

func (m *c14Model) isOrd(g *c14Graph, v *c14Val) bool {
	v = c14StripAddr(v)
	o := c14StripAddr(m.ord[g])
	return v != nil && o != nil && v.key == o.key
}

// isField: v is `ord.f` for the ordering of graph g, or `ord.g.f` through struct fields of this package the
// ordering groups its state in.
func (m *c14Model) isField(g *c14Graph, v *c14Val, f *types.Var) bool {
	v = c14StripAddr(v)
	if v == nil || v.k != 'f' || v.obj != types.Object(f) {
		return false
	}
	b := c14StripAddr(v.x)
	for depth := 0; depth < 3 && b != nil; depth++ {
		if m.isOrd(g, b) {
			return true
		}
		fv, ok := b.obj.(*types.Var)
		if b.k != 'f' || !ok || fv.Pkg() != m.pk.Types {
			return false
		}
		b = c14StripAddr(b.x)
	}
	return false
}

// isMethodOn: v is a call of method recvType.name on field f of the ordering.
func (m *c14Model) isMethodOn(g *c14Graph, v *c14Val, f *types.Var, recvType, name string) bool {
	if v == nil || v.k != 'C' {
		return false
	}
	fn, _ := v.obj.(*types.Func)
	if fn == nil || fn.Name() != name || !m.isField(g, v.x, f) {
		return false
	}
	return recvType == "" || isMethod(fn, recvType, name)
}

// nilTest decomposes `X == nil` / `X != nil`; nilWhen is +1 when the atom being true means X is nil.
func c14NilTest(v *c14Val) (subject *c14Val, nilWhen int8) {
	if v == nil || v.k != 'b' || (v.op != token.EQL && v.op != token.NEQ) {
		return nil, 0
	}
	switch {
	case v.y.k == 'n':
		subject = v.x
	case v.x.k == 'n':
		subject = v.y
	default:
		return nil, 0
	}
	if v.op == token.EQL {
		return subject, 1
	}
	return subject, -1
}

// c14Edges is a set of branch edges: atom node -> the atom value (+1 true, -1 false) whose edge belongs to the set.
type c14Edges map[*c14Node]int8

func (es c14Edges) skip(s *c14State, e c14Edge) bool {
	v, ok := es[s.n]
	return ok && e.val == v
}

func (es c14Edges) targets(g *c14Graph) []*c14State {
	var out []*c14State
	for n, v := range es {
		for _, s := range g.byNode[n] {
			for _, e := range s.out {
				if e.val == v {
					out = append(out, e.to)
				}
			}
		}
	}
	return out
}

// first returns the earliest node of the set (stable representative for messages).
func (es c14Edges) first() *c14Node {
	var t *c14Node
	for n := range es {
		if t == nil || n.id < t.id {
			t = n
		}
	}
	return t
}

func (es c14Edges) inverse() c14Edges {
	out := c14Edges{}
	for n, v := range es {
		out[n] = -v
	}
	return out
}

func c14SkipAny(fs ...func(*c14State, c14Edge) bool) func(*c14State, c14Edge) bool {
	return func(s *c14State, e c14Edge) bool {
		for _, f := range fs {
			if f != nil && f(s, e) {
				return true
			}
		}
		return false
	}
}

func c14StopAt(nodes ...*c14Node) func(*c14State) bool {
	set := map[*c14Node]bool{}
	for _, n := range nodes {
		set[n] = true
	}
	return func(s *c14State) bool { return set[s.n] }
}

// atoms lists the nodes of a graph that decide a boolean: the atoms of branch conditions and the plain nodes that
// compute a boolean into a variable or a result (the states split there).
func (m *c14Model) atoms(g *c14Graph) []*c14Node {
	var out []*c14Node
	for _, n := range g.execNodes() {
		if n.evalExpr() != nil {
			out = append(out, n)
		}
	}
	return out
}

func (m *c14Model) atomVal(g *c14Graph, n *c14Node) *c14Val { return g.canon(n.ctx, n.evalExpr(), n) }

// callsWhere lists the calls evaluated by g (outside go/defer statements) that satisfy pred, in a stable order.
func (m *c14Model) callsWhere(g *c14Graph, pred func(n *c14Node, call *ast.CallExpr) bool) []c14Call {
	var out []c14Call
	for call, n := range g.calls {
		if len(g.byNode[n]) == 0 {
			continue
		}
		switch n.ast.(type) {
		case *ast.GoStmt, *ast.DeferStmt:
			continue
		}
		if pred(n, call) {
			out = append(out, c14Call{n, call})
		}
	}
	sort.Slice(out, func(i, j int) bool {
		if out[i].n.id != out[j].n.id {
			return out[i].n.id < out[j].n.id
		}
		return out[i].call.Pos() < out[j].call.Pos()
	})
	return out
}

func (m *c14Model) isWalkCall(n *c14Node, call *ast.CallExpr) bool {
	fn := callee(n.ctx.fn.info, call)
	return fn != nil && fn.Origin() == m.walk.Obj
}

// walkArg returns the argument of a call of the DFS bound to parameter p (receiver included).
func (m *c14Model) walkArg(call *ast.CallExpr, p types.Object) ast.Expr {
	return c14Bindings(m.wg.root.fn, call)[p]
}

func (m *c14Model) rel(pos token.Pos) string { return m.p.Rel(pos) }

func (m *c14Model) nodeSrc(n *c14Node) string {
	if n.ast == nil {
		return "(block end)"
	}
	return src(m.p.Fset, n.ast)
}

// ---------------------------------------------------------------------------
// facts about the DFS graph shared by several rules

type c14Test struct {
	n        *c14Node // the atom
	key      *c14Val
	lookupAt *c14Node // where the map was read
}

type c14Scan struct {
	loop     *c14Loop
	match    c14Edges // edges taken when an element of the path equals the member id
	complete bool     // every iteration evaluates the comparison
}

type c14Rec struct {
	c14Call
	id, path ast.Expr
	idVal    *c14Val
	loops    []*c14Loop // enclosing loops, innermost first
}

type c14WalkFacts struct {
	sendNodes []*c14Node            // nodes evaluating a send statement on the output channel
	emits     []*c14Node            // nodes at which the id has been handed to the consumer
	sendOf    map[*c14Node]*c14Node // emission -> send node
	selOf     map[*c14Node]*c14Select
	recs      []*c14Rec
	stores    []*c14Node
	storeKey  map[*c14Node]*c14Val
	tests     []c14Test // membership tests on the visited set
	idTests   c14Edges  // "already visited" edges of the tests on the id being walked
	history   []c14Call
	histVal   *c14Val  // term of the history call (tuple)
	notFound  c14Edges // "not found" edges
	bodies    map[*c14Loop]c14Set
	loops     []*c14Loop
}

func (m *c14Model) isIDParam(v *c14Val) bool {
	return v != nil && v.k == 'v' && v.obj == types.Object(m.idParam) && v.ctx == m.wg.root
}

func (m *c14Model) isPathParam(v *c14Val) bool {
	return v != nil && v.k == 'v' && v.obj == types.Object(m.pathParam) && v.ctx == m.wg.root
}

// c14Select describes the select statement around a communication.
type c14Select struct {
	sel        *ast.SelectStmt
	own        *ast.CommClause
	done       *ast.CommClause
	hasDefault bool
	ctx        *c14Ctx
}

func c14CommRecv(comm ast.Stmt) ast.Expr {
	switch x := comm.(type) {
	case *ast.ExprStmt:
		return x.X
	case *ast.AssignStmt:
		if len(x.Rhs) == 1 {
			return x.Rhs[0]
		}
	}
	return nil
}

// isDoneRecv reports whether e, evaluated at node at, is `<-ord.ctx.Done()` on the ordering's own context.
func (m *c14Model) isDoneRecv(g *c14Graph, ctx *c14Ctx, e ast.Expr, at *c14Node) bool {
	u, ok := ast.Unparen(e).(*ast.UnaryExpr)
	if !ok || u.Op != token.ARROW {
		return false
	}
	return m.isDoneChan(g, g.canon(ctx, u.X, at))
}

// selectOf returns the select statement whose communication clause is comm (a statement of activation ctx), or nil.
func (m *c14Model) selectOf(g *c14Graph, ctx *c14Ctx, comm ast.Node, at *c14Node) *c14Select {
	par := ctx.fn.par
	cl, ok := par[comm].(*ast.CommClause)
	if !ok || cl.Comm != comm {
		return nil
	}
	blk, _ := par[cl].(*ast.BlockStmt)
	sel, _ := par[blk].(*ast.SelectStmt)
	if sel == nil {
		return nil
	}
	s := &c14Select{sel: sel, own: cl, ctx: ctx}
	for _, c := range sel.Body.List {
		cc := c.(*ast.CommClause)
		if cc.Comm == nil {
			s.hasDefault = true
			continue
		}
		if cc == cl {
			continue
		}
		if e := c14CommRecv(cc.Comm); e != nil && m.isDoneRecv(g, ctx, e, at) {
			s.done = cc
		}
	}
	return s
}

// caseHead returns the node at which the body of a select case starts.
func (m *c14Model) caseHead(g *c14Graph, ctx *c14Ctx, cl *ast.CommClause) *c14Node {
	b := c14KindBlock(ctx.fn.g, cl, cfg.KindSelectCaseBody)
	if b == nil {
		return nil
	}
	n := g.at(ctx, b, 0)
	if len(g.byNode[n]) == 0 {
		return nil
	}
	return n
}

func (m *c14Model) loopsOf(g *c14Graph, wf *c14WalkFacts, n *c14Node) []*c14Loop {
	var in []*c14Loop
	for _, l := range wf.loops {
		if wf.bodies[l].hasNode(n) {
			in = append(in, l)
		}
	}
	depth := func(l *c14Loop) int {
		d := 0
		for _, o := range in {
			if o != l {
				for s := range wf.bodies[o] {
					if l.isHead(s) {
						d++
						break
					}
				}
			}
		}
		return d
	}
	sort.SliceStable(in, func(i, j int) bool { return depth(in[i]) > depth(in[j]) })
	return in
}

func (m *c14Model) walkFacts() *c14WalkFacts {
	if m.wf != nil {
		return m.wf
	}
	g := m.wg
	wf := &c14WalkFacts{sendOf: map[*c14Node]*c14Node{}, selOf: map[*c14Node]*c14Select{}, storeKey: map[*c14Node]*c14Val{},
		idTests: c14Edges{}, notFound: c14Edges{}, bodies: map[*c14Loop]c14Set{}}
	m.wf = wf
	wf.loops = g.loops()
	for _, l := range wf.loops {
		wf.bodies[l] = g.body(l)
	}
	for _, n := range g.execNodes() {
		switch x := n.ast.(type) {
		case *ast.SendStmt:
			if !m.isField(g, g.canon(n.ctx, x.Chan, n), m.fOut) {
				continue
			}
			wf.sendNodes = append(wf.sendNodes, n)
			if sel := m.selectOf(g, n.ctx, x, n); sel != nil {
				wf.selOf[n] = sel
				if h := m.caseHead(g, n.ctx, sel.own); h != nil {
					wf.emits = append(wf.emits, h)
					wf.sendOf[h] = n
				}
			} else {
				wf.emits = append(wf.emits, n)
				wf.sendOf[n] = n
			}
		case *ast.AssignStmt:
			for _, l := range x.Lhs {
				if ix, ok := ast.Unparen(l).(*ast.IndexExpr); ok {
					if v := g.canon(n.ctx, ix, n); v.k == 'i' && m.isField(g, v.x, m.fVisited) {
						wf.stores = append(wf.stores, n)
						wf.storeKey[n] = v.y
					}
				}
			}
		}
	}
	for _, c := range m.callsWhere(g, m.isWalkCall) {
		rec := &c14Rec{c14Call: c, id: m.walkArg(c.call, m.idParam), path: m.walkArg(c.call, m.pathParam)}
		if rec.id != nil {
			rec.idVal = g.canon(c.n.ctx, rec.id, c.n)
		}
		rec.loops = m.loopsOf(g, wf, c.n)
		wf.recs = append(wf.recs, rec)
	}
	// membership tests on the visited set:  `_, ok := ord.visited[K]; ok`  /  `ord.visited[K]` (map[…]bool)
	for _, n := range m.atoms(g) {
		v := m.atomVal(g, n)
		var ix *c14Val
		at := n
		switch {
		case v.k == 't' && v.idx == 1 && v.x.k == 'i':
			ix, at = v.x, v.at
		case v.k == 'i':
			ix = v
		}
		if ix != nil && m.isField(g, ix.x, m.fVisited) {
			wf.tests = append(wf.tests, c14Test{n: n, key: ix.y, lookupAt: at})
			if m.isIDParam(ix.y) {
				wf.idTests[n] = 1
			}
		}
	}
	// the history lookup and its not-found classification
	wf.history = m.callsWhere(g, func(n *c14Node, call *ast.CallExpr) bool {
		fn := callee(n.ctx.fn.info, call)
		if fn == nil || fn.Name() != "RelationHistory" {
			return false
		}
		return m.isMethodOn(g, g.canon(n.ctx, call, n), m.fDS, "", "RelationHistory")
	})
	if len(wf.history) == 1 {
		h := wf.history[0]
		wf.histVal = g.canon(h.n.ctx, h.call, h.n)
		for _, n := range m.atoms(g) {
			v := m.atomVal(g, n)
			if m.isMethodOn(g, v, m.fDS, "", "NotFound") && len(v.args) == 1 && m.isHistErr(v.args[0]) {
				wf.notFound[n] = 1
			}
		}
	}
	return wf
}

// isHistErr: v is the error result of the history lookup.
func (m *c14Model) isHistErr(v *c14Val) bool {
	h := m.wf.histVal
	return h != nil && v != nil && v.k == 't' && v.idx == 1 && v.x.key == h.key
}

func (m *c14Model) isHistRels(v *c14Val) bool {
	h := m.wf.histVal
	return h != nil && v != nil && v.k == 't' && v.idx == 0 && v.x.key == h.key
}

// exitVal evaluates the last result of a return of the root activation in the state's store.
func (m *c14Model) exitVal(g *c14Graph, s *c14State) (int8, *c14Val, ast.Expr) {
	ret, _ := s.n.ast.(*ast.ReturnStmt)
	if ret == nil {
		return 0, nil, nil
	}
	if rs := s.n.ctx.fn.results; len(ret.Results) == 0 {
		// bare return of named results
		if len(rs) == 0 || rs[len(rs)-1] == nil {
			return 0, nil, nil
		}
		vals := g.returnVals(s.store, s.n.ctx, ret)
		return vals[len(vals)-1], g.resolveVar(s.n.ctx, s.n.ctx, rs[len(rs)-1], s.n), nil
	}
	vals := g.returnVals(s.store, s.n.ctx, ret)
	e := ret.Results[len(ret.Results)-1]
	return vals[len(vals)-1], g.canon(s.n.ctx, e, s.n), e
}

func (m *c14Model) emitStates() []*c14State { return m.wg.statesOf(m.wf.emits...) }

func (m *c14Model) recNodes() []*c14Node {
	var out []*c14Node
	for _, r := range m.wf.recs {
		out = append(out, r.n)
	}
	return out
}

// scansFor finds the scans of the DFS path that compare every element with term x (the id about to be entered):
//
//	for _, p := range path { if p == X { … } }       (in the DFS itself or in a followed helper)
func (m *c14Model) scansFor(x *c14Val, at *c14Node) (scans []*c14Scan, why string) {
	g, wf := m.wg, m.wf
	why = "no loop over the path parameter compares its elements with the member id: on a reference cycle (1→2→1, or the self reference 1→1) the recursion never ends"
	for _, l := range wf.loops {
		if !m.pathLike(g, g.rangeX(l), 0) {
			continue
		}
		sc := &c14Scan{loop: l, match: c14Edges{}}
		nomatch := c14Edges{}
		for _, n := range m.atoms(g) {
			if !wf.bodies[l].hasNode(n) {
				continue
			}
			v := m.atomVal(g, n)
			if v.k != 'b' || (v.op != token.EQL && v.op != token.NEQ) {
				continue
			}
			var other *c14Val
			switch {
			case g.elemOf(v.x, l):
				other = v.y
			case g.elemOf(v.y, l):
				other = v.x
			default:
				continue
			}
			if other.key == x.key && !g.sameValue(other, n, x, at) {
				why = fmt.Sprintf("when the comparison `%s` (%s) finds the member among the ancestors the walk of the current id is not left: control goes on to the next member and reaches the recursive call again. An activation that has met an ancestor is neither emitted nor marked visited, so it goes on recursing into its remaining members and is walked again from scratch every time it is reached — factorially many re-walks on densely cyclic graphs — and no cancellation test lies between two such recursive calls, so Close cannot stop it", m.nodeSrc(n), m.rel(n.pos()))
				continue
			}
			if !g.sameValue(other, n, x, at) {
				why = fmt.Sprintf("the path scan at %s compares against `%s`, not against the id handed to the recursive call: an ancestor is not recognised and a reference cycle recurses without bound", m.rel(l.stmt.Pos()), src(m.p.Fset, other.node))
				continue
			}
			if v.op == token.EQL {
				sc.match[n], nomatch[n] = 1, -1
			} else {
				sc.match[n], nomatch[n] = -1, 1
			}
		}
		if len(sc.match) == 0 {
			continue
		}
		// complete: an iteration cannot return to the head without having taken a no-match edge
		back := g.reach(g.loopEdges(l, 1), l.isHead, nomatch.skip)
		sc.complete = true
		for s := range back {
			if l.isHead(s) {
				sc.complete = false
			}
		}
		scans = append(scans, sc)
	}
	return scans, why
}

// loopX renders the expression a range loop or counting loop iterates over.
func (m *c14Model) loopX(l *c14Loop) string {
	if rs, ok := l.stmt.(*ast.RangeStmt); ok {
		return src(m.p.Fset, rs.X)
	}
	if _, x := l.ctx.g.countingLoop(l); x != nil {
		return src(m.p.Fset, x)
	}
	return "?"
}
