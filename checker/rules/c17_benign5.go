package rules

import "osmcheck/core"

// c17Benign5: behaviour-preserving variants, round 7 (G8, the set of node ids that are part of a way): the fill pass in
// a method, per-way / per-node helpers, the fill inside the line builder (covered through the skippable set), the set
// as a bool map and as a sorted slice.
var c17Benign5 = []core.Mutant{
	// fill pass extracted to a method; range by value instead of by index
	{Name: "b-g8-pass-extracted-to-method", File: "osmgeojson/convert.go", Nth: 0,
		Find: `// Convert takes a set of osm elements and converts them
// to a geojson feature collection.
func Convert(o *osm.OSM, opts ...Option) (*geojson.FeatureCollection, error) {
	ctx := &context{
		osm:       o,
		skippable: make(map[osm.WayID]struct{}),
	}

	for _, opt := range opts {
		if err := opt(ctx); err != nil {
			return nil, err
		}
	}

	ctx.wayMap = make(map[osm.WayID]*osm.Way, len(o.Ways))
	for _, w := range ctx.osm.Ways {
		ctx.wayMap[w.ID] = w
	}

	ctx.wayMember = make(map[osm.NodeID]struct{}, len(ctx.osm.Nodes))
	for _, w := range ctx.osm.Ways {
		for i := range w.Nodes {
			ctx.wayMember[w.Nodes[i].ID] = struct{}{}
		}
	}
`,
		Replace: `// indexWayNodes remembers the nodes that are part of a way.
func (ctx *context) indexWayNodes() {
	ctx.wayMember = make(map[osm.NodeID]struct{}, len(ctx.osm.Nodes))
	for _, w := range ctx.osm.Ways {
		for _, wn := range w.Nodes {
			ctx.wayMember[wn.ID] = struct{}{}
		}
	}
}

// Convert takes a set of osm elements and converts them
// to a geojson feature collection.
func Convert(o *osm.OSM, opts ...Option) (*geojson.FeatureCollection, error) {
	ctx := &context{
		osm:       o,
		skippable: make(map[osm.WayID]struct{}),
	}

	for _, opt := range opts {
		if err := opt(ctx); err != nil {
			return nil, err
		}
	}

	ctx.wayMap = make(map[osm.WayID]*osm.Way, len(o.Ways))
	for _, w := range ctx.osm.Ways {
		ctx.wayMap[w.ID] = w
	}

	ctx.indexWayNodes()
`},
	// per-way and per-node helpers, pointer alias to the way node, ways ranged by index
	{Name: "b-g8-per-way-and-per-node-helpers", File: "osmgeojson/convert.go", Nth: 0,
		Find: `// Convert takes a set of osm elements and converts them
// to a geojson feature collection.
func Convert(o *osm.OSM, opts ...Option) (*geojson.FeatureCollection, error) {
	ctx := &context{
		osm:       o,
		skippable: make(map[osm.WayID]struct{}),
	}

	for _, opt := range opts {
		if err := opt(ctx); err != nil {
			return nil, err
		}
	}

	ctx.wayMap = make(map[osm.WayID]*osm.Way, len(o.Ways))
	for _, w := range ctx.osm.Ways {
		ctx.wayMap[w.ID] = w
	}

	ctx.wayMember = make(map[osm.NodeID]struct{}, len(ctx.osm.Nodes))
	for _, w := range ctx.osm.Ways {
		for i := range w.Nodes {
			ctx.wayMember[w.Nodes[i].ID] = struct{}{}
		}
	}
`,
		Replace: `// markNode remembers that the node is part of a way.
func (ctx *context) markNode(id osm.NodeID) {
	ctx.wayMember[id] = struct{}{}
}

// markNodes remembers the nodes of the way.
func (ctx *context) markNodes(w *osm.Way) {
	for i := range w.Nodes {
		wn := &w.Nodes[i]
		ctx.markNode(wn.ID)
	}
}

// Convert takes a set of osm elements and converts them
// to a geojson feature collection.
func Convert(o *osm.OSM, opts ...Option) (*geojson.FeatureCollection, error) {
	ctx := &context{
		osm:       o,
		skippable: make(map[osm.WayID]struct{}),
	}

	for _, opt := range opts {
		if err := opt(ctx); err != nil {
			return nil, err
		}
	}

	ctx.wayMap = make(map[osm.WayID]*osm.Way, len(o.Ways))
	for _, w := range ctx.osm.Ways {
		ctx.wayMap[w.ID] = w
	}

	ctx.wayMember = make(map[osm.NodeID]struct{}, len(ctx.osm.Nodes))
	for i := range ctx.osm.Ways {
		ctx.markNodes(ctx.osm.Ways[i])
	}
`},
	// no dedicated pass: the line builder records every way node at the top of its loop; every way is resolved in the way pass or, if skippable, when it was made skippable
	{Name: "b-g8-fill-in-line-builder-unconditional", File: "osmgeojson/convert.go", Nth: 0,
		Find: `	ctx.wayMember = make(map[osm.NodeID]struct{}, len(ctx.osm.Nodes))
	for _, w := range ctx.osm.Ways {
		for i := range w.Nodes {
			ctx.wayMember[w.Nodes[i].ID] = struct{}{}
		}
	}

	// figure out relation membership map
	ctx.relationMember = make(map[osm.FeatureID][]*relationSummary)
	for _, relation := range ctx.osm.Relations {
		var tags map[string]string
		for _, m := range relation.Members {
			if ctx.noRelationMembership && m.Type != osm.TypeNode {
				// If we don't need to do relation membership we only
				// need this for nodes to check if they're interesting.
				continue
			}

			if m.Type == osm.TypeWay {
				// We only need to store the way membership for ways that are
				// present. eg. relations could have thousands of members but only
				// a few in set of osm.
				if _, ok := ctx.wayMap[osm.WayID(m.Ref)]; !ok {
					continue
				}
			}

			if tags == nil {
				tags = relation.Tags.Map()
			}

			fid := m.FeatureID()
			ctx.relationMember[fid] = append(ctx.relationMember[fid], &relationSummary{
				ID:   relation.ID,
				Role: m.Role,
				Tags: tags,
			})
		}
	}

	features := make([]*geojson.Feature, 0, len(ctx.osm.Relations)+len(ctx.osm.Ways))

	// relations
	for _, relation := range ctx.osm.Relations {
		tt := relation.Tags.Find("type")
		if tt == "route" {
			feature := ctx.buildRouteLineString(relation)
			if feature != nil {
				features = append(features, feature)
			}
		} else if tt == "multipolygon" || tt == "boundary" {
			feature := ctx.buildPolygon(relation)
			if feature != nil {
				features = append(features, feature)
			}
		}

		// NOTE: we skip/ignore relation that aren't multipolygons, boundaries or routes
	}

	for _, way := range ctx.osm.Ways {
		// should skip only skippable relation members
		if _, skip := ctx.skippable[way.ID]; skip {
			continue
		}

		feature := ctx.wayToFeature(way)
		if feature != nil {
			features = append(features, feature)
		}
	}

	for _, node := range ctx.osm.Nodes {
		// should NOT skip if any are true:
		//   not a member of a way.
		//   a member of a relation member
		//   has any interesting tags
		// should skip if all are true:
		//   a member of a way.
		//   not a member of a relation member
		//   does not have any interesting tags
		if _, ok := ctx.wayMember[node.ID]; ok &&
			len(ctx.relationMember[node.FeatureID()]) == 0 &&
			!hasInterestingTags(node.Tags, nil) {
			continue
		}

		feature := ctx.nodeToFeature(node)
		if feature != nil {
			features = append(features, feature)
		}
	}

	fc := geojson.NewFeatureCollection()
	fc.Features = features

	return fc, nil
}

// getNode will find the node in the set.
// This allows to lazily create the node map only if
// the nodes+ways aren't augmented (ie. include the lat/lon on them).
func (ctx *context) getNode(id osm.NodeID) *osm.Node {
	if ctx.nodeMap == nil {
		ctx.nodeMap = make(map[osm.NodeID]*osm.Node, len(ctx.osm.Nodes))
		for _, n := range ctx.osm.Nodes {
			ctx.nodeMap[n.ID] = n
		}
	}

	return ctx.nodeMap[id]
}

func (ctx *context) nodeToFeature(n *osm.Node) *geojson.Feature {
	// our definition of empty, ill defined
	if n.Lon == 0 && n.Lat == 0 && n.Version == 0 {
		return nil
	}

	f := geojson.NewFeature(orb.Point{n.Lon, n.Lat})

	if !ctx.noID {
		f.ID = fmt.Sprintf("node/%d", n.ID)
	}
	f.Properties["id"] = int(n.ID)
	f.Properties["type"] = "node"
	f.Properties["tags"] = n.Tags.Map()

	ctx.addMetaProperties(f.Properties, n)

	return f
}

func (ctx *context) wayToLineString(w *osm.Way) (orb.LineString, bool) {
	ls := make(orb.LineString, 0, len(w.Nodes))
	tainted := false
	for _, wn := range w.Nodes {
		if wn.Lon != 0 || wn.Lat != 0 {
			ls = append(ls, orb.Point{wn.Lon, wn.Lat})
		} else if n := ctx.getNode(wn.ID); n != nil {
			ls = append(ls, orb.Point{n.Lon, n.Lat})
		} else {
			tainted = true
		}
	}

	return ls, tainted
`,
		Replace: `	ctx.wayMember = make(map[osm.NodeID]struct{}, len(ctx.osm.Nodes))

	// figure out relation membership map
	ctx.relationMember = make(map[osm.FeatureID][]*relationSummary)
	for _, relation := range ctx.osm.Relations {
		var tags map[string]string
		for _, m := range relation.Members {
			if ctx.noRelationMembership && m.Type != osm.TypeNode {
				// If we don't need to do relation membership we only
				// need this for nodes to check if they're interesting.
				continue
			}

			if m.Type == osm.TypeWay {
				// We only need to store the way membership for ways that are
				// present. eg. relations could have thousands of members but only
				// a few in set of osm.
				if _, ok := ctx.wayMap[osm.WayID(m.Ref)]; !ok {
					continue
				}
			}

			if tags == nil {
				tags = relation.Tags.Map()
			}

			fid := m.FeatureID()
			ctx.relationMember[fid] = append(ctx.relationMember[fid], &relationSummary{
				ID:   relation.ID,
				Role: m.Role,
				Tags: tags,
			})
		}
	}

	features := make([]*geojson.Feature, 0, len(ctx.osm.Relations)+len(ctx.osm.Ways))

	// relations
	for _, relation := range ctx.osm.Relations {
		tt := relation.Tags.Find("type")
		if tt == "route" {
			feature := ctx.buildRouteLineString(relation)
			if feature != nil {
				features = append(features, feature)
			}
		} else if tt == "multipolygon" || tt == "boundary" {
			feature := ctx.buildPolygon(relation)
			if feature != nil {
				features = append(features, feature)
			}
		}

		// NOTE: we skip/ignore relation that aren't multipolygons, boundaries or routes
	}

	for _, way := range ctx.osm.Ways {
		// should skip only skippable relation members
		if _, skip := ctx.skippable[way.ID]; skip {
			continue
		}

		feature := ctx.wayToFeature(way)
		if feature != nil {
			features = append(features, feature)
		}
	}

	for _, node := range ctx.osm.Nodes {
		// should NOT skip if any are true:
		//   not a member of a way.
		//   a member of a relation member
		//   has any interesting tags
		// should skip if all are true:
		//   a member of a way.
		//   not a member of a relation member
		//   does not have any interesting tags
		if _, ok := ctx.wayMember[node.ID]; ok &&
			len(ctx.relationMember[node.FeatureID()]) == 0 &&
			!hasInterestingTags(node.Tags, nil) {
			continue
		}

		feature := ctx.nodeToFeature(node)
		if feature != nil {
			features = append(features, feature)
		}
	}

	fc := geojson.NewFeatureCollection()
	fc.Features = features

	return fc, nil
}

// getNode will find the node in the set.
// This allows to lazily create the node map only if
// the nodes+ways aren't augmented (ie. include the lat/lon on them).
func (ctx *context) getNode(id osm.NodeID) *osm.Node {
	if ctx.nodeMap == nil {
		ctx.nodeMap = make(map[osm.NodeID]*osm.Node, len(ctx.osm.Nodes))
		for _, n := range ctx.osm.Nodes {
			ctx.nodeMap[n.ID] = n
		}
	}

	return ctx.nodeMap[id]
}

func (ctx *context) nodeToFeature(n *osm.Node) *geojson.Feature {
	// our definition of empty, ill defined
	if n.Lon == 0 && n.Lat == 0 && n.Version == 0 {
		return nil
	}

	f := geojson.NewFeature(orb.Point{n.Lon, n.Lat})

	if !ctx.noID {
		f.ID = fmt.Sprintf("node/%d", n.ID)
	}
	f.Properties["id"] = int(n.ID)
	f.Properties["type"] = "node"
	f.Properties["tags"] = n.Tags.Map()

	ctx.addMetaProperties(f.Properties, n)

	return f
}

func (ctx *context) wayToLineString(w *osm.Way) (orb.LineString, bool) {
	ls := make(orb.LineString, 0, len(w.Nodes))
	tainted := false
	for _, wn := range w.Nodes {
		// every node of a way, located or not, is part of it.
		ctx.wayMember[wn.ID] = struct{}{}
		if wn.Lon != 0 || wn.Lat != 0 {
			ls = append(ls, orb.Point{wn.Lon, wn.Lat})
		} else if n := ctx.getNode(wn.ID); n != nil {
			ls = append(ls, orb.Point{n.Lon, n.Lat})
		} else {
			tainted = true
		}
	}

	return ls, tainted
`},
	// set kept as map[osm.NodeID]bool
	{Name: "b-g8-set-as-bool-map", File: "osmgeojson/convert.go", Nth: 0,
		Find:    "\twayMember      map[osm.NodeID]struct{}\n\tnodeMap        map[osm.NodeID]*osm.Node\n\twayMap         map[osm.WayID]*osm.Way\n}\n\ntype relationSummary struct {\n\tID   osm.RelationID    `json:\"id\"`\n\tRole string            `json:\"role\"`\n\tTags map[string]string `json:\"tags\"`\n}\n\n// Convert takes a set of osm elements and converts them\n// to a geojson feature collection.\nfunc Convert(o *osm.OSM, opts ...Option) (*geojson.FeatureCollection, error) {\n\tctx := &context{\n\t\tosm:       o,\n\t\tskippable: make(map[osm.WayID]struct{}),\n\t}\n\n\tfor _, opt := range opts {\n\t\tif err := opt(ctx); err != nil {\n\t\t\treturn nil, err\n\t\t}\n\t}\n\n\tctx.wayMap = make(map[osm.WayID]*osm.Way, len(o.Ways))\n\tfor _, w := range ctx.osm.Ways {\n\t\tctx.wayMap[w.ID] = w\n\t}\n\n\tctx.wayMember = make(map[osm.NodeID]struct{}, len(ctx.osm.Nodes))\n\tfor _, w := range ctx.osm.Ways {\n\t\tfor i := range w.Nodes {\n\t\t\tctx.wayMember[w.Nodes[i].ID] = struct{}{}\n\t\t}\n\t}\n",
		Replace: "\twayMember      map[osm.NodeID]bool\n\tnodeMap        map[osm.NodeID]*osm.Node\n\twayMap         map[osm.WayID]*osm.Way\n}\n\ntype relationSummary struct {\n\tID   osm.RelationID    `json:\"id\"`\n\tRole string            `json:\"role\"`\n\tTags map[string]string `json:\"tags\"`\n}\n\n// Convert takes a set of osm elements and converts them\n// to a geojson feature collection.\nfunc Convert(o *osm.OSM, opts ...Option) (*geojson.FeatureCollection, error) {\n\tctx := &context{\n\t\tosm:       o,\n\t\tskippable: make(map[osm.WayID]struct{}),\n\t}\n\n\tfor _, opt := range opts {\n\t\tif err := opt(ctx); err != nil {\n\t\t\treturn nil, err\n\t\t}\n\t}\n\n\tctx.wayMap = make(map[osm.WayID]*osm.Way, len(o.Ways))\n\tfor _, w := range ctx.osm.Ways {\n\t\tctx.wayMap[w.ID] = w\n\t}\n\n\tctx.wayMember = make(map[osm.NodeID]bool, len(ctx.osm.Nodes))\n\tfor _, w := range ctx.osm.Ways {\n\t\tfor i := range w.Nodes {\n\t\t\tctx.wayMember[w.Nodes[i].ID] = true\n\t\t}\n\t}\n"},
	// set kept as a sorted slice of ids, read by binary search
	{Name: "b-g8-set-as-sorted-slice", File: "osmgeojson/convert.go", Nth: 0,
		Find:    "import (\n\t\"fmt\"\n\n\t\"github.com/paulmach/orb\"\n\t\"github.com/paulmach/orb/geojson\"\n\t\"github.com/paulmach/osm\"\n\t\"github.com/paulmach/osm/internal/mputil\"\n)\n\ntype context struct {\n\tnoID                   bool\n\tnoMeta                 bool\n\tnoRelationMembership   bool\n\tincludeInvalidPolygons bool\n\n\tosm       *osm.OSM\n\tskippable map[osm.WayID]struct{}\n\n\trelationMember map[osm.FeatureID][]*relationSummary\n\twayMember      map[osm.NodeID]struct{}\n\tnodeMap        map[osm.NodeID]*osm.Node\n\twayMap         map[osm.WayID]*osm.Way\n}\n\ntype relationSummary struct {\n\tID   osm.RelationID    `json:\"id\"`\n\tRole string            `json:\"role\"`\n\tTags map[string]string `json:\"tags\"`\n}\n\n// Convert takes a set of osm elements and converts them\n// to a geojson feature collection.\nfunc Convert(o *osm.OSM, opts ...Option) (*geojson.FeatureCollection, error) {\n\tctx := &context{\n\t\tosm:       o,\n\t\tskippable: make(map[osm.WayID]struct{}),\n\t}\n\n\tfor _, opt := range opts {\n\t\tif err := opt(ctx); err != nil {\n\t\t\treturn nil, err\n\t\t}\n\t}\n\n\tctx.wayMap = make(map[osm.WayID]*osm.Way, len(o.Ways))\n\tfor _, w := range ctx.osm.Ways {\n\t\tctx.wayMap[w.ID] = w\n\t}\n\n\tctx.wayMember = make(map[osm.NodeID]struct{}, len(ctx.osm.Nodes))\n\tfor _, w := range ctx.osm.Ways {\n\t\tfor i := range w.Nodes {\n\t\t\tctx.wayMember[w.Nodes[i].ID] = struct{}{}\n\t\t}\n\t}\n\n\t// figure out relation membership map\n\tctx.relationMember = make(map[osm.FeatureID][]*relationSummary)\n\tfor _, relation := range ctx.osm.Relations {\n\t\tvar tags map[string]string\n\t\tfor _, m := range relation.Members {\n\t\t\tif ctx.noRelationMembership && m.Type != osm.TypeNode {\n\t\t\t\t// If we don't need to do relation membership we only\n\t\t\t\t// need this for nodes to check if they're interesting.\n\t\t\t\tcontinue\n\t\t\t}\n\n\t\t\tif m.Type == osm.TypeWay {\n\t\t\t\t// We only need to store the way membership for ways that are\n\t\t\t\t// present. eg. relations could have thousands of members but only\n\t\t\t\t// a few in set of osm.\n\t\t\t\tif _, ok := ctx.wayMap[osm.WayID(m.Ref)]; !ok {\n\t\t\t\t\tcontinue\n\t\t\t\t}\n\t\t\t}\n\n\t\t\tif tags == nil {\n\t\t\t\ttags = relation.Tags.Map()\n\t\t\t}\n\n\t\t\tfid := m.FeatureID()\n\t\t\tctx.relationMember[fid] = append(ctx.relationMember[fid], &relationSummary{\n\t\t\t\tID:   relation.ID,\n\t\t\t\tRole: m.Role,\n\t\t\t\tTags: tags,\n\t\t\t})\n\t\t}\n\t}\n\n\tfeatures := make([]*geojson.Feature, 0, len(ctx.osm.Relations)+len(ctx.osm.Ways))\n\n\t// relations\n\tfor _, relation := range ctx.osm.Relations {\n\t\ttt := relation.Tags.Find(\"type\")\n\t\tif tt == \"route\" {\n\t\t\tfeature := ctx.buildRouteLineString(relation)\n\t\t\tif feature != nil {\n\t\t\t\tfeatures = append(features, feature)\n\t\t\t}\n\t\t} else if tt == \"multipolygon\" || tt == \"boundary\" {\n\t\t\tfeature := ctx.buildPolygon(relation)\n\t\t\tif feature != nil {\n\t\t\t\tfeatures = append(features, feature)\n\t\t\t}\n\t\t}\n\n\t\t// NOTE: we skip/ignore relation that aren't multipolygons, boundaries or routes\n\t}\n\n\tfor _, way := range ctx.osm.Ways {\n\t\t// should skip only skippable relation members\n\t\tif _, skip := ctx.skippable[way.ID]; skip {\n\t\t\tcontinue\n\t\t}\n\n\t\tfeature := ctx.wayToFeature(way)\n\t\tif feature != nil {\n\t\t\tfeatures = append(features, feature)\n\t\t}\n\t}\n\n\tfor _, node := range ctx.osm.Nodes {\n\t\t// should NOT skip if any are true:\n\t\t//   not a member of a way.\n\t\t//   a member of a relation member\n\t\t//   has any interesting tags\n\t\t// should skip if all are true:\n\t\t//   a member of a way.\n\t\t//   not a member of a relation member\n\t\t//   does not have any interesting tags\n\t\tif _, ok := ctx.wayMember[node.ID]; ok &&\n\t\t\tlen(ctx.relationMember[node.FeatureID()]) == 0 &&\n\t\t\t!hasInterestingTags(node.Tags, nil) {\n",
		Replace: "import (\n\t\"fmt\"\n\t\"sort\"\n\n\t\"github.com/paulmach/orb\"\n\t\"github.com/paulmach/orb/geojson\"\n\t\"github.com/paulmach/osm\"\n\t\"github.com/paulmach/osm/internal/mputil\"\n)\n\ntype context struct {\n\tnoID                   bool\n\tnoMeta                 bool\n\tnoRelationMembership   bool\n\tincludeInvalidPolygons bool\n\n\tosm       *osm.OSM\n\tskippable map[osm.WayID]struct{}\n\n\trelationMember map[osm.FeatureID][]*relationSummary\n\twayMember      []osm.NodeID // sorted\n\tnodeMap        map[osm.NodeID]*osm.Node\n\twayMap         map[osm.WayID]*osm.Way\n}\n\ntype relationSummary struct {\n\tID   osm.RelationID    `json:\"id\"`\n\tRole string            `json:\"role\"`\n\tTags map[string]string `json:\"tags\"`\n}\n\n// Convert takes a set of osm elements and converts them\n// to a geojson feature collection.\nfunc Convert(o *osm.OSM, opts ...Option) (*geojson.FeatureCollection, error) {\n\tctx := &context{\n\t\tosm:       o,\n\t\tskippable: make(map[osm.WayID]struct{}),\n\t}\n\n\tfor _, opt := range opts {\n\t\tif err := opt(ctx); err != nil {\n\t\t\treturn nil, err\n\t\t}\n\t}\n\n\tctx.wayMap = make(map[osm.WayID]*osm.Way, len(o.Ways))\n\tfor _, w := range ctx.osm.Ways {\n\t\tctx.wayMap[w.ID] = w\n\t}\n\n\tctx.wayMember = make([]osm.NodeID, 0, len(ctx.osm.Nodes))\n\tfor _, w := range ctx.osm.Ways {\n\t\tfor _, wn := range w.Nodes {\n\t\t\tctx.wayMember = append(ctx.wayMember, wn.ID)\n\t\t}\n\t}\n\tsort.Slice(ctx.wayMember, func(i, j int) bool { return ctx.wayMember[i] < ctx.wayMember[j] })\n\n\t// figure out relation membership map\n\tctx.relationMember = make(map[osm.FeatureID][]*relationSummary)\n\tfor _, relation := range ctx.osm.Relations {\n\t\tvar tags map[string]string\n\t\tfor _, m := range relation.Members {\n\t\t\tif ctx.noRelationMembership && m.Type != osm.TypeNode {\n\t\t\t\t// If we don't need to do relation membership we only\n\t\t\t\t// need this for nodes to check if they're interesting.\n\t\t\t\tcontinue\n\t\t\t}\n\n\t\t\tif m.Type == osm.TypeWay {\n\t\t\t\t// We only need to store the way membership for ways that are\n\t\t\t\t// present. eg. relations could have thousands of members but only\n\t\t\t\t// a few in set of osm.\n\t\t\t\tif _, ok := ctx.wayMap[osm.WayID(m.Ref)]; !ok {\n\t\t\t\t\tcontinue\n\t\t\t\t}\n\t\t\t}\n\n\t\t\tif tags == nil {\n\t\t\t\ttags = relation.Tags.Map()\n\t\t\t}\n\n\t\t\tfid := m.FeatureID()\n\t\t\tctx.relationMember[fid] = append(ctx.relationMember[fid], &relationSummary{\n\t\t\t\tID:   relation.ID,\n\t\t\t\tRole: m.Role,\n\t\t\t\tTags: tags,\n\t\t\t})\n\t\t}\n\t}\n\n\tfeatures := make([]*geojson.Feature, 0, len(ctx.osm.Relations)+len(ctx.osm.Ways))\n\n\t// relations\n\tfor _, relation := range ctx.osm.Relations {\n\t\ttt := relation.Tags.Find(\"type\")\n\t\tif tt == \"route\" {\n\t\t\tfeature := ctx.buildRouteLineString(relation)\n\t\t\tif feature != nil {\n\t\t\t\tfeatures = append(features, feature)\n\t\t\t}\n\t\t} else if tt == \"multipolygon\" || tt == \"boundary\" {\n\t\t\tfeature := ctx.buildPolygon(relation)\n\t\t\tif feature != nil {\n\t\t\t\tfeatures = append(features, feature)\n\t\t\t}\n\t\t}\n\n\t\t// NOTE: we skip/ignore relation that aren't multipolygons, boundaries or routes\n\t}\n\n\tfor _, way := range ctx.osm.Ways {\n\t\t// should skip only skippable relation members\n\t\tif _, skip := ctx.skippable[way.ID]; skip {\n\t\t\tcontinue\n\t\t}\n\n\t\tfeature := ctx.wayToFeature(way)\n\t\tif feature != nil {\n\t\t\tfeatures = append(features, feature)\n\t\t}\n\t}\n\n\tfor _, node := range ctx.osm.Nodes {\n\t\t// should NOT skip if any are true:\n\t\t//   not a member of a way.\n\t\t//   a member of a relation member\n\t\t//   has any interesting tags\n\t\t// should skip if all are true:\n\t\t//   a member of a way.\n\t\t//   not a member of a relation member\n\t\t//   does not have any interesting tags\n\t\tat := sort.Search(len(ctx.wayMember), func(i int) bool { return ctx.wayMember[i] >= node.ID })\n\t\tif ok := at < len(ctx.wayMember) && ctx.wayMember[at] == node.ID; ok &&\n\t\t\tlen(ctx.relationMember[node.FeatureID()]) == 0 &&\n\t\t\t!hasInterestingTags(node.Tags, nil) {\n"},
	// the four copies of the nil-dropping append replaced by a local closure capturing the feature list
	{Name: "b-g5-emit-closure", File: "osmgeojson/convert.go", Nth: 0,
		Find: `	features := make([]*geojson.Feature, 0, len(ctx.osm.Relations)+len(ctx.osm.Ways))

	// relations
	for _, relation := range ctx.osm.Relations {
		tt := relation.Tags.Find("type")
		if tt == "route" {
			feature := ctx.buildRouteLineString(relation)
			if feature != nil {
				features = append(features, feature)
			}
		} else if tt == "multipolygon" || tt == "boundary" {
			feature := ctx.buildPolygon(relation)
			if feature != nil {
				features = append(features, feature)
			}
		}

		// NOTE: we skip/ignore relation that aren't multipolygons, boundaries or routes
	}

	for _, way := range ctx.osm.Ways {
		// should skip only skippable relation members
		if _, skip := ctx.skippable[way.ID]; skip {
			continue
		}

		feature := ctx.wayToFeature(way)
		if feature != nil {
			features = append(features, feature)
		}
	}

	for _, node := range ctx.osm.Nodes {
		// should NOT skip if any are true:
		//   not a member of a way.
		//   a member of a relation member
		//   has any interesting tags
		// should skip if all are true:
		//   a member of a way.
		//   not a member of a relation member
		//   does not have any interesting tags
		if _, ok := ctx.wayMember[node.ID]; ok &&
			len(ctx.relationMember[node.FeatureID()]) == 0 &&
			!hasInterestingTags(node.Tags, nil) {
			continue
		}

		feature := ctx.nodeToFeature(node)
		if feature != nil {
			features = append(features, feature)
		}
`,
		Replace: `	features := make([]*geojson.Feature, 0, len(ctx.osm.Relations)+len(ctx.osm.Ways))
	emit := func(f *geojson.Feature) {
		if f != nil {
			features = append(features, f)
		}
	}

	// relations
	for _, relation := range ctx.osm.Relations {
		tt := relation.Tags.Find("type")
		if tt == "route" {
			emit(ctx.buildRouteLineString(relation))
		} else if tt == "multipolygon" || tt == "boundary" {
			emit(ctx.buildPolygon(relation))
		}

		// NOTE: we skip/ignore relation that aren't multipolygons, boundaries or routes
	}

	for _, way := range ctx.osm.Ways {
		// should skip only skippable relation members
		if _, skip := ctx.skippable[way.ID]; skip {
			continue
		}

		emit(ctx.wayToFeature(way))
	}

	for _, node := range ctx.osm.Nodes {
		// should NOT skip if any are true:
		//   not a member of a way.
		//   a member of a relation member
		//   has any interesting tags
		// should skip if all are true:
		//   a member of a way.
		//   not a member of a relation member
		//   does not have any interesting tags
		if _, ok := ctx.wayMember[node.ID]; ok &&
			len(ctx.relationMember[node.FeatureID()]) == 0 &&
			!hasInterestingTags(node.Tags, nil) {
			continue
		}

		emit(ctx.nodeToFeature(node))
`},
	// the skip condition as the De Morgan inverse in a helper with an early return; interest test through the library method
	{Name: "b-g9-wants-node-feature-demorgan", File: "osmgeojson/convert.go", Nth: 0,
		Find: `	for _, node := range ctx.osm.Nodes {
		// should NOT skip if any are true:
		//   not a member of a way.
		//   a member of a relation member
		//   has any interesting tags
		// should skip if all are true:
		//   a member of a way.
		//   not a member of a relation member
		//   does not have any interesting tags
		if _, ok := ctx.wayMember[node.ID]; ok &&
			len(ctx.relationMember[node.FeatureID()]) == 0 &&
			!hasInterestingTags(node.Tags, nil) {
			continue
		}

		feature := ctx.nodeToFeature(node)
		if feature != nil {
			features = append(features, feature)
		}
	}

	fc := geojson.NewFeatureCollection()
	fc.Features = features

	return fc, nil
}
`,
		Replace: `	for _, node := range ctx.osm.Nodes {
		if !ctx.wantsNodeFeature(node) {
			continue
		}

		feature := ctx.nodeToFeature(node)
		if feature != nil {
			features = append(features, feature)
		}
	}

	fc := geojson.NewFeatureCollection()
	fc.Features = features

	return fc, nil
}

// wantsNodeFeature: a node gets a point unless it is part of a way, not a
// relation member and without interesting tags.
func (ctx *context) wantsNodeFeature(n *osm.Node) bool {
	if _, inWay := ctx.wayMember[n.ID]; !inWay {
		return true
	}

	return len(ctx.relationMember[n.FeatureID()]) > 0 || n.Tags.AnyInteresting()
}
`},
	// the two loops over the ways fused, in a helper method
	{Name: "b-g8-fill-fused-into-index-helper", File: "osmgeojson/convert.go", Nth: 0,
		Find: `// Convert takes a set of osm elements and converts them
// to a geojson feature collection.
func Convert(o *osm.OSM, opts ...Option) (*geojson.FeatureCollection, error) {
	ctx := &context{
		osm:       o,
		skippable: make(map[osm.WayID]struct{}),
	}

	for _, opt := range opts {
		if err := opt(ctx); err != nil {
			return nil, err
		}
	}

	ctx.wayMap = make(map[osm.WayID]*osm.Way, len(o.Ways))
	for _, w := range ctx.osm.Ways {
		ctx.wayMap[w.ID] = w
	}

	ctx.wayMember = make(map[osm.NodeID]struct{}, len(ctx.osm.Nodes))
	for _, w := range ctx.osm.Ways {
		for i := range w.Nodes {
			ctx.wayMember[w.Nodes[i].ID] = struct{}{}
		}
	}
`,
		Replace: `// indexWays builds the id to way lookup and the set of nodes that are part of a way.
func (ctx *context) indexWays() {
	ctx.wayMap = make(map[osm.WayID]*osm.Way, len(ctx.osm.Ways))
	ctx.wayMember = make(map[osm.NodeID]struct{}, len(ctx.osm.Nodes))
	for _, w := range ctx.osm.Ways {
		ctx.wayMap[w.ID] = w
		for i := range w.Nodes {
			ctx.wayMember[w.Nodes[i].ID] = struct{}{}
		}
	}
}

// Convert takes a set of osm elements and converts them
// to a geojson feature collection.
func Convert(o *osm.OSM, opts ...Option) (*geojson.FeatureCollection, error) {
	ctx := &context{
		osm:       o,
		skippable: make(map[osm.WayID]struct{}),
	}

	for _, opt := range opts {
		if err := opt(ctx); err != nil {
			return nil, err
		}
	}

	ctx.indexWays()
`},
}

// c17Mutants5: the seeded defect C17-g, other spellings of it, and defects seeded into the shapes above.
var c17Mutants5 = []core.Mutant{
	// seed C17-g: the pass is gone, wayToLineString records only nodes it had to look up
	{Name: "g8-seed-fill-only-for-looked-up-nodes", File: "osmgeojson/convert.go", Nth: 0, ExpectRule: "G8", ExpectConstruct: "coverage@Convert",
		Find: `	ctx.wayMember = make(map[osm.NodeID]struct{}, len(ctx.osm.Nodes))
	for _, w := range ctx.osm.Ways {
		for i := range w.Nodes {
			ctx.wayMember[w.Nodes[i].ID] = struct{}{}
		}
	}

	// figure out relation membership map
	ctx.relationMember = make(map[osm.FeatureID][]*relationSummary)
	for _, relation := range ctx.osm.Relations {
		var tags map[string]string
		for _, m := range relation.Members {
			if ctx.noRelationMembership && m.Type != osm.TypeNode {
				// If we don't need to do relation membership we only
				// need this for nodes to check if they're interesting.
				continue
			}

			if m.Type == osm.TypeWay {
				// We only need to store the way membership for ways that are
				// present. eg. relations could have thousands of members but only
				// a few in set of osm.
				if _, ok := ctx.wayMap[osm.WayID(m.Ref)]; !ok {
					continue
				}
			}

			if tags == nil {
				tags = relation.Tags.Map()
			}

			fid := m.FeatureID()
			ctx.relationMember[fid] = append(ctx.relationMember[fid], &relationSummary{
				ID:   relation.ID,
				Role: m.Role,
				Tags: tags,
			})
		}
	}

	features := make([]*geojson.Feature, 0, len(ctx.osm.Relations)+len(ctx.osm.Ways))

	// relations
	for _, relation := range ctx.osm.Relations {
		tt := relation.Tags.Find("type")
		if tt == "route" {
			feature := ctx.buildRouteLineString(relation)
			if feature != nil {
				features = append(features, feature)
			}
		} else if tt == "multipolygon" || tt == "boundary" {
			feature := ctx.buildPolygon(relation)
			if feature != nil {
				features = append(features, feature)
			}
		}

		// NOTE: we skip/ignore relation that aren't multipolygons, boundaries or routes
	}

	for _, way := range ctx.osm.Ways {
		// should skip only skippable relation members
		if _, skip := ctx.skippable[way.ID]; skip {
			continue
		}

		feature := ctx.wayToFeature(way)
		if feature != nil {
			features = append(features, feature)
		}
	}

	for _, node := range ctx.osm.Nodes {
		// should NOT skip if any are true:
		//   not a member of a way.
		//   a member of a relation member
		//   has any interesting tags
		// should skip if all are true:
		//   a member of a way.
		//   not a member of a relation member
		//   does not have any interesting tags
		if _, ok := ctx.wayMember[node.ID]; ok &&
			len(ctx.relationMember[node.FeatureID()]) == 0 &&
			!hasInterestingTags(node.Tags, nil) {
			continue
		}

		feature := ctx.nodeToFeature(node)
		if feature != nil {
			features = append(features, feature)
		}
	}

	fc := geojson.NewFeatureCollection()
	fc.Features = features

	return fc, nil
}

// getNode will find the node in the set.
// This allows to lazily create the node map only if
// the nodes+ways aren't augmented (ie. include the lat/lon on them).
func (ctx *context) getNode(id osm.NodeID) *osm.Node {
	if ctx.nodeMap == nil {
		ctx.nodeMap = make(map[osm.NodeID]*osm.Node, len(ctx.osm.Nodes))
		for _, n := range ctx.osm.Nodes {
			ctx.nodeMap[n.ID] = n
		}
	}

	return ctx.nodeMap[id]
}

func (ctx *context) nodeToFeature(n *osm.Node) *geojson.Feature {
	// our definition of empty, ill defined
	if n.Lon == 0 && n.Lat == 0 && n.Version == 0 {
		return nil
	}

	f := geojson.NewFeature(orb.Point{n.Lon, n.Lat})

	if !ctx.noID {
		f.ID = fmt.Sprintf("node/%d", n.ID)
	}
	f.Properties["id"] = int(n.ID)
	f.Properties["type"] = "node"
	f.Properties["tags"] = n.Tags.Map()

	ctx.addMetaProperties(f.Properties, n)

	return f
}

func (ctx *context) wayToLineString(w *osm.Way) (orb.LineString, bool) {
	ls := make(orb.LineString, 0, len(w.Nodes))
	tainted := false
	for _, wn := range w.Nodes {
		if wn.Lon != 0 || wn.Lat != 0 {
			ls = append(ls, orb.Point{wn.Lon, wn.Lat})
		} else if n := ctx.getNode(wn.ID); n != nil {
			ls = append(ls, orb.Point{n.Lon, n.Lat})
		} else {
			tainted = true
		}
	}

	return ls, tainted
`,
		Replace: `	ctx.wayMember = make(map[osm.NodeID]struct{}, len(ctx.osm.Nodes))

	// figure out relation membership map
	ctx.relationMember = make(map[osm.FeatureID][]*relationSummary)
	for _, relation := range ctx.osm.Relations {
		var tags map[string]string
		for _, m := range relation.Members {
			if ctx.noRelationMembership && m.Type != osm.TypeNode {
				// If we don't need to do relation membership we only
				// need this for nodes to check if they're interesting.
				continue
			}

			if m.Type == osm.TypeWay {
				// We only need to store the way membership for ways that are
				// present. eg. relations could have thousands of members but only
				// a few in set of osm.
				if _, ok := ctx.wayMap[osm.WayID(m.Ref)]; !ok {
					continue
				}
			}

			if tags == nil {
				tags = relation.Tags.Map()
			}

			fid := m.FeatureID()
			ctx.relationMember[fid] = append(ctx.relationMember[fid], &relationSummary{
				ID:   relation.ID,
				Role: m.Role,
				Tags: tags,
			})
		}
	}

	features := make([]*geojson.Feature, 0, len(ctx.osm.Relations)+len(ctx.osm.Ways))

	// relations
	for _, relation := range ctx.osm.Relations {
		tt := relation.Tags.Find("type")
		if tt == "route" {
			feature := ctx.buildRouteLineString(relation)
			if feature != nil {
				features = append(features, feature)
			}
		} else if tt == "multipolygon" || tt == "boundary" {
			feature := ctx.buildPolygon(relation)
			if feature != nil {
				features = append(features, feature)
			}
		}

		// NOTE: we skip/ignore relation that aren't multipolygons, boundaries or routes
	}

	for _, way := range ctx.osm.Ways {
		// should skip only skippable relation members
		if _, skip := ctx.skippable[way.ID]; skip {
			continue
		}

		feature := ctx.wayToFeature(way)
		if feature != nil {
			features = append(features, feature)
		}
	}

	for _, node := range ctx.osm.Nodes {
		// should NOT skip if any are true:
		//   not a member of a way.
		//   a member of a relation member
		//   has any interesting tags
		// should skip if all are true:
		//   a member of a way.
		//   not a member of a relation member
		//   does not have any interesting tags
		if _, ok := ctx.wayMember[node.ID]; ok &&
			len(ctx.relationMember[node.FeatureID()]) == 0 &&
			!hasInterestingTags(node.Tags, nil) {
			continue
		}

		feature := ctx.nodeToFeature(node)
		if feature != nil {
			features = append(features, feature)
		}
	}

	fc := geojson.NewFeatureCollection()
	fc.Features = features

	return fc, nil
}

// getNode will find the node in the set.
// This allows to lazily create the node map only if
// the nodes+ways aren't augmented (ie. include the lat/lon on them).
func (ctx *context) getNode(id osm.NodeID) *osm.Node {
	if ctx.nodeMap == nil {
		ctx.nodeMap = make(map[osm.NodeID]*osm.Node, len(ctx.osm.Nodes))
		for _, n := range ctx.osm.Nodes {
			ctx.nodeMap[n.ID] = n
		}
	}

	return ctx.nodeMap[id]
}

func (ctx *context) nodeToFeature(n *osm.Node) *geojson.Feature {
	// our definition of empty, ill defined
	if n.Lon == 0 && n.Lat == 0 && n.Version == 0 {
		return nil
	}

	f := geojson.NewFeature(orb.Point{n.Lon, n.Lat})

	if !ctx.noID {
		f.ID = fmt.Sprintf("node/%d", n.ID)
	}
	f.Properties["id"] = int(n.ID)
	f.Properties["type"] = "node"
	f.Properties["tags"] = n.Tags.Map()

	ctx.addMetaProperties(f.Properties, n)

	return f
}

func (ctx *context) wayToLineString(w *osm.Way) (orb.LineString, bool) {
	ls := make(orb.LineString, 0, len(w.Nodes))
	tainted := false
	for _, wn := range w.Nodes {
		if wn.Lon != 0 || wn.Lat != 0 {
			ls = append(ls, orb.Point{wn.Lon, wn.Lat})
		} else if n := ctx.getNode(wn.ID); n != nil {
			ctx.wayMember[n.ID] = struct{}{}
			ls = append(ls, orb.Point{n.Lon, n.Lat})
		} else {
			tainted = true
		}
	}

	return ls, tainted
`},
	// way nodes carrying their own coordinates are not recorded
	{Name: "g8-fill-only-unlocated-way-nodes", File: "osmgeojson/convert.go", Nth: 0, ExpectRule: "G8", ExpectConstruct: "fill@Convert",
		Find: `			ctx.wayMember[w.Nodes[i].ID] = struct{}{}
`,
		Replace: `			if w.Nodes[i].Lat == 0 && w.Nodes[i].Lon == 0 {
				ctx.wayMember[w.Nodes[i].ID] = struct{}{}
			}
`},
	// `continue` for nodes missing from the node set before the insertion
	{Name: "g8-fill-skips-missing-nodes", File: "osmgeojson/convert.go", Nth: 0, ExpectRule: "G8", ExpectConstruct: "fill@Convert",
		Find: `			ctx.wayMember[w.Nodes[i].ID] = struct{}{}
`,
		Replace: `			if ctx.getNode(w.Nodes[i].ID) == nil {
				continue
			}
			ctx.wayMember[w.Nodes[i].ID] = struct{}{}
`},
	// nodes recorded only for the ways that produced a feature in the way pass
	{Name: "g8-fill-only-ways-with-features", File: "osmgeojson/convert.go", Nth: 0, ExpectRule: "G8", ExpectConstruct: "coverage@Convert",
		Find: `	ctx.wayMember = make(map[osm.NodeID]struct{}, len(ctx.osm.Nodes))
	for _, w := range ctx.osm.Ways {
		for i := range w.Nodes {
			ctx.wayMember[w.Nodes[i].ID] = struct{}{}
		}
	}

	// figure out relation membership map
	ctx.relationMember = make(map[osm.FeatureID][]*relationSummary)
	for _, relation := range ctx.osm.Relations {
		var tags map[string]string
		for _, m := range relation.Members {
			if ctx.noRelationMembership && m.Type != osm.TypeNode {
				// If we don't need to do relation membership we only
				// need this for nodes to check if they're interesting.
				continue
			}

			if m.Type == osm.TypeWay {
				// We only need to store the way membership for ways that are
				// present. eg. relations could have thousands of members but only
				// a few in set of osm.
				if _, ok := ctx.wayMap[osm.WayID(m.Ref)]; !ok {
					continue
				}
			}

			if tags == nil {
				tags = relation.Tags.Map()
			}

			fid := m.FeatureID()
			ctx.relationMember[fid] = append(ctx.relationMember[fid], &relationSummary{
				ID:   relation.ID,
				Role: m.Role,
				Tags: tags,
			})
		}
	}

	features := make([]*geojson.Feature, 0, len(ctx.osm.Relations)+len(ctx.osm.Ways))

	// relations
	for _, relation := range ctx.osm.Relations {
		tt := relation.Tags.Find("type")
		if tt == "route" {
			feature := ctx.buildRouteLineString(relation)
			if feature != nil {
				features = append(features, feature)
			}
		} else if tt == "multipolygon" || tt == "boundary" {
			feature := ctx.buildPolygon(relation)
			if feature != nil {
				features = append(features, feature)
			}
		}

		// NOTE: we skip/ignore relation that aren't multipolygons, boundaries or routes
	}

	for _, way := range ctx.osm.Ways {
		// should skip only skippable relation members
		if _, skip := ctx.skippable[way.ID]; skip {
			continue
		}

		feature := ctx.wayToFeature(way)
		if feature != nil {
			features = append(features, feature)
		}
`,
		Replace: `	ctx.wayMember = make(map[osm.NodeID]struct{}, len(ctx.osm.Nodes))

	// figure out relation membership map
	ctx.relationMember = make(map[osm.FeatureID][]*relationSummary)
	for _, relation := range ctx.osm.Relations {
		var tags map[string]string
		for _, m := range relation.Members {
			if ctx.noRelationMembership && m.Type != osm.TypeNode {
				// If we don't need to do relation membership we only
				// need this for nodes to check if they're interesting.
				continue
			}

			if m.Type == osm.TypeWay {
				// We only need to store the way membership for ways that are
				// present. eg. relations could have thousands of members but only
				// a few in set of osm.
				if _, ok := ctx.wayMap[osm.WayID(m.Ref)]; !ok {
					continue
				}
			}

			if tags == nil {
				tags = relation.Tags.Map()
			}

			fid := m.FeatureID()
			ctx.relationMember[fid] = append(ctx.relationMember[fid], &relationSummary{
				ID:   relation.ID,
				Role: m.Role,
				Tags: tags,
			})
		}
	}

	features := make([]*geojson.Feature, 0, len(ctx.osm.Relations)+len(ctx.osm.Ways))

	// relations
	for _, relation := range ctx.osm.Relations {
		tt := relation.Tags.Find("type")
		if tt == "route" {
			feature := ctx.buildRouteLineString(relation)
			if feature != nil {
				features = append(features, feature)
			}
		} else if tt == "multipolygon" || tt == "boundary" {
			feature := ctx.buildPolygon(relation)
			if feature != nil {
				features = append(features, feature)
			}
		}

		// NOTE: we skip/ignore relation that aren't multipolygons, boundaries or routes
	}

	for _, way := range ctx.osm.Ways {
		// should skip only skippable relation members
		if _, skip := ctx.skippable[way.ID]; skip {
			continue
		}

		feature := ctx.wayToFeature(way)
		if feature != nil {
			features = append(features, feature)
			for i := range way.Nodes {
				ctx.wayMember[way.Nodes[i].ID] = struct{}{}
			}
		}
`},
	// the fill pass runs after the node pass that reads the set
	{Name: "g8-fill-after-node-pass", File: "osmgeojson/convert.go", Nth: 0, ExpectRule: "G8", ExpectConstruct: "read-after-fill@Convert",
		Find: `	ctx.wayMember = make(map[osm.NodeID]struct{}, len(ctx.osm.Nodes))
	for _, w := range ctx.osm.Ways {
		for i := range w.Nodes {
			ctx.wayMember[w.Nodes[i].ID] = struct{}{}
		}
	}

	// figure out relation membership map
	ctx.relationMember = make(map[osm.FeatureID][]*relationSummary)
	for _, relation := range ctx.osm.Relations {
		var tags map[string]string
		for _, m := range relation.Members {
			if ctx.noRelationMembership && m.Type != osm.TypeNode {
				// If we don't need to do relation membership we only
				// need this for nodes to check if they're interesting.
				continue
			}

			if m.Type == osm.TypeWay {
				// We only need to store the way membership for ways that are
				// present. eg. relations could have thousands of members but only
				// a few in set of osm.
				if _, ok := ctx.wayMap[osm.WayID(m.Ref)]; !ok {
					continue
				}
			}

			if tags == nil {
				tags = relation.Tags.Map()
			}

			fid := m.FeatureID()
			ctx.relationMember[fid] = append(ctx.relationMember[fid], &relationSummary{
				ID:   relation.ID,
				Role: m.Role,
				Tags: tags,
			})
		}
	}

	features := make([]*geojson.Feature, 0, len(ctx.osm.Relations)+len(ctx.osm.Ways))

	// relations
	for _, relation := range ctx.osm.Relations {
		tt := relation.Tags.Find("type")
		if tt == "route" {
			feature := ctx.buildRouteLineString(relation)
			if feature != nil {
				features = append(features, feature)
			}
		} else if tt == "multipolygon" || tt == "boundary" {
			feature := ctx.buildPolygon(relation)
			if feature != nil {
				features = append(features, feature)
			}
		}

		// NOTE: we skip/ignore relation that aren't multipolygons, boundaries or routes
	}

	for _, way := range ctx.osm.Ways {
		// should skip only skippable relation members
		if _, skip := ctx.skippable[way.ID]; skip {
			continue
		}

		feature := ctx.wayToFeature(way)
		if feature != nil {
			features = append(features, feature)
		}
	}

	for _, node := range ctx.osm.Nodes {
		// should NOT skip if any are true:
		//   not a member of a way.
		//   a member of a relation member
		//   has any interesting tags
		// should skip if all are true:
		//   a member of a way.
		//   not a member of a relation member
		//   does not have any interesting tags
		if _, ok := ctx.wayMember[node.ID]; ok &&
			len(ctx.relationMember[node.FeatureID()]) == 0 &&
			!hasInterestingTags(node.Tags, nil) {
			continue
		}

		feature := ctx.nodeToFeature(node)
		if feature != nil {
			features = append(features, feature)
		}
	}

	fc := geojson.NewFeatureCollection()
`,
		Replace: `	ctx.wayMember = make(map[osm.NodeID]struct{}, len(ctx.osm.Nodes))

	// figure out relation membership map
	ctx.relationMember = make(map[osm.FeatureID][]*relationSummary)
	for _, relation := range ctx.osm.Relations {
		var tags map[string]string
		for _, m := range relation.Members {
			if ctx.noRelationMembership && m.Type != osm.TypeNode {
				// If we don't need to do relation membership we only
				// need this for nodes to check if they're interesting.
				continue
			}

			if m.Type == osm.TypeWay {
				// We only need to store the way membership for ways that are
				// present. eg. relations could have thousands of members but only
				// a few in set of osm.
				if _, ok := ctx.wayMap[osm.WayID(m.Ref)]; !ok {
					continue
				}
			}

			if tags == nil {
				tags = relation.Tags.Map()
			}

			fid := m.FeatureID()
			ctx.relationMember[fid] = append(ctx.relationMember[fid], &relationSummary{
				ID:   relation.ID,
				Role: m.Role,
				Tags: tags,
			})
		}
	}

	features := make([]*geojson.Feature, 0, len(ctx.osm.Relations)+len(ctx.osm.Ways))

	// relations
	for _, relation := range ctx.osm.Relations {
		tt := relation.Tags.Find("type")
		if tt == "route" {
			feature := ctx.buildRouteLineString(relation)
			if feature != nil {
				features = append(features, feature)
			}
		} else if tt == "multipolygon" || tt == "boundary" {
			feature := ctx.buildPolygon(relation)
			if feature != nil {
				features = append(features, feature)
			}
		}

		// NOTE: we skip/ignore relation that aren't multipolygons, boundaries or routes
	}

	for _, way := range ctx.osm.Ways {
		// should skip only skippable relation members
		if _, skip := ctx.skippable[way.ID]; skip {
			continue
		}

		feature := ctx.wayToFeature(way)
		if feature != nil {
			features = append(features, feature)
		}
	}

	for _, node := range ctx.osm.Nodes {
		// should NOT skip if any are true:
		//   not a member of a way.
		//   a member of a relation member
		//   has any interesting tags
		// should skip if all are true:
		//   a member of a way.
		//   not a member of a relation member
		//   does not have any interesting tags
		if _, ok := ctx.wayMember[node.ID]; ok &&
			len(ctx.relationMember[node.FeatureID()]) == 0 &&
			!hasInterestingTags(node.Tags, nil) {
			continue
		}

		feature := ctx.nodeToFeature(node)
		if feature != nil {
			features = append(features, feature)
		}
	}

	for _, w := range ctx.osm.Ways {
		for i := range w.Nodes {
			ctx.wayMember[w.Nodes[i].ID] = struct{}{}
		}
	}

	fc := geojson.NewFeatureCollection()
`},
	// the fill pass ranges over a filtered copy of the ways
	{Name: "g8-fill-ranges-over-tagged-ways", File: "osmgeojson/convert.go", Nth: 0, ExpectRule: "G8", ExpectConstruct: "coverage@Convert",
		Find: `	for _, w := range ctx.osm.Ways {
		for i := range w.Nodes {
			ctx.wayMember[w.Nodes[i].ID] = struct{}{}
		}
	}
`,
		Replace: `	tagged := make(osm.Ways, 0, len(ctx.osm.Ways))
	for _, w := range ctx.osm.Ways {
		if len(w.Tags) != 0 {
			tagged = append(tagged, w)
		}
	}
	for _, w := range tagged {
		for i := range w.Nodes {
			ctx.wayMember[w.Nodes[i].ID] = struct{}{}
		}
	}
`},
	// the node loop is left early for long ways
	{Name: "g8-fill-loop-left-early", File: "osmgeojson/convert.go", Nth: 0, ExpectRule: "G8", ExpectConstruct: "fill@Convert",
		Find: `			ctx.wayMember[w.Nodes[i].ID] = struct{}{}
`,
		Replace: `			ctx.wayMember[w.Nodes[i].ID] = struct{}{}
			if i > 2000 {
				break
			}
`},
	// the per-way helper returns early for untagged ways
	{Name: "r-g8-per-way-helper-returns-early", File: "osmgeojson/convert.go", Nth: 0, ExpectRule: "G8", ExpectConstruct: "coverage@Convert",
		Find: `// Convert takes a set of osm elements and converts them
// to a geojson feature collection.
func Convert(o *osm.OSM, opts ...Option) (*geojson.FeatureCollection, error) {
	ctx := &context{
		osm:       o,
		skippable: make(map[osm.WayID]struct{}),
	}

	for _, opt := range opts {
		if err := opt(ctx); err != nil {
			return nil, err
		}
	}

	ctx.wayMap = make(map[osm.WayID]*osm.Way, len(o.Ways))
	for _, w := range ctx.osm.Ways {
		ctx.wayMap[w.ID] = w
	}

	ctx.wayMember = make(map[osm.NodeID]struct{}, len(ctx.osm.Nodes))
	for _, w := range ctx.osm.Ways {
		for i := range w.Nodes {
			ctx.wayMember[w.Nodes[i].ID] = struct{}{}
		}
	}
`,
		Replace: `// markNode remembers that the node is part of a way.
func (ctx *context) markNode(id osm.NodeID) {
	ctx.wayMember[id] = struct{}{}
}

// markNodes remembers the nodes of the way.
func (ctx *context) markNodes(w *osm.Way) {
	if len(w.Tags) == 0 {
		return
	}
	for i := range w.Nodes {
		wn := &w.Nodes[i]
		ctx.markNode(wn.ID)
	}
}

// Convert takes a set of osm elements and converts them
// to a geojson feature collection.
func Convert(o *osm.OSM, opts ...Option) (*geojson.FeatureCollection, error) {
	ctx := &context{
		osm:       o,
		skippable: make(map[osm.WayID]struct{}),
	}

	for _, opt := range opts {
		if err := opt(ctx); err != nil {
			return nil, err
		}
	}

	ctx.wayMap = make(map[osm.WayID]*osm.Way, len(o.Ways))
	for _, w := range ctx.osm.Ways {
		ctx.wayMap[w.ID] = w
	}

	ctx.wayMember = make(map[osm.NodeID]struct{}, len(ctx.osm.Nodes))
	for i := range ctx.osm.Ways {
		ctx.markNodes(ctx.osm.Ways[i])
	}
`},
	// the per-node helper records only once the node map exists
	{Name: "r-g8-per-node-helper-conditional", File: "osmgeojson/convert.go", Nth: 0, ExpectRule: "G8", ExpectConstruct: "fill@(*context).markNode",
		Find: `// Convert takes a set of osm elements and converts them
// to a geojson feature collection.
func Convert(o *osm.OSM, opts ...Option) (*geojson.FeatureCollection, error) {
	ctx := &context{
		osm:       o,
		skippable: make(map[osm.WayID]struct{}),
	}

	for _, opt := range opts {
		if err := opt(ctx); err != nil {
			return nil, err
		}
	}

	ctx.wayMap = make(map[osm.WayID]*osm.Way, len(o.Ways))
	for _, w := range ctx.osm.Ways {
		ctx.wayMap[w.ID] = w
	}

	ctx.wayMember = make(map[osm.NodeID]struct{}, len(ctx.osm.Nodes))
	for _, w := range ctx.osm.Ways {
		for i := range w.Nodes {
			ctx.wayMember[w.Nodes[i].ID] = struct{}{}
		}
	}
`,
		Replace: `// markNode remembers that the node is part of a way.
func (ctx *context) markNode(id osm.NodeID) {
	if ctx.nodeMap != nil {
		ctx.wayMember[id] = struct{}{}
	}
}

// markNodes remembers the nodes of the way.
func (ctx *context) markNodes(w *osm.Way) {
	for i := range w.Nodes {
		wn := &w.Nodes[i]
		ctx.markNode(wn.ID)
	}
}

// Convert takes a set of osm elements and converts them
// to a geojson feature collection.
func Convert(o *osm.OSM, opts ...Option) (*geojson.FeatureCollection, error) {
	ctx := &context{
		osm:       o,
		skippable: make(map[osm.WayID]struct{}),
	}

	for _, opt := range opts {
		if err := opt(ctx); err != nil {
			return nil, err
		}
	}

	ctx.wayMap = make(map[osm.WayID]*osm.Way, len(o.Ways))
	for _, w := range ctx.osm.Ways {
		ctx.wayMap[w.ID] = w
	}

	ctx.wayMember = make(map[osm.NodeID]struct{}, len(ctx.osm.Nodes))
	for i := range ctx.osm.Ways {
		ctx.markNodes(ctx.osm.Ways[i])
	}
`},
	// the line builder records only way nodes without coordinates of their own
	{Name: "r-g8-line-builder-fill-under-else", File: "osmgeojson/convert.go", Nth: 0, ExpectRule: "G8", ExpectConstruct: "coverage@Convert",
		Find: `	ctx.wayMember = make(map[osm.NodeID]struct{}, len(ctx.osm.Nodes))
	for _, w := range ctx.osm.Ways {
		for i := range w.Nodes {
			ctx.wayMember[w.Nodes[i].ID] = struct{}{}
		}
	}

	// figure out relation membership map
	ctx.relationMember = make(map[osm.FeatureID][]*relationSummary)
	for _, relation := range ctx.osm.Relations {
		var tags map[string]string
		for _, m := range relation.Members {
			if ctx.noRelationMembership && m.Type != osm.TypeNode {
				// If we don't need to do relation membership we only
				// need this for nodes to check if they're interesting.
				continue
			}

			if m.Type == osm.TypeWay {
				// We only need to store the way membership for ways that are
				// present. eg. relations could have thousands of members but only
				// a few in set of osm.
				if _, ok := ctx.wayMap[osm.WayID(m.Ref)]; !ok {
					continue
				}
			}

			if tags == nil {
				tags = relation.Tags.Map()
			}

			fid := m.FeatureID()
			ctx.relationMember[fid] = append(ctx.relationMember[fid], &relationSummary{
				ID:   relation.ID,
				Role: m.Role,
				Tags: tags,
			})
		}
	}

	features := make([]*geojson.Feature, 0, len(ctx.osm.Relations)+len(ctx.osm.Ways))

	// relations
	for _, relation := range ctx.osm.Relations {
		tt := relation.Tags.Find("type")
		if tt == "route" {
			feature := ctx.buildRouteLineString(relation)
			if feature != nil {
				features = append(features, feature)
			}
		} else if tt == "multipolygon" || tt == "boundary" {
			feature := ctx.buildPolygon(relation)
			if feature != nil {
				features = append(features, feature)
			}
		}

		// NOTE: we skip/ignore relation that aren't multipolygons, boundaries or routes
	}

	for _, way := range ctx.osm.Ways {
		// should skip only skippable relation members
		if _, skip := ctx.skippable[way.ID]; skip {
			continue
		}

		feature := ctx.wayToFeature(way)
		if feature != nil {
			features = append(features, feature)
		}
	}

	for _, node := range ctx.osm.Nodes {
		// should NOT skip if any are true:
		//   not a member of a way.
		//   a member of a relation member
		//   has any interesting tags
		// should skip if all are true:
		//   a member of a way.
		//   not a member of a relation member
		//   does not have any interesting tags
		if _, ok := ctx.wayMember[node.ID]; ok &&
			len(ctx.relationMember[node.FeatureID()]) == 0 &&
			!hasInterestingTags(node.Tags, nil) {
			continue
		}

		feature := ctx.nodeToFeature(node)
		if feature != nil {
			features = append(features, feature)
		}
	}

	fc := geojson.NewFeatureCollection()
	fc.Features = features

	return fc, nil
}

// getNode will find the node in the set.
// This allows to lazily create the node map only if
// the nodes+ways aren't augmented (ie. include the lat/lon on them).
func (ctx *context) getNode(id osm.NodeID) *osm.Node {
	if ctx.nodeMap == nil {
		ctx.nodeMap = make(map[osm.NodeID]*osm.Node, len(ctx.osm.Nodes))
		for _, n := range ctx.osm.Nodes {
			ctx.nodeMap[n.ID] = n
		}
	}

	return ctx.nodeMap[id]
}

func (ctx *context) nodeToFeature(n *osm.Node) *geojson.Feature {
	// our definition of empty, ill defined
	if n.Lon == 0 && n.Lat == 0 && n.Version == 0 {
		return nil
	}

	f := geojson.NewFeature(orb.Point{n.Lon, n.Lat})

	if !ctx.noID {
		f.ID = fmt.Sprintf("node/%d", n.ID)
	}
	f.Properties["id"] = int(n.ID)
	f.Properties["type"] = "node"
	f.Properties["tags"] = n.Tags.Map()

	ctx.addMetaProperties(f.Properties, n)

	return f
}

func (ctx *context) wayToLineString(w *osm.Way) (orb.LineString, bool) {
	ls := make(orb.LineString, 0, len(w.Nodes))
	tainted := false
	for _, wn := range w.Nodes {
		if wn.Lon != 0 || wn.Lat != 0 {
			ls = append(ls, orb.Point{wn.Lon, wn.Lat})
		} else if n := ctx.getNode(wn.ID); n != nil {
			ls = append(ls, orb.Point{n.Lon, n.Lat})
		} else {
			tainted = true
		}
	}

	return ls, tainted
`,
		Replace: `	ctx.wayMember = make(map[osm.NodeID]struct{}, len(ctx.osm.Nodes))

	// figure out relation membership map
	ctx.relationMember = make(map[osm.FeatureID][]*relationSummary)
	for _, relation := range ctx.osm.Relations {
		var tags map[string]string
		for _, m := range relation.Members {
			if ctx.noRelationMembership && m.Type != osm.TypeNode {
				// If we don't need to do relation membership we only
				// need this for nodes to check if they're interesting.
				continue
			}

			if m.Type == osm.TypeWay {
				// We only need to store the way membership for ways that are
				// present. eg. relations could have thousands of members but only
				// a few in set of osm.
				if _, ok := ctx.wayMap[osm.WayID(m.Ref)]; !ok {
					continue
				}
			}

			if tags == nil {
				tags = relation.Tags.Map()
			}

			fid := m.FeatureID()
			ctx.relationMember[fid] = append(ctx.relationMember[fid], &relationSummary{
				ID:   relation.ID,
				Role: m.Role,
				Tags: tags,
			})
		}
	}

	features := make([]*geojson.Feature, 0, len(ctx.osm.Relations)+len(ctx.osm.Ways))

	// relations
	for _, relation := range ctx.osm.Relations {
		tt := relation.Tags.Find("type")
		if tt == "route" {
			feature := ctx.buildRouteLineString(relation)
			if feature != nil {
				features = append(features, feature)
			}
		} else if tt == "multipolygon" || tt == "boundary" {
			feature := ctx.buildPolygon(relation)
			if feature != nil {
				features = append(features, feature)
			}
		}

		// NOTE: we skip/ignore relation that aren't multipolygons, boundaries or routes
	}

	for _, way := range ctx.osm.Ways {
		// should skip only skippable relation members
		if _, skip := ctx.skippable[way.ID]; skip {
			continue
		}

		feature := ctx.wayToFeature(way)
		if feature != nil {
			features = append(features, feature)
		}
	}

	for _, node := range ctx.osm.Nodes {
		// should NOT skip if any are true:
		//   not a member of a way.
		//   a member of a relation member
		//   has any interesting tags
		// should skip if all are true:
		//   a member of a way.
		//   not a member of a relation member
		//   does not have any interesting tags
		if _, ok := ctx.wayMember[node.ID]; ok &&
			len(ctx.relationMember[node.FeatureID()]) == 0 &&
			!hasInterestingTags(node.Tags, nil) {
			continue
		}

		feature := ctx.nodeToFeature(node)
		if feature != nil {
			features = append(features, feature)
		}
	}

	fc := geojson.NewFeatureCollection()
	fc.Features = features

	return fc, nil
}

// getNode will find the node in the set.
// This allows to lazily create the node map only if
// the nodes+ways aren't augmented (ie. include the lat/lon on them).
func (ctx *context) getNode(id osm.NodeID) *osm.Node {
	if ctx.nodeMap == nil {
		ctx.nodeMap = make(map[osm.NodeID]*osm.Node, len(ctx.osm.Nodes))
		for _, n := range ctx.osm.Nodes {
			ctx.nodeMap[n.ID] = n
		}
	}

	return ctx.nodeMap[id]
}

func (ctx *context) nodeToFeature(n *osm.Node) *geojson.Feature {
	// our definition of empty, ill defined
	if n.Lon == 0 && n.Lat == 0 && n.Version == 0 {
		return nil
	}

	f := geojson.NewFeature(orb.Point{n.Lon, n.Lat})

	if !ctx.noID {
		f.ID = fmt.Sprintf("node/%d", n.ID)
	}
	f.Properties["id"] = int(n.ID)
	f.Properties["type"] = "node"
	f.Properties["tags"] = n.Tags.Map()

	ctx.addMetaProperties(f.Properties, n)

	return f
}

func (ctx *context) wayToLineString(w *osm.Way) (orb.LineString, bool) {
	ls := make(orb.LineString, 0, len(w.Nodes))
	tainted := false
	for _, wn := range w.Nodes {
		if wn.Lon != 0 || wn.Lat != 0 {
			ls = append(ls, orb.Point{wn.Lon, wn.Lat})
			continue
		}
		ctx.wayMember[wn.ID] = struct{}{}
		if false {
		} else if n := ctx.getNode(wn.ID); n != nil {
			ls = append(ls, orb.Point{n.Lon, n.Lat})
		} else {
			tainted = true
		}
	}

	return ls, tainted
`},
	// only the first node of each way is recorded
	{Name: "r-g8-sorted-slice-only-first-node", File: "osmgeojson/convert.go", Nth: 0, ExpectRule: "G8", ExpectConstruct: "",
		Find:    "import (\n\t\"fmt\"\n\n\t\"github.com/paulmach/orb\"\n\t\"github.com/paulmach/orb/geojson\"\n\t\"github.com/paulmach/osm\"\n\t\"github.com/paulmach/osm/internal/mputil\"\n)\n\ntype context struct {\n\tnoID                   bool\n\tnoMeta                 bool\n\tnoRelationMembership   bool\n\tincludeInvalidPolygons bool\n\n\tosm       *osm.OSM\n\tskippable map[osm.WayID]struct{}\n\n\trelationMember map[osm.FeatureID][]*relationSummary\n\twayMember      map[osm.NodeID]struct{}\n\tnodeMap        map[osm.NodeID]*osm.Node\n\twayMap         map[osm.WayID]*osm.Way\n}\n\ntype relationSummary struct {\n\tID   osm.RelationID    `json:\"id\"`\n\tRole string            `json:\"role\"`\n\tTags map[string]string `json:\"tags\"`\n}\n\n// Convert takes a set of osm elements and converts them\n// to a geojson feature collection.\nfunc Convert(o *osm.OSM, opts ...Option) (*geojson.FeatureCollection, error) {\n\tctx := &context{\n\t\tosm:       o,\n\t\tskippable: make(map[osm.WayID]struct{}),\n\t}\n\n\tfor _, opt := range opts {\n\t\tif err := opt(ctx); err != nil {\n\t\t\treturn nil, err\n\t\t}\n\t}\n\n\tctx.wayMap = make(map[osm.WayID]*osm.Way, len(o.Ways))\n\tfor _, w := range ctx.osm.Ways {\n\t\tctx.wayMap[w.ID] = w\n\t}\n\n\tctx.wayMember = make(map[osm.NodeID]struct{}, len(ctx.osm.Nodes))\n\tfor _, w := range ctx.osm.Ways {\n\t\tfor i := range w.Nodes {\n\t\t\tctx.wayMember[w.Nodes[i].ID] = struct{}{}\n\t\t}\n\t}\n\n\t// figure out relation membership map\n\tctx.relationMember = make(map[osm.FeatureID][]*relationSummary)\n\tfor _, relation := range ctx.osm.Relations {\n\t\tvar tags map[string]string\n\t\tfor _, m := range relation.Members {\n\t\t\tif ctx.noRelationMembership && m.Type != osm.TypeNode {\n\t\t\t\t// If we don't need to do relation membership we only\n\t\t\t\t// need this for nodes to check if they're interesting.\n\t\t\t\tcontinue\n\t\t\t}\n\n\t\t\tif m.Type == osm.TypeWay {\n\t\t\t\t// We only need to store the way membership for ways that are\n\t\t\t\t// present. eg. relations could have thousands of members but only\n\t\t\t\t// a few in set of osm.\n\t\t\t\tif _, ok := ctx.wayMap[osm.WayID(m.Ref)]; !ok {\n\t\t\t\t\tcontinue\n\t\t\t\t}\n\t\t\t}\n\n\t\t\tif tags == nil {\n\t\t\t\ttags = relation.Tags.Map()\n\t\t\t}\n\n\t\t\tfid := m.FeatureID()\n\t\t\tctx.relationMember[fid] = append(ctx.relationMember[fid], &relationSummary{\n\t\t\t\tID:   relation.ID,\n\t\t\t\tRole: m.Role,\n\t\t\t\tTags: tags,\n\t\t\t})\n\t\t}\n\t}\n\n\tfeatures := make([]*geojson.Feature, 0, len(ctx.osm.Relations)+len(ctx.osm.Ways))\n\n\t// relations\n\tfor _, relation := range ctx.osm.Relations {\n\t\ttt := relation.Tags.Find(\"type\")\n\t\tif tt == \"route\" {\n\t\t\tfeature := ctx.buildRouteLineString(relation)\n\t\t\tif feature != nil {\n\t\t\t\tfeatures = append(features, feature)\n\t\t\t}\n\t\t} else if tt == \"multipolygon\" || tt == \"boundary\" {\n\t\t\tfeature := ctx.buildPolygon(relation)\n\t\t\tif feature != nil {\n\t\t\t\tfeatures = append(features, feature)\n\t\t\t}\n\t\t}\n\n\t\t// NOTE: we skip/ignore relation that aren't multipolygons, boundaries or routes\n\t}\n\n\tfor _, way := range ctx.osm.Ways {\n\t\t// should skip only skippable relation members\n\t\tif _, skip := ctx.skippable[way.ID]; skip {\n\t\t\tcontinue\n\t\t}\n\n\t\tfeature := ctx.wayToFeature(way)\n\t\tif feature != nil {\n\t\t\tfeatures = append(features, feature)\n\t\t}\n\t}\n\n\tfor _, node := range ctx.osm.Nodes {\n\t\t// should NOT skip if any are true:\n\t\t//   not a member of a way.\n\t\t//   a member of a relation member\n\t\t//   has any interesting tags\n\t\t// should skip if all are true:\n\t\t//   a member of a way.\n\t\t//   not a member of a relation member\n\t\t//   does not have any interesting tags\n\t\tif _, ok := ctx.wayMember[node.ID]; ok &&\n\t\t\tlen(ctx.relationMember[node.FeatureID()]) == 0 &&\n\t\t\t!hasInterestingTags(node.Tags, nil) {\n",
		Replace: "import (\n\t\"fmt\"\n\t\"sort\"\n\n\t\"github.com/paulmach/orb\"\n\t\"github.com/paulmach/orb/geojson\"\n\t\"github.com/paulmach/osm\"\n\t\"github.com/paulmach/osm/internal/mputil\"\n)\n\ntype context struct {\n\tnoID                   bool\n\tnoMeta                 bool\n\tnoRelationMembership   bool\n\tincludeInvalidPolygons bool\n\n\tosm       *osm.OSM\n\tskippable map[osm.WayID]struct{}\n\n\trelationMember map[osm.FeatureID][]*relationSummary\n\twayMember      []osm.NodeID // sorted\n\tnodeMap        map[osm.NodeID]*osm.Node\n\twayMap         map[osm.WayID]*osm.Way\n}\n\ntype relationSummary struct {\n\tID   osm.RelationID    `json:\"id\"`\n\tRole string            `json:\"role\"`\n\tTags map[string]string `json:\"tags\"`\n}\n\n// Convert takes a set of osm elements and converts them\n// to a geojson feature collection.\nfunc Convert(o *osm.OSM, opts ...Option) (*geojson.FeatureCollection, error) {\n\tctx := &context{\n\t\tosm:       o,\n\t\tskippable: make(map[osm.WayID]struct{}),\n\t}\n\n\tfor _, opt := range opts {\n\t\tif err := opt(ctx); err != nil {\n\t\t\treturn nil, err\n\t\t}\n\t}\n\n\tctx.wayMap = make(map[osm.WayID]*osm.Way, len(o.Ways))\n\tfor _, w := range ctx.osm.Ways {\n\t\tctx.wayMap[w.ID] = w\n\t}\n\n\tctx.wayMember = make([]osm.NodeID, 0, len(ctx.osm.Nodes))\n\tfor _, w := range ctx.osm.Ways {\n\t\tfor _, wn := range w.Nodes {\n\t\t\tctx.wayMember = append(ctx.wayMember, wn.ID)\n\t\t\tbreak\n\t\t}\n\t}\n\tsort.Slice(ctx.wayMember, func(i, j int) bool { return ctx.wayMember[i] < ctx.wayMember[j] })\n\n\t// figure out relation membership map\n\tctx.relationMember = make(map[osm.FeatureID][]*relationSummary)\n\tfor _, relation := range ctx.osm.Relations {\n\t\tvar tags map[string]string\n\t\tfor _, m := range relation.Members {\n\t\t\tif ctx.noRelationMembership && m.Type != osm.TypeNode {\n\t\t\t\t// If we don't need to do relation membership we only\n\t\t\t\t// need this for nodes to check if they're interesting.\n\t\t\t\tcontinue\n\t\t\t}\n\n\t\t\tif m.Type == osm.TypeWay {\n\t\t\t\t// We only need to store the way membership for ways that are\n\t\t\t\t// present. eg. relations could have thousands of members but only\n\t\t\t\t// a few in set of osm.\n\t\t\t\tif _, ok := ctx.wayMap[osm.WayID(m.Ref)]; !ok {\n\t\t\t\t\tcontinue\n\t\t\t\t}\n\t\t\t}\n\n\t\t\tif tags == nil {\n\t\t\t\ttags = relation.Tags.Map()\n\t\t\t}\n\n\t\t\tfid := m.FeatureID()\n\t\t\tctx.relationMember[fid] = append(ctx.relationMember[fid], &relationSummary{\n\t\t\t\tID:   relation.ID,\n\t\t\t\tRole: m.Role,\n\t\t\t\tTags: tags,\n\t\t\t})\n\t\t}\n\t}\n\n\tfeatures := make([]*geojson.Feature, 0, len(ctx.osm.Relations)+len(ctx.osm.Ways))\n\n\t// relations\n\tfor _, relation := range ctx.osm.Relations {\n\t\ttt := relation.Tags.Find(\"type\")\n\t\tif tt == \"route\" {\n\t\t\tfeature := ctx.buildRouteLineString(relation)\n\t\t\tif feature != nil {\n\t\t\t\tfeatures = append(features, feature)\n\t\t\t}\n\t\t} else if tt == \"multipolygon\" || tt == \"boundary\" {\n\t\t\tfeature := ctx.buildPolygon(relation)\n\t\t\tif feature != nil {\n\t\t\t\tfeatures = append(features, feature)\n\t\t\t}\n\t\t}\n\n\t\t// NOTE: we skip/ignore relation that aren't multipolygons, boundaries or routes\n\t}\n\n\tfor _, way := range ctx.osm.Ways {\n\t\t// should skip only skippable relation members\n\t\tif _, skip := ctx.skippable[way.ID]; skip {\n\t\t\tcontinue\n\t\t}\n\n\t\tfeature := ctx.wayToFeature(way)\n\t\tif feature != nil {\n\t\t\tfeatures = append(features, feature)\n\t\t}\n\t}\n\n\tfor _, node := range ctx.osm.Nodes {\n\t\t// should NOT skip if any are true:\n\t\t//   not a member of a way.\n\t\t//   a member of a relation member\n\t\t//   has any interesting tags\n\t\t// should skip if all are true:\n\t\t//   a member of a way.\n\t\t//   not a member of a relation member\n\t\t//   does not have any interesting tags\n\t\tat := sort.Search(len(ctx.wayMember), func(i int) bool { return ctx.wayMember[i] >= node.ID })\n\t\tif ok := at < len(ctx.wayMember) && ctx.wayMember[at] == node.ID; ok &&\n\t\t\tlen(ctx.relationMember[node.FeatureID()]) == 0 &&\n\t\t\t!hasInterestingTags(node.Tags, nil) {\n"},
	// fill in the line builder, but the route builder can make a way skippable without resolving its line: the way pass skips it and its nodes are never recorded
	{Name: "r-g8-skippable-way-not-resolved", File: "osmgeojson/convert.go", Nth: 0, ExpectRule: "G8", ExpectConstruct: "coverage@Convert",
		Find: `	ctx.wayMember = make(map[osm.NodeID]struct{}, len(ctx.osm.Nodes))
	for _, w := range ctx.osm.Ways {
		for i := range w.Nodes {
			ctx.wayMember[w.Nodes[i].ID] = struct{}{}
		}
	}

	// figure out relation membership map
	ctx.relationMember = make(map[osm.FeatureID][]*relationSummary)
	for _, relation := range ctx.osm.Relations {
		var tags map[string]string
		for _, m := range relation.Members {
			if ctx.noRelationMembership && m.Type != osm.TypeNode {
				// If we don't need to do relation membership we only
				// need this for nodes to check if they're interesting.
				continue
			}

			if m.Type == osm.TypeWay {
				// We only need to store the way membership for ways that are
				// present. eg. relations could have thousands of members but only
				// a few in set of osm.
				if _, ok := ctx.wayMap[osm.WayID(m.Ref)]; !ok {
					continue
				}
			}

			if tags == nil {
				tags = relation.Tags.Map()
			}

			fid := m.FeatureID()
			ctx.relationMember[fid] = append(ctx.relationMember[fid], &relationSummary{
				ID:   relation.ID,
				Role: m.Role,
				Tags: tags,
			})
		}
	}

	features := make([]*geojson.Feature, 0, len(ctx.osm.Relations)+len(ctx.osm.Ways))

	// relations
	for _, relation := range ctx.osm.Relations {
		tt := relation.Tags.Find("type")
		if tt == "route" {
			feature := ctx.buildRouteLineString(relation)
			if feature != nil {
				features = append(features, feature)
			}
		} else if tt == "multipolygon" || tt == "boundary" {
			feature := ctx.buildPolygon(relation)
			if feature != nil {
				features = append(features, feature)
			}
		}

		// NOTE: we skip/ignore relation that aren't multipolygons, boundaries or routes
	}

	for _, way := range ctx.osm.Ways {
		// should skip only skippable relation members
		if _, skip := ctx.skippable[way.ID]; skip {
			continue
		}

		feature := ctx.wayToFeature(way)
		if feature != nil {
			features = append(features, feature)
		}
	}

	for _, node := range ctx.osm.Nodes {
		// should NOT skip if any are true:
		//   not a member of a way.
		//   a member of a relation member
		//   has any interesting tags
		// should skip if all are true:
		//   a member of a way.
		//   not a member of a relation member
		//   does not have any interesting tags
		if _, ok := ctx.wayMember[node.ID]; ok &&
			len(ctx.relationMember[node.FeatureID()]) == 0 &&
			!hasInterestingTags(node.Tags, nil) {
			continue
		}

		feature := ctx.nodeToFeature(node)
		if feature != nil {
			features = append(features, feature)
		}
	}

	fc := geojson.NewFeatureCollection()
	fc.Features = features

	return fc, nil
}

// getNode will find the node in the set.
// This allows to lazily create the node map only if
// the nodes+ways aren't augmented (ie. include the lat/lon on them).
func (ctx *context) getNode(id osm.NodeID) *osm.Node {
	if ctx.nodeMap == nil {
		ctx.nodeMap = make(map[osm.NodeID]*osm.Node, len(ctx.osm.Nodes))
		for _, n := range ctx.osm.Nodes {
			ctx.nodeMap[n.ID] = n
		}
	}

	return ctx.nodeMap[id]
}

func (ctx *context) nodeToFeature(n *osm.Node) *geojson.Feature {
	// our definition of empty, ill defined
	if n.Lon == 0 && n.Lat == 0 && n.Version == 0 {
		return nil
	}

	f := geojson.NewFeature(orb.Point{n.Lon, n.Lat})

	if !ctx.noID {
		f.ID = fmt.Sprintf("node/%d", n.ID)
	}
	f.Properties["id"] = int(n.ID)
	f.Properties["type"] = "node"
	f.Properties["tags"] = n.Tags.Map()

	ctx.addMetaProperties(f.Properties, n)

	return f
}

func (ctx *context) wayToLineString(w *osm.Way) (orb.LineString, bool) {
	ls := make(orb.LineString, 0, len(w.Nodes))
	tainted := false
	for _, wn := range w.Nodes {
		if wn.Lon != 0 || wn.Lat != 0 {
			ls = append(ls, orb.Point{wn.Lon, wn.Lat})
		} else if n := ctx.getNode(wn.ID); n != nil {
			ls = append(ls, orb.Point{n.Lon, n.Lat})
		} else {
			tainted = true
		}
	}

	return ls, tainted
}

func (ctx *context) wayToFeature(w *osm.Way) *geojson.Feature {
	ls, tainted := ctx.wayToLineString(w)
	if len(ls) <= 1 {
		// one node ways are ignored.
		return nil
	}

	var f *geojson.Feature
	if w.Polygon() {
		p := orb.Polygon{toRing(ls)}
		reorient(p)
		f = geojson.NewFeature(p)
	} else {
		f = geojson.NewFeature(ls)
	}

	if !ctx.noID {
		f.ID = fmt.Sprintf("way/%d", w.ID)
	}
	f.Properties["id"] = int(w.ID)
	f.Properties["type"] = "way"
	f.Properties["tags"] = w.Tags.Map()

	if tainted {
		f.Properties["tainted"] = true
	}

	ctx.addMetaProperties(f.Properties, w)

	return f
}

func (ctx *context) buildRouteLineString(relation *osm.Relation) *geojson.Feature {
	lines := make([]mputil.Segment, 0, 10)
	tainted := false
	for _, m := range relation.Members {
		if m.Type != osm.TypeWay {
			continue
		}

		way := ctx.wayMap[osm.WayID(m.Ref)]
		if way == nil {
			tainted = true
			continue
		}

		if !hasInterestingTags(way.Tags, nil) {
			ctx.skippable[way.ID] = struct{}{}
		}

		ls, t := ctx.wayToLineString(way)
`,
		Replace: `	ctx.wayMember = make(map[osm.NodeID]struct{}, len(ctx.osm.Nodes))

	// figure out relation membership map
	ctx.relationMember = make(map[osm.FeatureID][]*relationSummary)
	for _, relation := range ctx.osm.Relations {
		var tags map[string]string
		for _, m := range relation.Members {
			if ctx.noRelationMembership && m.Type != osm.TypeNode {
				// If we don't need to do relation membership we only
				// need this for nodes to check if they're interesting.
				continue
			}

			if m.Type == osm.TypeWay {
				// We only need to store the way membership for ways that are
				// present. eg. relations could have thousands of members but only
				// a few in set of osm.
				if _, ok := ctx.wayMap[osm.WayID(m.Ref)]; !ok {
					continue
				}
			}

			if tags == nil {
				tags = relation.Tags.Map()
			}

			fid := m.FeatureID()
			ctx.relationMember[fid] = append(ctx.relationMember[fid], &relationSummary{
				ID:   relation.ID,
				Role: m.Role,
				Tags: tags,
			})
		}
	}

	features := make([]*geojson.Feature, 0, len(ctx.osm.Relations)+len(ctx.osm.Ways))

	// relations
	for _, relation := range ctx.osm.Relations {
		tt := relation.Tags.Find("type")
		if tt == "route" {
			feature := ctx.buildRouteLineString(relation)
			if feature != nil {
				features = append(features, feature)
			}
		} else if tt == "multipolygon" || tt == "boundary" {
			feature := ctx.buildPolygon(relation)
			if feature != nil {
				features = append(features, feature)
			}
		}

		// NOTE: we skip/ignore relation that aren't multipolygons, boundaries or routes
	}

	for _, way := range ctx.osm.Ways {
		// should skip only skippable relation members
		if _, skip := ctx.skippable[way.ID]; skip {
			continue
		}

		feature := ctx.wayToFeature(way)
		if feature != nil {
			features = append(features, feature)
		}
	}

	for _, node := range ctx.osm.Nodes {
		// should NOT skip if any are true:
		//   not a member of a way.
		//   a member of a relation member
		//   has any interesting tags
		// should skip if all are true:
		//   a member of a way.
		//   not a member of a relation member
		//   does not have any interesting tags
		if _, ok := ctx.wayMember[node.ID]; ok &&
			len(ctx.relationMember[node.FeatureID()]) == 0 &&
			!hasInterestingTags(node.Tags, nil) {
			continue
		}

		feature := ctx.nodeToFeature(node)
		if feature != nil {
			features = append(features, feature)
		}
	}

	fc := geojson.NewFeatureCollection()
	fc.Features = features

	return fc, nil
}

// getNode will find the node in the set.
// This allows to lazily create the node map only if
// the nodes+ways aren't augmented (ie. include the lat/lon on them).
func (ctx *context) getNode(id osm.NodeID) *osm.Node {
	if ctx.nodeMap == nil {
		ctx.nodeMap = make(map[osm.NodeID]*osm.Node, len(ctx.osm.Nodes))
		for _, n := range ctx.osm.Nodes {
			ctx.nodeMap[n.ID] = n
		}
	}

	return ctx.nodeMap[id]
}

func (ctx *context) nodeToFeature(n *osm.Node) *geojson.Feature {
	// our definition of empty, ill defined
	if n.Lon == 0 && n.Lat == 0 && n.Version == 0 {
		return nil
	}

	f := geojson.NewFeature(orb.Point{n.Lon, n.Lat})

	if !ctx.noID {
		f.ID = fmt.Sprintf("node/%d", n.ID)
	}
	f.Properties["id"] = int(n.ID)
	f.Properties["type"] = "node"
	f.Properties["tags"] = n.Tags.Map()

	ctx.addMetaProperties(f.Properties, n)

	return f
}

func (ctx *context) wayToLineString(w *osm.Way) (orb.LineString, bool) {
	ls := make(orb.LineString, 0, len(w.Nodes))
	tainted := false
	for _, wn := range w.Nodes {
		// every node of a way, located or not, is part of it.
		ctx.wayMember[wn.ID] = struct{}{}
		if wn.Lon != 0 || wn.Lat != 0 {
			ls = append(ls, orb.Point{wn.Lon, wn.Lat})
		} else if n := ctx.getNode(wn.ID); n != nil {
			ls = append(ls, orb.Point{n.Lon, n.Lat})
		} else {
			tainted = true
		}
	}

	return ls, tainted
}

func (ctx *context) wayToFeature(w *osm.Way) *geojson.Feature {
	ls, tainted := ctx.wayToLineString(w)
	if len(ls) <= 1 {
		// one node ways are ignored.
		return nil
	}

	var f *geojson.Feature
	if w.Polygon() {
		p := orb.Polygon{toRing(ls)}
		reorient(p)
		f = geojson.NewFeature(p)
	} else {
		f = geojson.NewFeature(ls)
	}

	if !ctx.noID {
		f.ID = fmt.Sprintf("way/%d", w.ID)
	}
	f.Properties["id"] = int(w.ID)
	f.Properties["type"] = "way"
	f.Properties["tags"] = w.Tags.Map()

	if tainted {
		f.Properties["tainted"] = true
	}

	ctx.addMetaProperties(f.Properties, w)

	return f
}

func (ctx *context) buildRouteLineString(relation *osm.Relation) *geojson.Feature {
	lines := make([]mputil.Segment, 0, 10)
	tainted := false
	for _, m := range relation.Members {
		if m.Type != osm.TypeWay {
			continue
		}

		way := ctx.wayMap[osm.WayID(m.Ref)]
		if way == nil {
			tainted = true
			continue
		}

		if !hasInterestingTags(way.Tags, nil) {
			ctx.skippable[way.ID] = struct{}{}
		}

		if len(way.Nodes) > 2000 {
			// too long to be part of the route line
			continue
		}

		ls, t := ctx.wayToLineString(way)
`},
	// the closure appends the feature twice
	{Name: "r-g5-emit-closure-appends-twice", File: "osmgeojson/convert.go", Nth: 0, ExpectRule: "G5", ExpectConstruct: "loop@Convert",
		Find: `	features := make([]*geojson.Feature, 0, len(ctx.osm.Relations)+len(ctx.osm.Ways))

	// relations
	for _, relation := range ctx.osm.Relations {
		tt := relation.Tags.Find("type")
		if tt == "route" {
			feature := ctx.buildRouteLineString(relation)
			if feature != nil {
				features = append(features, feature)
			}
		} else if tt == "multipolygon" || tt == "boundary" {
			feature := ctx.buildPolygon(relation)
			if feature != nil {
				features = append(features, feature)
			}
		}

		// NOTE: we skip/ignore relation that aren't multipolygons, boundaries or routes
	}

	for _, way := range ctx.osm.Ways {
		// should skip only skippable relation members
		if _, skip := ctx.skippable[way.ID]; skip {
			continue
		}

		feature := ctx.wayToFeature(way)
		if feature != nil {
			features = append(features, feature)
		}
	}

	for _, node := range ctx.osm.Nodes {
		// should NOT skip if any are true:
		//   not a member of a way.
		//   a member of a relation member
		//   has any interesting tags
		// should skip if all are true:
		//   a member of a way.
		//   not a member of a relation member
		//   does not have any interesting tags
		if _, ok := ctx.wayMember[node.ID]; ok &&
			len(ctx.relationMember[node.FeatureID()]) == 0 &&
			!hasInterestingTags(node.Tags, nil) {
			continue
		}

		feature := ctx.nodeToFeature(node)
		if feature != nil {
			features = append(features, feature)
		}
`,
		Replace: `	features := make([]*geojson.Feature, 0, len(ctx.osm.Relations)+len(ctx.osm.Ways))
	emit := func(f *geojson.Feature) {
		if f != nil {
			features = append(features, f, f)
		}
	}

	// relations
	for _, relation := range ctx.osm.Relations {
		tt := relation.Tags.Find("type")
		if tt == "route" {
			emit(ctx.buildRouteLineString(relation))
		} else if tt == "multipolygon" || tt == "boundary" {
			emit(ctx.buildPolygon(relation))
		}

		// NOTE: we skip/ignore relation that aren't multipolygons, boundaries or routes
	}

	for _, way := range ctx.osm.Ways {
		// should skip only skippable relation members
		if _, skip := ctx.skippable[way.ID]; skip {
			continue
		}

		emit(ctx.wayToFeature(way))
	}

	for _, node := range ctx.osm.Nodes {
		// should NOT skip if any are true:
		//   not a member of a way.
		//   a member of a relation member
		//   has any interesting tags
		// should skip if all are true:
		//   a member of a way.
		//   not a member of a relation member
		//   does not have any interesting tags
		if _, ok := ctx.wayMember[node.ID]; ok &&
			len(ctx.relationMember[node.FeatureID()]) == 0 &&
			!hasInterestingTags(node.Tags, nil) {
			continue
		}

		emit(ctx.nodeToFeature(node))
`},
	// the closure is called before the skippable test
	{Name: "r-g5-emit-closure-way-called-before-skip-test", File: "osmgeojson/convert.go", Nth: 0, ExpectRule: "G5", ExpectConstruct: "skippable@Convert ways",
		Find: `	features := make([]*geojson.Feature, 0, len(ctx.osm.Relations)+len(ctx.osm.Ways))

	// relations
	for _, relation := range ctx.osm.Relations {
		tt := relation.Tags.Find("type")
		if tt == "route" {
			feature := ctx.buildRouteLineString(relation)
			if feature != nil {
				features = append(features, feature)
			}
		} else if tt == "multipolygon" || tt == "boundary" {
			feature := ctx.buildPolygon(relation)
			if feature != nil {
				features = append(features, feature)
			}
		}

		// NOTE: we skip/ignore relation that aren't multipolygons, boundaries or routes
	}

	for _, way := range ctx.osm.Ways {
		// should skip only skippable relation members
		if _, skip := ctx.skippable[way.ID]; skip {
			continue
		}

		feature := ctx.wayToFeature(way)
		if feature != nil {
			features = append(features, feature)
		}
	}

	for _, node := range ctx.osm.Nodes {
		// should NOT skip if any are true:
		//   not a member of a way.
		//   a member of a relation member
		//   has any interesting tags
		// should skip if all are true:
		//   a member of a way.
		//   not a member of a relation member
		//   does not have any interesting tags
		if _, ok := ctx.wayMember[node.ID]; ok &&
			len(ctx.relationMember[node.FeatureID()]) == 0 &&
			!hasInterestingTags(node.Tags, nil) {
			continue
		}

		feature := ctx.nodeToFeature(node)
		if feature != nil {
			features = append(features, feature)
		}
`,
		Replace: `	features := make([]*geojson.Feature, 0, len(ctx.osm.Relations)+len(ctx.osm.Ways))
	emit := func(f *geojson.Feature) {
		if f != nil {
			features = append(features, f)
		}
	}

	// relations
	for _, relation := range ctx.osm.Relations {
		tt := relation.Tags.Find("type")
		if tt == "route" {
			emit(ctx.buildRouteLineString(relation))
		} else if tt == "multipolygon" || tt == "boundary" {
			emit(ctx.buildPolygon(relation))
		}

		// NOTE: we skip/ignore relation that aren't multipolygons, boundaries or routes
	}

	for _, way := range ctx.osm.Ways {
		// should skip only skippable relation members
		emit(ctx.wayToFeature(way))
		if _, skip := ctx.skippable[way.ID]; skip {
			continue
		}

	}

	for _, node := range ctx.osm.Nodes {
		// should NOT skip if any are true:
		//   not a member of a way.
		//   a member of a relation member
		//   has any interesting tags
		// should skip if all are true:
		//   a member of a way.
		//   not a member of a relation member
		//   does not have any interesting tags
		if _, ok := ctx.wayMember[node.ID]; ok &&
			len(ctx.relationMember[node.FeatureID()]) == 0 &&
			!hasInterestingTags(node.Tags, nil) {
			continue
		}

		emit(ctx.nodeToFeature(node))
`},
	// the closure appends whatever the builder returned, nil included
	{Name: "r-g5-emit-closure-without-nil-check", File: "osmgeojson/convert.go", Nth: 0, ExpectRule: "G5", ExpectConstruct: "nonnil@",
		Find: `	features := make([]*geojson.Feature, 0, len(ctx.osm.Relations)+len(ctx.osm.Ways))

	// relations
	for _, relation := range ctx.osm.Relations {
		tt := relation.Tags.Find("type")
		if tt == "route" {
			feature := ctx.buildRouteLineString(relation)
			if feature != nil {
				features = append(features, feature)
			}
		} else if tt == "multipolygon" || tt == "boundary" {
			feature := ctx.buildPolygon(relation)
			if feature != nil {
				features = append(features, feature)
			}
		}

		// NOTE: we skip/ignore relation that aren't multipolygons, boundaries or routes
	}

	for _, way := range ctx.osm.Ways {
		// should skip only skippable relation members
		if _, skip := ctx.skippable[way.ID]; skip {
			continue
		}

		feature := ctx.wayToFeature(way)
		if feature != nil {
			features = append(features, feature)
		}
	}

	for _, node := range ctx.osm.Nodes {
		// should NOT skip if any are true:
		//   not a member of a way.
		//   a member of a relation member
		//   has any interesting tags
		// should skip if all are true:
		//   a member of a way.
		//   not a member of a relation member
		//   does not have any interesting tags
		if _, ok := ctx.wayMember[node.ID]; ok &&
			len(ctx.relationMember[node.FeatureID()]) == 0 &&
			!hasInterestingTags(node.Tags, nil) {
			continue
		}

		feature := ctx.nodeToFeature(node)
		if feature != nil {
			features = append(features, feature)
		}
`,
		Replace: `	features := make([]*geojson.Feature, 0, len(ctx.osm.Relations)+len(ctx.osm.Ways))
	emit := func(f *geojson.Feature) {
		features = append(features, f)
	}

	// relations
	for _, relation := range ctx.osm.Relations {
		tt := relation.Tags.Find("type")
		if tt == "route" {
			emit(ctx.buildRouteLineString(relation))
		} else if tt == "multipolygon" || tt == "boundary" {
			emit(ctx.buildPolygon(relation))
		}

		// NOTE: we skip/ignore relation that aren't multipolygons, boundaries or routes
	}

	for _, way := range ctx.osm.Ways {
		// should skip only skippable relation members
		if _, skip := ctx.skippable[way.ID]; skip {
			continue
		}

		emit(ctx.wayToFeature(way))
	}

	for _, node := range ctx.osm.Nodes {
		// should NOT skip if any are true:
		//   not a member of a way.
		//   a member of a relation member
		//   has any interesting tags
		// should skip if all are true:
		//   a member of a way.
		//   not a member of a relation member
		//   does not have any interesting tags
		if _, ok := ctx.wayMember[node.ID]; ok &&
			len(ctx.relationMember[node.FeatureID()]) == 0 &&
			!hasInterestingTags(node.Tags, nil) {
			continue
		}

		emit(ctx.nodeToFeature(node))
`},
	// nodes without location add a nil entry to the collection
	{Name: "g5-node-append-without-nil-check", File: "osmgeojson/convert.go", Nth: 0, ExpectRule: "G5", ExpectConstruct: "nonnil@Convert",
		Find: `		feature := ctx.nodeToFeature(node)
		if feature != nil {
			features = append(features, feature)
		}
`,
		Replace: `		feature := ctx.nodeToFeature(node)
		features = append(features, feature)
`},
	// the way pass (emitting through the closure) runs before the relation pass that fills the skippable set
	{Name: "r-g5-emit-closure-ways-before-relations", File: "osmgeojson/convert.go", Nth: 0, ExpectRule: "G5", ExpectConstruct: "order@Convert",
		Find: `	features := make([]*geojson.Feature, 0, len(ctx.osm.Relations)+len(ctx.osm.Ways))

	// relations
	for _, relation := range ctx.osm.Relations {
		tt := relation.Tags.Find("type")
		if tt == "route" {
			feature := ctx.buildRouteLineString(relation)
			if feature != nil {
				features = append(features, feature)
			}
		} else if tt == "multipolygon" || tt == "boundary" {
			feature := ctx.buildPolygon(relation)
			if feature != nil {
				features = append(features, feature)
			}
		}

		// NOTE: we skip/ignore relation that aren't multipolygons, boundaries or routes
	}

	for _, way := range ctx.osm.Ways {
		// should skip only skippable relation members
		if _, skip := ctx.skippable[way.ID]; skip {
			continue
		}

		feature := ctx.wayToFeature(way)
		if feature != nil {
			features = append(features, feature)
		}
	}

	for _, node := range ctx.osm.Nodes {
		// should NOT skip if any are true:
		//   not a member of a way.
		//   a member of a relation member
		//   has any interesting tags
		// should skip if all are true:
		//   a member of a way.
		//   not a member of a relation member
		//   does not have any interesting tags
		if _, ok := ctx.wayMember[node.ID]; ok &&
			len(ctx.relationMember[node.FeatureID()]) == 0 &&
			!hasInterestingTags(node.Tags, nil) {
			continue
		}

		feature := ctx.nodeToFeature(node)
		if feature != nil {
			features = append(features, feature)
		}
`,
		Replace: `	features := make([]*geojson.Feature, 0, len(ctx.osm.Relations)+len(ctx.osm.Ways))
	emit := func(f *geojson.Feature) {
		if f != nil {
			features = append(features, f)
		}
	}

	for _, way := range ctx.osm.Ways {
		// should skip only skippable relation members
		if _, skip := ctx.skippable[way.ID]; skip {
			continue
		}

		emit(ctx.wayToFeature(way))
	}

	// relations
	for _, relation := range ctx.osm.Relations {
		tt := relation.Tags.Find("type")
		if tt == "route" {
			emit(ctx.buildRouteLineString(relation))
		} else if tt == "multipolygon" || tt == "boundary" {
			emit(ctx.buildPolygon(relation))
		}

		// NOTE: we skip/ignore relation that aren't multipolygons, boundaries or routes
	}

	for _, node := range ctx.osm.Nodes {
		// should NOT skip if any are true:
		//   not a member of a way.
		//   a member of a relation member
		//   has any interesting tags
		// should skip if all are true:
		//   a member of a way.
		//   not a member of a relation member
		//   does not have any interesting tags
		if _, ok := ctx.wayMember[node.ID]; ok &&
			len(ctx.relationMember[node.FeatureID()]) == 0 &&
			!hasInterestingTags(node.Tags, nil) {
			continue
		}

		emit(ctx.nodeToFeature(node))
`},
	// the skip condition no longer asks whether the node is a relation member
	{Name: "g9-node-rule-ignores-relation-membership", File: "osmgeojson/convert.go", Nth: 0, ExpectRule: "G9", ExpectConstruct: "noderule@Convert",
		Find: `			len(ctx.relationMember[node.FeatureID()]) == 0 &&
`,
		Replace: ``},
	// nodes with interesting tags are skipped instead of the uninteresting ones
	{Name: "g9-node-rule-interesting-inverted", File: "osmgeojson/convert.go", Nth: 0, ExpectRule: "G9", ExpectConstruct: "noderule@Convert",
		Find:    `			!hasInterestingTags(node.Tags, nil) {`,
		Replace: `			hasInterestingTags(node.Tags, nil) {`},
	// one disjunct dropped from the helper: uninteresting way nodes that are relation members get no point
	{Name: "r-g9-wants-node-feature-drops-membership", File: "osmgeojson/convert.go", Nth: 0, ExpectRule: "G9", ExpectConstruct: "noderule@Convert",
		Find: `	for _, node := range ctx.osm.Nodes {
		// should NOT skip if any are true:
		//   not a member of a way.
		//   a member of a relation member
		//   has any interesting tags
		// should skip if all are true:
		//   a member of a way.
		//   not a member of a relation member
		//   does not have any interesting tags
		if _, ok := ctx.wayMember[node.ID]; ok &&
			len(ctx.relationMember[node.FeatureID()]) == 0 &&
			!hasInterestingTags(node.Tags, nil) {
			continue
		}

		feature := ctx.nodeToFeature(node)
		if feature != nil {
			features = append(features, feature)
		}
	}

	fc := geojson.NewFeatureCollection()
	fc.Features = features

	return fc, nil
}
`,
		Replace: `	for _, node := range ctx.osm.Nodes {
		if !ctx.wantsNodeFeature(node) {
			continue
		}

		feature := ctx.nodeToFeature(node)
		if feature != nil {
			features = append(features, feature)
		}
	}

	fc := geojson.NewFeatureCollection()
	fc.Features = features

	return fc, nil
}

// wantsNodeFeature: a node gets a point unless it is part of a way, not a
// relation member and without interesting tags.
func (ctx *context) wantsNodeFeature(n *osm.Node) bool {
	if _, inWay := ctx.wayMember[n.ID]; !inWay {
		return true
	}

	return n.Tags.AnyInteresting()
}
`},
	// || turned into &&
	{Name: "r-g9-wants-node-feature-and-instead-of-or", File: "osmgeojson/convert.go", Nth: 0, ExpectRule: "G9", ExpectConstruct: "noderule@Convert",
		Find: `	for _, node := range ctx.osm.Nodes {
		// should NOT skip if any are true:
		//   not a member of a way.
		//   a member of a relation member
		//   has any interesting tags
		// should skip if all are true:
		//   a member of a way.
		//   not a member of a relation member
		//   does not have any interesting tags
		if _, ok := ctx.wayMember[node.ID]; ok &&
			len(ctx.relationMember[node.FeatureID()]) == 0 &&
			!hasInterestingTags(node.Tags, nil) {
			continue
		}

		feature := ctx.nodeToFeature(node)
		if feature != nil {
			features = append(features, feature)
		}
	}

	fc := geojson.NewFeatureCollection()
	fc.Features = features

	return fc, nil
}
`,
		Replace: `	for _, node := range ctx.osm.Nodes {
		if !ctx.wantsNodeFeature(node) {
			continue
		}

		feature := ctx.nodeToFeature(node)
		if feature != nil {
			features = append(features, feature)
		}
	}

	fc := geojson.NewFeatureCollection()
	fc.Features = features

	return fc, nil
}

// wantsNodeFeature: a node gets a point unless it is part of a way, not a
// relation member and without interesting tags.
func (ctx *context) wantsNodeFeature(n *osm.Node) bool {
	if _, inWay := ctx.wayMember[n.ID]; !inWay {
		return true
	}

	return len(ctx.relationMember[n.FeatureID()]) > 0 && n.Tags.AnyInteresting()
}
`},
	// the fused index loop skips ways without tags
	{Name: "r-g8-fused-index-skips-untagged-ways", File: "osmgeojson/convert.go", Nth: 0, ExpectRule: "G8", ExpectConstruct: "coverage@Convert",
		Find: `// Convert takes a set of osm elements and converts them
// to a geojson feature collection.
func Convert(o *osm.OSM, opts ...Option) (*geojson.FeatureCollection, error) {
	ctx := &context{
		osm:       o,
		skippable: make(map[osm.WayID]struct{}),
	}

	for _, opt := range opts {
		if err := opt(ctx); err != nil {
			return nil, err
		}
	}

	ctx.wayMap = make(map[osm.WayID]*osm.Way, len(o.Ways))
	for _, w := range ctx.osm.Ways {
		ctx.wayMap[w.ID] = w
	}

	ctx.wayMember = make(map[osm.NodeID]struct{}, len(ctx.osm.Nodes))
	for _, w := range ctx.osm.Ways {
		for i := range w.Nodes {
			ctx.wayMember[w.Nodes[i].ID] = struct{}{}
		}
	}
`,
		Replace: `// indexWays builds the id to way lookup and the set of nodes that are part of a way.
func (ctx *context) indexWays() {
	ctx.wayMap = make(map[osm.WayID]*osm.Way, len(ctx.osm.Ways))
	ctx.wayMember = make(map[osm.NodeID]struct{}, len(ctx.osm.Nodes))
	for _, w := range ctx.osm.Ways {
		if len(w.Tags) == 0 {
			continue
		}
		ctx.wayMap[w.ID] = w
		for i := range w.Nodes {
			ctx.wayMember[w.Nodes[i].ID] = struct{}{}
		}
	}
}

// Convert takes a set of osm elements and converts them
// to a geojson feature collection.
func Convert(o *osm.OSM, opts ...Option) (*geojson.FeatureCollection, error) {
	ctx := &context{
		osm:       o,
		skippable: make(map[osm.WayID]struct{}),
	}

	for _, opt := range opts {
		if err := opt(ctx); err != nil {
			return nil, err
		}
	}

	ctx.indexWays()
`},
}
