package rules

import "osmcheck/core"

const (
	c16JoinGo   = "internal/mputil/join.go"
	c16MputilGo = "internal/mputil/mputil.go"
	c16BuildGo  = "osmgeojson/build_polygon.go"
	c16ConvGo   = "osmgeojson/convert.go"
	c16GeoGo    = "annotate/geo.go"
)

// c16Mutants: real defects, one overlay edit each; every rule is exercised. The mutants of refactored shapes are in
// c16_mutants2.go.
var c16Mutants = []core.Mutant{
	// ---- Join: the four ways of attaching
	{Name: "join-append-keeps-joint", File: c16JoinGo, Find: "\t\t\t\t\tsegment.Line = segment.Line[1:]\n", Replace: "", Nth: 1, ExpectRule: "J2", ExpectConstruct: "attach[group-end=last,way-end=first]"},
	{Name: "join-append-not-turned", File: c16JoinGo, Find: "\t\t\t\t\tsegment.Reverse()\n", Replace: "", Nth: 1, ExpectRule: "J2", ExpectConstruct: "attach[group-end=last,way-end=last]"},
	{Name: "join-prepend-trims-front", File: c16JoinGo, Find: "segment.Line = segment.Line[:len(segment.Line)-1]", Replace: "segment.Line = segment.Line[1:]", Nth: 1, ExpectRule: "J2", ExpectConstruct: "attach[group-end=first,way-end=last]"},
	{Name: "join-prepend-appended", File: c16JoinGo, Find: "current = append(MultiSegment{segment}, current...)", Replace: "current = append(current, segment)", Nth: 2, ExpectRule: "J2", ExpectConstruct: "attach[group-end=first,way-end=first]"},
	{Name: "join-arm-compares-wrong-end", File: c16JoinGo, Find: "} else if first.Equal(segment.Last()) {", Replace: "} else if last.Equal(segment.First()) {", ExpectRule: "J2", ExpectConstruct: "attach[group-end=first,way-end=last]"},
	{Name: "join-turned-without-flag", File: c16JoinGo, Find: "\t\t\t\t\tsegment.Reverse()\n", Replace: "\t\t\t\t\tsegment.Line.Reverse()\n", Nth: 2, ExpectRule: "J2", ExpectConstruct: "attach[group-end=first,way-end=first]"},
	// ---- Join: conservation
	{Name: "join-shift-up-off-by-one", File: c16JoinGo, Find: "for i := foundAt; i > 0; i-- {", Replace: "for i := foundAt - 1; i > 0; i-- {", ExpectRule: "J1", ExpectConstruct: "removal@Join"},
	{Name: "join-shift-down-drops-head", File: c16JoinGo, Find: "\t\t\t\tsegments = segments[:len(segments)-1]\n\t\t\t}\n\t\t}", Replace: "\t\t\t\tsegments = segments[1:]\n\t\t\t}\n\t\t}", ExpectRule: "J1", ExpectConstruct: "removal@Join"},
	{Name: "join-dangling-group-lost", File: c16JoinGo, Find: "\t\t\t\tbreak // Invalid geometry", Replace: "\t\t\t\treturn lists // Invalid geometry", ExpectRule: "J1", ExpectConstruct: "dangling@Join"},
	{Name: "join-compact-drops-two-point-ways", File: c16JoinGo, Find: "if len(s.Line) <= 1 {", Replace: "if len(s.Line) <= 2 {", ExpectRule: "J1", ExpectConstruct: "compact@Join"},
	{Name: "join-compact-keeps-dropped-slot", File: c16JoinGo, Find: "\treturn ms[:at]\n", Replace: "\treturn ms\n", ExpectRule: "J1", ExpectConstruct: "compact@Join"},
	// ---- Segment.Reverse
	{Name: "reverse-flag-not-toggled", File: c16MputilGo, Find: "\ts.Reversed = !s.Reversed\n", Replace: "", ExpectRule: "J3", ExpectConstruct: "Reverse[Reversed=false]"},
	{Name: "reverse-flag-set", File: c16MputilGo, Find: "s.Reversed = !s.Reversed", Replace: "s.Reversed = true", ExpectRule: "J3", ExpectConstruct: "Reverse[Reversed=true]"},
	{Name: "reverse-line-kept", File: c16MputilGo, Find: "\ts.Line.Reverse()\n", Replace: "", ExpectRule: "J3", ExpectConstruct: "Reverse["},
	// ---- Ring
	{Name: "ring-decision-inverted", File: c16MputilGo, Find: "if (s.Orientation == o) == s.Reversed {", Replace: "if (s.Orientation == o) != s.Reversed {", ExpectRule: "R1", ExpectConstruct: "Ring[annotated]"},
	{Name: "ring-ignores-reversed-flag", File: c16MputilGo, Find: "if (s.Orientation == o) == s.Reversed {", Replace: "if s.Orientation != o {", ExpectRule: "R1", ExpectConstruct: "Ring[annotated]"},
	{Name: "ring-computed-orientation-inverted", File: c16MputilGo, Find: "(!haveOrient && ring.Orientation() != o)", Replace: "(!haveOrient && ring.Orientation() == o)", ExpectRule: "R1", ExpectConstruct: "Ring[unannotated]"},
	{Name: "ring-annotation-does-not-override", File: c16MputilGo, Find: "if (haveOrient && reversed) || (!haveOrient && ring.Orientation() != o) {", Replace: "if (haveOrient && reversed) || ring.Orientation() != o {", ExpectRule: "R1", ExpectConstruct: "Ring["},
	{Name: "ring-orientation-of-partial-ring", File: c16MputilGo, Find: "\t\tring = append(ring, s.Line...)\n\t}\n\n\tif (haveOrient && reversed) || (!haveOrient && ring.Orientation() != o) {", Replace: "\t\tif len(ring) == 0 {\n\t\t\tring = append(ring, s.Line...)\n\t\t}\n\t}\n\n\tif (haveOrient && reversed) || (!haveOrient && ring.Orientation() != o) {", ExpectRule: "R1", ExpectConstruct: "Ring["},
	// ---- Group
	{Name: "group-index-counts-segments", File: c16MputilGo, Find: "Index:       uint32(i),", Replace: "Index:       uint32(len(outer) + len(inner) + i - i),", ExpectRule: "G1", ExpectConstruct: "Group[index]"},
	{Name: "group-outer-turned-without-flag", File: c16MputilGo, Find: "\t\t\t\tl.Reverse()\n\t\t\t}\n\t\t\touter", Replace: "\t\t\t\tl.Line.Reverse()\n\t\t\t}\n\t\t\touter", ExpectRule: "G1", ExpectConstruct: "Group[role=outer]"},
	{Name: "group-inner-flag-without-turn", File: c16MputilGo, Find: "\t\t\t\tl.Reverse()\n\t\t\t}\n\t\t\tinner", Replace: "\t\t\t\tl.Reversed = true\n\t\t\t}\n\t\t\tinner", ExpectRule: "G1", ExpectConstruct: "Group[role=inner]"},
	{Name: "group-any-role-is-inner", File: c16MputilGo, Find: "} else if m.Role == \"inner\" {", Replace: "} else if m.Role != \"\" {", ExpectRule: "G1", ExpectConstruct: "Group[role=inner]"},
	{Name: "group-missing-way-silent", File: c16MputilGo, Find: "\t\tif w == nil {\n\t\t\ttainted = true\n", Replace: "\t\tif w == nil {\n", ExpectRule: "G1", ExpectConstruct: "Group[missing-way]"},
	// ---- annotate
	{Name: "annotate-ignores-reversed", File: c16GeoGo, Find: "members[segment.Index].Orientation = -1 * factor * o", Replace: "members[segment.Index].Orientation = factor * o", ExpectRule: "A1", ExpectConstruct: "annotate["},
	{Name: "annotate-factor-inverted", File: c16GeoGo, Find: "if ms.Orientation() != o {", Replace: "if ms.Orientation() == o {", ExpectRule: "A1", ExpectConstruct: "annotate["},
	{Name: "annotate-inner-rings-skipped", File: c16GeoGo, Find: "\tfor _, inner := range inners {\n\t\tannotateOrientation(members, inner, orb.CW)\n\t}\n", Replace: "\t_ = inners\n", ExpectRule: "A1", ExpectConstruct: "annotate["},
	{Name: "annotate-writes-by-position-in-ring", File: c16GeoGo, Find: "\tfor _, segment := range ms {\n\t\tif segment.Reversed {\n\t\t\tmembers[segment.Index].Orientation", Replace: "\tfor i, segment := range ms {\n\t\tsegment.Index = uint32(i)\n\t\tif segment.Reversed {\n\t\t\tmembers[segment.Index].Orientation", ExpectRule: "A1", ExpectConstruct: "annotate["},
	// ---- buildPolygon: role <-> orientation
	{Name: "polygon-single-outer-cw", File: c16BuildGo, Find: "outerRing := mputil.MultiSegment(outer).Ring(orb.CCW)", Replace: "outerRing := mputil.MultiSegment(outer).Ring(orb.CW)", ExpectRule: "P1", ExpectConstruct: "Convert[one outer way with holes"},
	{Name: "polygon-joined-outer-cw", File: c16BuildGo, Find: "ring := os.Ring(orb.CCW)", Replace: "ring := os.Ring(orb.CW)", ExpectRule: "P1", ExpectConstruct: "Convert[outer ring cut into ways"},
	{Name: "polygon-single-outer-holes-ccw", File: c16BuildGo, Find: "polygon = append(polygon, is.Ring(orb.CW))", Replace: "polygon = append(polygon, is.Ring(orb.CCW))", ExpectRule: "P1", ExpectConstruct: "Convert[one outer way with holes"},
	{Name: "polygon-joined-holes-ccw", File: c16BuildGo, Find: "ring := is.Ring(orb.CW)", Replace: "ring := is.Ring(orb.CCW)", ExpectRule: "P1", ExpectConstruct: "Convert[outer ring cut into ways"},
	{Name: "polygon-roles-swapped", File: c16BuildGo, Find: "\t\tif m.Role == \"outer\" {\n\t\t\touterWay = way", Replace: "\t\tif m.Role != \"outer\" {\n\t\t\touterWay = way", ExpectRule: "P1", ExpectConstruct: "Convert["},
	{Name: "polygon-inner-turned-without-flag", File: c16BuildGo, Find: "\t\t\tif segment.Orientation == orb.CCW {\n\t\t\t\tsegment.Reverse()", Replace: "\t\t\tif segment.Orientation == orb.CCW {\n\t\t\t\tsegment.Line.Reverse()", ExpectRule: "P1", ExpectConstruct: "members annotated]"},
	{Name: "polygon-annotation-not-copied-but-turned", File: c16BuildGo, Find: "\t\t\tOrientation: m.Orientation,\n\t\t\tLine:        ls,\n\t\t}\n", Replace: "\t\t\tOrientation: m.Orientation,\n\t\t\tLine:        ls,\n\t\t}\n\t\tsegment.Line.Reverse()\n", ExpectRule: "P1", ExpectConstruct: "members annotated]"},
	// ---- hole assignment
	{Name: "holes-added-again-after-match", File: c16BuildGo, Find: "\t\t\tmp[i] = append(mp[i], ring)\n\t\t\treturn mp\n\t\t}\n\t}\n\n\tif !includeInvalidPolygons", Replace: "\t\t\tmp[i] = append(mp[i], ring)\n\t\t}\n\t}\n\n\tif !includeInvalidPolygons", ExpectRule: "H1", ExpectConstruct: "holes[two outer rings, IncludeInvalidPolygons(true)]"},
	{Name: "holes-tested-against-first-outer-only", File: c16BuildGo, Find: "if polygonContains(mp[i][0], ring) {", Replace: "if polygonContains(mp[0][0], ring) {", ExpectRule: "H1", ExpectConstruct: "holes[two outer rings"},
	{Name: "holes-added-to-first-polygon", File: c16BuildGo, Find: "\t\tif polygonContains(mp[i][0], ring) {\n\t\t\tmp[i] = append(mp[i], ring)", Replace: "\t\tif polygonContains(mp[i][0], ring) {\n\t\t\tmp[0] = append(mp[0], ring)", ExpectRule: "H1", ExpectConstruct: "holes[two outer rings"},
	{Name: "holes-orphan-option-inverted", File: c16BuildGo, Find: "\tif !includeInvalidPolygons {\n\t\t// inner without its outer", Replace: "\tif includeInvalidPolygons {\n\t\t// inner without its outer", ExpectRule: "H1", ExpectConstruct: "holes[inner ring outside every outer ring"},
	// ---- coordinate sources
	{Name: "coordinates-zero-lon-is-no-location", File: c16ConvGo, Find: "if wn.Lon != 0 || wn.Lat != 0 {", Replace: "if wn.Lon != 0 && wn.Lat != 0 {", ExpectRule: "W1", ExpectConstruct: "coordinates[lon or lat 0 on a way node]"},
	{Name: "coordinates-node-lat-lon-swapped", File: c16ConvGo, Find: "ls = append(ls, orb.Point{n.Lon, n.Lat})", Replace: "ls = append(ls, orb.Point{n.Lat, n.Lon})", ExpectRule: "W1", ExpectConstruct: "coordinates[from node objects]"},
	{Name: "coordinates-way-node-lat-lon-swapped", File: c16ConvGo, Find: "ls = append(ls, orb.Point{wn.Lon, wn.Lat})", Replace: "ls = append(ls, orb.Point{wn.Lat, wn.Lon})", ExpectRule: "W1", ExpectConstruct: "coordinates[mixed]"},
	{Name: "coordinates-node-objects-only-when-tainted", File: c16ConvGo, Find: "} else if n := ctx.getNode(wn.ID); n != nil {", Replace: "} else if n := ctx.getNode(wn.ID); n != nil && tainted {", ExpectRule: "W1", ExpectConstruct: "coordinates[from node objects]"},
}
