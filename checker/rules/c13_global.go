package rules

import (
	"go/ast"
	"go/constant"
	"go/token"
	"go/types"

	"golang.org/x/tools/go/packages"
)

// Package-level lookup tables of the C13 path evaluator: an unexported package-level variable of the module that is
// initialised at its declaration and afterwards only read (indexed, ranged over, measured) is evaluated from its
// initialiser, so that `switch x {...}` and `table[x]` are the same to the rules.

type c13Global struct {
	pk   *packages.Package
	init ast.Expr // nil: not a read-only table
}

func (x *c13Exec) globalInit(o *types.Var) *c13Global {
	if x.globals == nil {
		x.globals = map[*types.Var]*c13Global{}
	}
	if g, ok := x.globals[o]; ok {
		return g
	}
	g := &c13Global{}
	x.globals[o] = g
	if o.Pkg() == nil || o.Exported() || o.Parent() != o.Pkg().Scope() {
		return g
	}
	pk := x.prog.ByPath[o.Pkg().Path()]
	if pk == nil || !x.prog.InRepo(o.Pos()) {
		return g
	}
	var init ast.Expr
	readOnly := true
	for _, f := range pk.Syntax {
		parents := x.prog.Parents(f)
		ast.Inspect(f, func(n ast.Node) bool {
			switch v := n.(type) {
			case *ast.ValueSpec:
				for i, nm := range v.Names {
					if pk.TypesInfo.Defs[nm] == types.Object(o) && len(v.Values) == len(v.Names) {
						init = v.Values[i]
					}
				}
			case *ast.Ident:
				if pk.TypesInfo.Uses[v] != types.Object(o) {
					return true
				}
				// climb through index/selector/paren chains to the use
				var cur ast.Node = v
				p := parents[cur]
				for {
					switch pp := p.(type) {
					case *ast.ParenExpr:
						cur, p = pp, parents[pp]
						continue
					case *ast.IndexExpr:
						if pp.X == cur {
							cur, p = pp, parents[pp]
							continue
						}
					case *ast.SelectorExpr:
						if pp.X == cur {
							cur, p = pp, parents[pp]
							continue
						}
					}
					break
				}
				switch pp := p.(type) {
				case *ast.AssignStmt:
					for _, l := range pp.Lhs {
						if l == cur {
							readOnly = false
						}
					}
					if cur == ast.Node(v) {
						readOnly = false // the table itself is copied to another variable
					}
				case *ast.IncDecStmt:
					readOnly = false
				case *ast.UnaryExpr:
					if pp.Op == token.AND {
						readOnly = false
					}
				case *ast.CallExpr:
					if b := builtinName(pk.TypesInfo, pp); cur == ast.Node(v) && b != "len" && b != "cap" {
						readOnly = false // handed to a function that may write it
					}
				case *ast.RangeStmt, *ast.BinaryExpr, *ast.IfStmt, *ast.SwitchStmt, *ast.ReturnStmt, *ast.KeyValueExpr, *ast.CompositeLit, *ast.ValueSpec, *ast.ExprStmt:
					if cur == ast.Node(v) {
						if _, isRange := pp.(*ast.RangeStmt); !isRange {
							readOnly = false
						}
					}
				default:
					if cur == ast.Node(v) {
						readOnly = false
					}
				}
			}
			return true
		})
	}
	if init != nil && readOnly {
		g.pk, g.init = pk, init
	}
	return g
}

// mapLookup resolves m[key] for a map literal with constant keys and a constant key.
func (x *c13Terms) mapLookup(m, key *c13Term) *c13Term {
	if m.op != c13OpOther || m.name != "maplit" || m.typ == nil {
		return nil
	}
	kc, ok := c13ConstOf(key)
	if !ok {
		return nil
	}
	mt, isMap := m.typ.Underlying().(*types.Map)
	if !isMap {
		return nil
	}
	for i := 0; i+1 < len(m.args); i += 2 {
		c, isC := c13ConstOf(m.args[i])
		if !isC {
			return nil
		}
		if c.Kind() == kc.Kind() && constant.Compare(c, token.EQL, kc) {
			return m.args[i+1]
		}
	}
	return x.zero(mt.Elem())
}
