package rules

import (
	"go/ast"
	"strings"
)

// Block parameters in provenance. A parameter of the primitive block (granularity, date_granularity, lat_offset,
// lon_offset, the string table) reaches the element decoding either through the generated getter of a cached
// PrimitiveBlock (atom `get:Granularity`) or as the value the decoder itself read from that field of the block's
// message and carried in a variable / struct field of its own (atom `fld:PrimitiveBlock.granularity`). Both denote the
// same quantity; c01NormParams rewrites the second spelling into the first so that the rest of R4 is independent of
// where the decoder keeps the parameters. (That a self-kept parameter starts from the format default for every block
// is R3's obligation.)
func c01NormParams(a *c01Atoms) {
	for k := range a.set {
		if k == "fld:StringTable.s" {
			delete(a.set, k)
			delete(a.delta, k)
			delete(a.plain, k)
			a.set["get:S"] = true
			continue
		}
		if !strings.HasPrefix(k, "fld:PrimitiveBlock.") {
			continue
		}
		name := strings.TrimPrefix(k, "fld:PrimitiveBlock.")
		g := "get:" + c01Camel(name)
		if name == "stringtable" {
			g = "get:S"
		}
		delete(a.set, k)
		delete(a.delta, k)
		delete(a.plain, k)
		a.set[g] = true
	}
}

// c01Camel turns a .proto field name into the name protoc-gen-go gives it (date_granularity -> DateGranularity).
func c01Camel(s string) string {
	var b strings.Builder
	up := true
	for _, c := range s {
		if c == '_' {
			up = true
			continue
		}
		if up && c >= 'a' && c <= 'z' {
			c -= 'a' - 'A'
		}
		up = false
		b.WriteRune(c)
	}
	return b.String()
}

// c01CallSite is one static call of a function of the package from the worker role.
type c01CallSite struct {
	caller *FuncInfo
	call   *ast.CallExpr
}

// c01CallSitesOf lists the call sites of fi in the worker role, in source order.
func c01CallSitesOf(cm *c01Model, fi *FuncInfo) []c01CallSite {
	var out []c01CallSite
	for _, caller := range cm.worker {
		caller := caller
		ast.Inspect(caller.Decl.Body, func(n ast.Node) bool {
			if call, ok := n.(*ast.CallExpr); ok && callee(cm.m.info, call) == fi.Obj {
				out = append(out, c01CallSite{caller, call})
			}
			return true
		})
	}
	return out
}
