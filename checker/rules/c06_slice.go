package rules

import (
	"fmt"
	"go/ast"
	"go/token"
	"go/types"
	"strings"

	"osmcheck/core"
)

// C06.E6, slice expressions x[lo:hi]. The expression cannot panic when 0 <= lo <= hi <= cap(x) (len(x) for strings
// and arrays). Each side is proved separately from
//   - its absence / the constant 0 / len(x) itself,
//   - the branch conditions controlling the use (any spelling cmpNorm understands: guards with an error exit, loop
//     conditions, inverted and merged tests),
//   - the cursor invariant of the protoscan library: for an iterator or message value I, 0 <= I.Index <= len(I.Data)
//     holds between calls (the library only ever advances Index while reading inside Data and reports
//     io.ErrUnexpectedEOF instead of running past the end), so I.Data[I.Index:] is in range wherever I comes from
//     (decoder field, parameter, local copy).
// Names play no role except the exported fields Data and Index of the library types.

// c06SliceProof looks for such a proof.
func c06SliceProof(r *core.R, info *types.Info, fi *FuncInfo, e *ast.SliceExpr) (bool, string) {
	fs := r.P.Fset
	f := c01FnOf(r.P, fi).innermost(e)
	facts := f.factsAtPos(e.Pos())
	facts = append(facts, c06ShortCircuitFacts(f.par, e)...)
	if ok, why := c06SlabProof(r, info, fi, f, e, facts); ok {
		return true, why
	}
	if e.Slice3 {
		return false, "three-index slice expressions are only understood for parts of a slab made with length N*K"
	}
	body := f.body
	same := func(a, b ast.Expr) bool { return c06SameValue(info, body, a, body, b) }
	// is x `len(e.X)` (or `cap(e.X)` when slicing a slice up to its capacity is allowed)
	isSlice := false
	if _, ok := info.TypeOf(e.X).Underlying().(*types.Slice); ok {
		isSlice = true
	}
	isLenX := func(x ast.Expr, allowCap bool) bool {
		x = c01StripConv(info, c01Expand(info, body, c01StripConv(info, x)))
		call, ok := ast.Unparen(x).(*ast.CallExpr)
		if !ok || len(call.Args) != 1 {
			return false
		}
		switch builtinName(info, call) {
		case "len":
		case "cap":
			if !allowCap || !isSlice {
				return false
			}
		default:
			return false
		}
		return c01Same(info, body, call.Args[0], e.X)
	}
	// unchanged between a guard and the use (the statement that holds the slice expression assigns after evaluating it)
	useStart := e.Pos()
	for p := f.par[e]; p != nil; p = f.par[p] {
		if st, isStmt := p.(ast.Stmt); isStmt {
			useStart = st.Pos() - 1
			break
		}
	}
	stable := func(x ast.Expr, from token.Pos) bool {
		for _, y := range []ast.Expr{x, e.X} {
			if y == nil {
				continue
			}
			if ro := c01RootObj(info, y); ro != nil && c06CountAssigns(info, body, ro, from, useStart) > 0 {
				return false
			}
		}
		return true
	}
	// lenAtLeast(c): facts establish len(x) >= c for a constant c
	lenAtLeast := func(c int64) *guardFact {
		for i := range facts {
			ft := &facts[i]
			l, op, rr, ok := cmpNorm(ft.expr)
			if !ok {
				continue
			}
			l, rr = c01StripConv(info, l), c01StripConv(info, rr)
			lc, lok := constInt(info, l)
			rc, rok := constInt(info, rr)
			min, hit := int64(0), false
			switch {
			case lok && isLenX(rr, true) && ft.val && op == token.LSS: // d < len
				min, hit = lc+1, true
			case lok && isLenX(rr, true) && ft.val && (op == token.LEQ || op == token.EQL): // d <= len, d == len
				min, hit = lc, true
			case rok && isLenX(l, true) && ft.val && op == token.EQL: // len == d
				min, hit = rc, true
			case rok && isLenX(l, true) && !ft.val && op == token.LSS: // not (len < d)
				min, hit = rc, true
			case rok && isLenX(l, true) && !ft.val && op == token.LEQ: // not (len <= d)
				min, hit = rc+1, true
			}
			if hit && min >= c && stable(nil, ft.expr.End()) {
				return ft
			}
		}
		return nil
	}
	// leq(a, isB): facts establish a <= B
	leq := func(a ast.Expr, isB func(ast.Expr) bool) *guardFact {
		for i := range facts {
			ft := &facts[i]
			l, op, rr, ok := cmpNorm(ft.expr)
			if !ok {
				continue
			}
			l, rr = c01StripConv(info, l), c01StripConv(info, rr)
			hit := false
			switch {
			case (op == token.LSS || op == token.LEQ || op == token.EQL) && ft.val && same(l, a) && isB(rr):
				hit = true // a < B, a <= B, a == B
			case op == token.EQL && ft.val && same(rr, a) && isB(l):
				hit = true
			case (op == token.LSS) && !ft.val && same(rr, a) && isB(l):
				hit = true // not (B < a)
			case op == token.LEQ && !ft.val && same(rr, a) && isB(l):
				hit = true // not (B <= a)  ==>  a < B
			}
			if hit && stable(a, ft.expr.End()) {
				return ft
			}
		}
		return nil
	}
	nonNeg := func(x ast.Expr) (bool, string) {
		if v, ok := constInt(info, x); ok {
			return v >= 0, "constant"
		}
		if bt, ok := info.TypeOf(x).Underlying().(*types.Basic); ok && bt.Info()&types.IsUnsigned != 0 {
			return true, "unsigned"
		}
		sx := c01StripConv(info, c01Expand(info, body, x))
		if call, ok := ast.Unparen(sx).(*ast.CallExpr); ok {
			if n := builtinName(info, call); n == "len" || n == "cap" {
				return true, "a length"
			}
		}
		if o := objOf(info, x); o != nil && (c06IsCounter(info, fi, o) || c06OnlyGrows(info, fi, o)) {
			return true, "a counter"
		}
		bd := &c06Bound{}
		c06BoundsFromFacts(fs, info, facts, func(y ast.Expr) bool { return same(y, x) }, bd, fi.Name())
		return bd.nonNeg, "tested against 0"
	}
	var why []string
	// constant bounds into a fixed-length array (or a pointer to one)
	{
		t := info.TypeOf(e.X)
		if pt, ok := t.Underlying().(*types.Pointer); ok {
			t = pt.Elem()
		}
		if at, ok := t.Underlying().(*types.Array); ok {
			lo, hi, okc := int64(0), at.Len(), true
			if e.Low != nil {
				lo, okc = constInt(info, e.Low)
			}
			if e.High != nil && okc {
				hi, okc = constInt(info, e.High)
			}
			if okc && 0 <= lo && lo <= hi && hi <= at.Len() {
				return true, fmt.Sprintf("constant bounds %d:%d into an array of %d elements", lo, hi, at.Len())
			}
		}
	}
	// the library cursor
	if e.Low != nil && e.High == nil && c06IsCursorPair(info, body, e.X, e.Low) {
		return true, "`" + src(fs, e) + "`: Index is the read cursor the protoscan library keeps within Data (0 <= Index <= len(Data) between calls)"
	}
	// high side
	switch {
	case e.High == nil:
	case isLenX(e.High, true):
		why = append(why, "upper bound is the length itself")
	default:
		if v, ok := constInt(info, e.High); ok && v == 0 {
			why = append(why, "upper bound 0")
			break
		}
		ft := leq(e.High, func(x ast.Expr) bool { return isLenX(x, true) })
		if cv, isConst := constInt(info, e.High); ft == nil && isConst && cv >= 0 {
			ft = lenAtLeast(cv)
		}
		if ft == nil {
			return false, fmt.Sprintf("no branch condition on the way to `%s` establishes %s <= len(%s)", src(fs, e), src(fs, e.High), src(fs, e.X))
		}
		if e.Low == nil {
			if ok, _ := nonNeg(e.High); !ok {
				return false, fmt.Sprintf("`%s` bounds %s above but it is signed and may be negative", src(fs, ft.expr), src(fs, e.High))
			}
		}
		why = append(why, fmt.Sprintf("`%s` is %v on every path to the use", src(fs, ft.expr), ft.val))
	}
	// low side: 0 <= lo <= hi (len(x) when hi is absent)
	if e.Low != nil {
		v, isConst := constInt(info, e.Low)
		if !(isConst && v == 0) {
			if ok, how := nonNeg(e.Low); !ok {
				return false, fmt.Sprintf("the lower bound %s is signed and not known to be non-negative", src(fs, e.Low))
			} else {
				why = append(why, "lower bound is "+how)
			}
			var ft *guardFact
			if e.High == nil || isLenX(e.High, false) {
				ft = leq(e.Low, func(x ast.Expr) bool { return isLenX(x, false) })
				if ft == nil && isConst && v >= 0 {
					ft = lenAtLeast(v)
				}
			} else {
				ft = leq(e.Low, func(x ast.Expr) bool { return same(x, e.High) })
			}
			if ft == nil {
				return false, fmt.Sprintf("no branch condition on the way to `%s` establishes that the lower bound %s does not exceed the upper bound", src(fs, e), src(fs, e.Low))
			}
			why = append(why, fmt.Sprintf("`%s` is %v on every path to the use", src(fs, ft.expr), ft.val))
		}
	}
	if len(why) == 0 {
		why = append(why, "x[:] is always in range")
	}
	return true, strings.Join(why, "; ")
}

// c06IsCursorPair: x is `I.Data` and lo is `I.Index` (possibly converted) of the same protoscan value I.
func c06IsCursorPair(info *types.Info, body ast.Node, x, lo ast.Expr) bool {
	xs, ok1 := ast.Unparen(c01Expand(info, body, x)).(*ast.SelectorExpr)
	ls, ok2 := ast.Unparen(c01StripConv(info, c01Expand(info, body, c01StripConv(info, lo)))).(*ast.SelectorExpr)
	if !ok1 || !ok2 {
		return false
	}
	fx, fl := fieldOf(info, xs), fieldOf(info, ls)
	if fx == nil || fl == nil || fx.Name() != "Data" || fl.Name() != "Index" {
		return false
	}
	if fx.Pkg() == nil || fx.Pkg() != fl.Pkg() || !strings.HasSuffix(fx.Pkg().Path(), "/protoscan") {
		return false
	}
	return c01Same(info, body, xs.X, ls.X)
}

// c06LenAtLeast: the branch conditions in facts establish len(x) >= c (x compared structurally in scope).
func c06LenAtLeast(info *types.Info, scope ast.Node, facts []guardFact, x ast.Expr, c int64) *guardFact {
	isLen := func(e ast.Expr) bool {
		la := c06LenArg(info, c01StripConv(info, c01Expand(info, scope, c01StripConv(info, e))))
		return la != nil && c01Same(info, scope, la, x)
	}
	for i := range facts {
		ft := &facts[i]
		l, op, rr, ok := cmpNorm(ft.expr)
		if !ok {
			continue
		}
		l, rr = c01StripConv(info, l), c01StripConv(info, rr)
		lc, lok := constInt(info, l)
		rc, rok := constInt(info, rr)
		min, hit := int64(0), false
		switch {
		case lok && isLen(rr) && ft.val && op == token.LSS: // d < len
			min, hit = lc+1, true
		case lok && isLen(rr) && ft.val && (op == token.LEQ || op == token.EQL): // d <= len, d == len
			min, hit = lc, true
		case lok && isLen(rr) && !ft.val && op == token.EQL && lc == 0: // not (0 == len)
			min, hit = 1, true
		case rok && isLen(l) && ft.val && op == token.EQL: // len == d
			min, hit = rc, true
		case rok && isLen(l) && !ft.val && op == token.EQL && rc == 0: // not (len == 0)
			min, hit = 1, true
		case rok && isLen(l) && ft.val && op == token.NEQ && rc == 0: // len != 0
			min, hit = 1, true
		case rok && isLen(l) && !ft.val && op == token.LSS: // not (len < d)
			min, hit = rc, true
		case rok && isLen(l) && !ft.val && op == token.LEQ: // not (len <= d)
			min, hit = rc+1, true
		}
		if hit && min >= c {
			return ft
		}
	}
	return nil
}

// c06ShortCircuitFacts: what is known about the operands to the left when e (a sub-expression of a condition) is
// evaluated: in `A || B` B is evaluated only when A is false, in `A && B` only when A is true.
func c06ShortCircuitFacts(par map[ast.Node]ast.Node, e ast.Expr) []guardFact {
	var out []guardFact
	var child ast.Node = e
	for p := par[e]; p != nil; child, p = p, par[p] {
		switch x := p.(type) {
		case *ast.BinaryExpr:
			if (x.Op == token.LOR || x.Op == token.LAND) && x.Y == child {
				splitFacts(x.X, x.Op == token.LAND, nil, &out)
			}
		case *ast.ParenExpr, *ast.UnaryExpr, *ast.CallExpr, *ast.IndexExpr, *ast.SelectorExpr, *ast.StarExpr, *ast.SliceExpr:
		default:
			return out
		}
	}
	return out
}
