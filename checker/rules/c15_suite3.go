package rules

import (
	"strings"

	"osmcheck/core"
)

// Third part of the C15 suites (round 7): range tests through a helper over converted operands, loops left through a
// condition variable or a break with the error pending (single exit), partition-then-apply, and the copy / modify /
// store-back form of the element update.

const c15RelApplyOld = `func (r *Relation) ApplyUpdatesUpTo(t time.Time) error {
	var notApplied []Update
	for _, u := range r.Updates {
		if u.Timestamp.After(t) {
			notApplied = append(notApplied, u)
			continue
		}

		if err := r.applyUpdate(u); err != nil {
			return err
		}
	}

	r.Updates = notApplied
	return nil
}`

// c15RelSingleExit: index loop that is left through `err`, single exit. GUARD is the extra loop condition, STORE the
// code between the loop and `return err`.
const c15RelSingleExit = `func (r *Relation) ApplyUpdatesUpTo(t time.Time) error {
	var (
		err     error
		pending []Update
	)

	for i := 0; GUARDi < len(r.Updates); i++ {
		if u := r.Updates[i]; u.Timestamp.After(t) {
			pending = append(pending, u)
		} else {
			err = r.applyUpdate(u)
		}
	}

	STORE

	return err
}`

func c15RelShape(guard, store string) string {
	return strings.NewReplacer("GUARD", guard, "STORE", store).Replace(c15RelSingleExit)
}

const c15WayGuardOld = "func (w *Way) applyUpdate(u Update) error {\n\tif u.Index < 0 || u.Index >= len(w.Nodes) {"

func c15InRange(body string) string {
	return "func (u Update) inRange(n int) bool {\n" + body + "\n}\n\nfunc (w *Way) applyUpdate(u Update) error {\n\tif !u.inRange(len(w.Nodes)) {"
}

// c15Splitter is a two-result partition helper; DUE is the test for "at or before t".
const c15Splitter = `func splitUpdates(us Updates, t time.Time) (due, pending Updates) {
	for i := range us {
		if ts := us[i].Timestamp; DUE {
			due = append(due, us[i])
		} else {
			pending = append(pending, us[i])
		}
	}

	return due, pending
}

func (w *Way) ApplyUpdatesUpTo(t time.Time) error {
	LHS := splitUpdates(w.Updates, t)
	for _, u := range due {
		if err := w.applyUpdate(u); err != nil {
			return err
		}
	}

	w.Updates = pending
	return nil
}`

func c15Split(due, lhs string) string {
	return strings.NewReplacer("DUE", due, "LHS", lhs).Replace(c15Splitter)
}

func c15WayCopy(body string) string {
	return "\tif u.Index < 0 || u.Index >= len(w.Nodes) {\n\t\treturn &UpdateIndexOutOfRangeError{Index: u.Index}\n\t}\n\n" + body
}

var c15Benign3 = []core.Mutant{
	// range test in a helper, both operands converted to unsigned (also rejects negative indexes)
	{Name: "inrange-unsigned", File: "way.go", Find: c15WayGuardOld,
		Replace: c15InRange("\treturn uint(u.Index) < uint(n)")},
	// signed comparison with the last valid index, through a local
	{Name: "inrange-signed-last", File: "way.go", Find: c15WayGuardOld,
		Replace: c15InRange("\tlast := n - 1\n\treturn 0 <= u.Index && u.Index <= last")},
	{Name: "guard-signed-last-inline", File: "way.go", Find: "\tif u.Index < 0 || u.Index >= len(w.Nodes) {\n\t\treturn &UpdateIndexOutOfRangeError",
		Replace: "\tif u.Index < 0 || u.Index > len(w.Nodes)-1 {\n\t\treturn &UpdateIndexOutOfRangeError"},
	// single exit: the loop is left through the error variable in its condition
	{Name: "rel-cond-var-exit", File: "relation.go", Find: c15RelApplyOld,
		Replace: c15RelShape("err == nil && ", "if err == nil {\n\t\tr.Updates = pending\n\t}")},
	{Name: "rel-cond-var-exit-early-return", File: "relation.go", Find: c15RelApplyOld,
		Replace: c15RelShape("err == nil && ", "if err != nil {\n\t\treturn err\n\t}\n\n\tr.Updates = pending")},
	// single exit through break with the error pending
	{Name: "way-break-on-error", File: "way.go", Find: c15WayApplyOld,
		Replace: "func (w *Way) ApplyUpdatesUpTo(t time.Time) error {\n\tvar err error\n\tvar notApplied []Update\n\tfor _, u := range w.Updates {\n\t\tif u.Timestamp.After(t) {\n\t\t\tnotApplied = append(notApplied, u)\n\t\t\tcontinue\n\t\t}\n\n\t\tif err = w.applyUpdate(u); err != nil {\n\t\t\tbreak\n\t\t}\n\t}\n\n\tif err != nil {\n\t\treturn err\n\t}\n\n\tw.Updates = notApplied\n\treturn nil\n}"},
	// partition, then apply; "at or before" spelled Before || Equal
	{Name: "way-partition-before-or-equal", File: "way.go", Find: c15WayApplyOld,
		Replace: c15Split("ts.Before(t) || ts.Equal(t)", "due, pending")},
	{Name: "way-partition-not-after", File: "way.go", Find: c15WayApplyOld,
		Replace: c15Split("!t.Before(ts)", "due, pending")},
	// element update as copy / modify / store back
	{Name: "way-copy-modify-store", File: "way.go", Find: c15OldCopy,
		Replace: c15WayCopy("\tn := w.Nodes[u.Index]\n\tn.Version, n.ChangesetID = u.Version, u.ChangesetID\n\tn.Lat, n.Lon = u.Lat, u.Lon\n\tw.Nodes[u.Index] = n\n")},
	{Name: "rel-copy-modify-store", File: "relation.go", Find: c15OldRCopy,
		Replace: "\ti := u.Index\n\tif i < 0 || i >= len(r.Members) {\n\t\treturn &UpdateIndexOutOfRangeError{Index: i}\n\t}\n\n\tm := r.Members[i]\n\tm.Version = u.Version\n\tm.ChangesetID = u.ChangesetID\n\tm.Lat = u.Lat\n\tm.Lon = u.Lon\n\tif u.Reverse {\n\t\tm.Orientation = -m.Orientation\n\t}\n\n\tr.Members[i] = m\n"},
}

var c15Mutants3 = []core.Mutant{
	// the round-7 seed: unsigned comparison with the last valid index wraps for an empty list
	{Name: "inrange-unsigned-last", File: "way.go", Find: c15WayGuardOld,
		Replace:    c15InRange("\tlast := uint(n - 1)\n\treturn uint(u.Index) <= last"),
		ExpectRule: "U3", ExpectConstruct: "index@Way.Nodes"},
	{Name: "guard-unsigned-last-inline", File: "way.go", Find: "\tif u.Index < 0 || u.Index >= len(w.Nodes) {\n\t\treturn &UpdateIndexOutOfRangeError",
		Replace:    "\tif uint(u.Index) > uint(len(w.Nodes))-1 {\n\t\treturn &UpdateIndexOutOfRangeError",
		ExpectRule: "U3", ExpectConstruct: "index@Way.Nodes"},
	// partition that treats an update stamped exactly at t as pending
	{Name: "partition-before-only", File: "way.go", Find: c15WayApplyOld,
		Replace:    c15Split("ts.Before(t)", "due, pending"),
		ExpectRule: "U1", ExpectConstruct: "loop@(*Way).ApplyUpdatesUpTo"},
	// the caller swaps the two results: applies the later updates, keeps the applied ones
	{Name: "partition-swapped", File: "way.go", Find: c15WayApplyOld,
		Replace:    c15Split("ts.Before(t) || ts.Equal(t)", "pending, due"),
		ExpectRule: "U1", ExpectConstruct: "loop@(*Way).ApplyUpdatesUpTo"},
	// the copy is modified but never stored back
	{Name: "copy-not-stored", File: "way.go", Find: c15OldCopy,
		Replace:    c15WayCopy("\tn := w.Nodes[u.Index]\n\tn.Version, n.ChangesetID = u.Version, u.ChangesetID\n\tn.Lat, n.Lon = u.Lat, u.Lon\n\t_ = n\n"),
		ExpectRule: "U4", ExpectConstruct: "copy@Way.Nodes"},
	// the copy is stored back before the location is written into it
	{Name: "copy-stored-too-early", File: "way.go", Find: c15OldCopy,
		Replace:    c15WayCopy("\tn := w.Nodes[u.Index]\n\tn.Version, n.ChangesetID = u.Version, u.ChangesetID\n\tw.Nodes[u.Index] = n\n\tn.Lat, n.Lon = u.Lat, u.Lon\n"),
		ExpectRule: "U4", ExpectConstruct: "copy@Way.Nodes"},
	// the element stored back starts from the zero value: the node id is lost
	{Name: "copy-from-zero", File: "way.go", Find: c15OldCopy,
		Replace:    c15WayCopy("\tvar n WayNode\n\tn.Version, n.ChangesetID = u.Version, u.ChangesetID\n\tn.Lat, n.Lon = u.Lat, u.Lon\n\tw.Nodes[u.Index] = n\n"),
		ExpectRule: "U4", ExpectConstruct: "copy@Way.Nodes"},
	// the store of the copy is conditional
	{Name: "copy-store-conditional", File: "way.go", Find: c15OldCopy,
		Replace:    c15WayCopy("\tn := w.Nodes[u.Index]\n\tn.Version, n.ChangesetID = u.Version, u.ChangesetID\n\tn.Lat, n.Lon = u.Lat, u.Lon\n\tif n.Version != 0 {\n\t\tw.Nodes[u.Index] = n\n\t}\n"),
		ExpectRule: "U4", ExpectConstruct: "copy@Way.Nodes"},
	// single exit: the error exit still stores the remainder collected so far
	{Name: "cond-var-exit-stores", File: "relation.go", Find: c15RelApplyOld,
		Replace:    c15RelShape("err == nil && ", "r.Updates = pending"),
		ExpectRule: "U2", ExpectConstruct: "pending@(*Relation).ApplyUpdatesUpTo"},
	// single exit without the guard: a later update overwrites the error
	{Name: "cond-var-missing", File: "relation.go", Find: c15RelApplyOld,
		Replace:    c15RelShape("", "if err == nil {\n\t\tr.Updates = pending\n\t}"),
		ExpectRule: "U2", ExpectConstruct: "apply@(*Relation).ApplyUpdatesUpTo"},
	// single exit: success is reported although the loop was left with an error
	{Name: "cond-var-error-dropped", File: "relation.go", Find: c15RelApplyOld,
		Replace:    strings.Replace(c15RelShape("err == nil && ", "if err == nil {\n\t\tr.Updates = pending\n\t}"), "\treturn err\n}", "\treturn nil\n}", 1),
		ExpectRule: "U2", ExpectConstruct: "apply@(*Relation).ApplyUpdatesUpTo"},
	// break with the error pending, but the store happens before the error is looked at
	{Name: "break-exit-stores", File: "way.go", Find: c15WayApplyOld,
		Replace:    "func (w *Way) ApplyUpdatesUpTo(t time.Time) error {\n\tvar err error\n\tvar notApplied []Update\n\tfor _, u := range w.Updates {\n\t\tif u.Timestamp.After(t) {\n\t\t\tnotApplied = append(notApplied, u)\n\t\t\tcontinue\n\t\t}\n\n\t\tif err = w.applyUpdate(u); err != nil {\n\t\t\tbreak\n\t\t}\n\t}\n\n\tw.Updates = notApplied\n\treturn err\n}",
		ExpectRule: "U2", ExpectConstruct: "pending@(*Way).ApplyUpdatesUpTo"},
	// break without an error: the scan stops at the first applied update
	{Name: "break-without-error", File: "way.go", Find: "\t\tif err := w.applyUpdate(u); err != nil {\n\t\t\treturn err\n\t\t}\n\t}\n\n\tw.Updates = notApplied",
		Replace:    "\t\tif err := w.applyUpdate(u); err != nil {\n\t\t\treturn err\n\t\t}\n\t\tbreak\n\t}\n\n\tw.Updates = notApplied",
		ExpectRule: "U5", ExpectConstruct: "complete@(*Way).ApplyUpdatesUpTo"},
}
