package rules

import (
	"fmt"
	"go/ast"
	"go/token"
	"go/types"
	"strings"

	"golang.org/x/tools/go/packages"

	"osmcheck/core"
)

// Derivation of the per-parent key (Index, Version) of an update.
//
// The comparator of SortByIndex is a total order only on lists in which (Index, Version) occurs once. The rules
// below show that the computation emits such lists: every osm.Update put into a per-parent list comes from
// (*shared.Child).Update(), which copies the child's Version; its Index is then set, before the value is used, from
// the *position field* of a child location (the field of the location struct that is also handed to
// Parent.SetChild as the position); the two innermost loops around each use of the value are one that varies the
// child version and one that varies the location (followed along the call chain when the use is in a helper).
// Everything is resolved by role: the functions are found through the calls they make, locals through their
// single definition, parameters of helpers through the arguments at their call sites.

const c12CorePath = core.ModulePath + "/annotate/internal/core"
const c12SharedPath = core.ModulePath + "/annotate/shared"

type c12KeyCx struct {
	r    *core.R
	s    *c12Sorter
	pk   *packages.Package
	pos  *types.Var // position field of the location struct
	lits map[*ast.FuncLit]*c12Fn
}

// c12StructField finds an exported field of a named struct by name.
func c12StructField(pk *packages.Package, typ, field string) *types.Var {
	_, st := structType(pk, typ)
	if st == nil {
		return nil
	}
	for i := 0; i < st.NumFields(); i++ {
		if st.Field(i).Name() == field {
			return st.Field(i)
		}
	}
	return nil
}

// c12FieldWrites collects the values written to struct field f in node: keyed and positional composite literals
// of the struct, and assignments `x.f = v`.
func c12FieldWrites(info *types.Info, node ast.Node, f *types.Var) []ast.Expr {
	var out []ast.Expr
	ast.Inspect(node, func(n ast.Node) bool {
		switch x := n.(type) {
		case *ast.CompositeLit:
			t := info.TypeOf(x)
			if t == nil {
				return true
			}
			if pt, ok := t.Underlying().(*types.Pointer); ok {
				t = pt.Elem()
			}
			st, ok := t.Underlying().(*types.Struct)
			if !ok {
				return true
			}
			for i, e := range x.Elts {
				if kv, ok := e.(*ast.KeyValueExpr); ok {
					if id, ok := kv.Key.(*ast.Ident); ok && info.Uses[id] == f {
						out = append(out, kv.Value)
					}
				} else if i < st.NumFields() && st.Field(i) == f {
					out = append(out, e)
				}
			}
		case *ast.AssignStmt:
			for i, l := range x.Lhs {
				if fieldOf(info, l) == f && len(x.Lhs) == len(x.Rhs) {
					out = append(out, x.Rhs[i])
				}
			}
		}
		return true
	})
	return out
}

func c12KeyRule(r *core.R, s *c12Sorter) {
	root := r.P.Pkg("")
	sh := r.P.Pkg("annotate/shared")
	pk := r.P.Pkg("annotate/internal/core")
	upd := findFunc(sh, "(*Child).Update")
	if upd == nil || upd.Decl.Body == nil {
		r.Anchor("shared.(*Child).Update")
		return
	}
	updVersion := c12StructField(root, "Update", "Version")
	updIndex := c12StructField(root, "Update", "Index")
	childVersion := c12StructField(sh, "Child", "Version")
	if updVersion == nil || updIndex == nil || childVersion == nil {
		r.Anchor("fields osm.Update.Version, osm.Update.Index, shared.Child.Version")
		return
	}
	// (a) Update() carries the child's Version
	var writes []ast.Expr
	var hosts []*FuncInfo
	seenHost := map[*FuncInfo]bool{}
	inspectDeep(sh, upd, 2, func(site deepSite, n ast.Node) bool {
		if !seenHost[site.fi] {
			seenHost[site.fi] = true
			for _, w := range c12FieldWrites(sh.TypesInfo, site.fi.Decl.Body, updVersion) {
				writes = append(writes, w)
				hosts = append(hosts, site.fi)
			}
		}
		return true
	})
	okVer := len(writes) > 0
	why := "Child.Update never sets the Version of the update: the (Index, Version) key of an update is lost"
	cx := &c12KeyCx{r: r, s: s, pk: pk}
	for i, w := range writes {
		origins := cx.origins(s.fn(hosts[i].Obj), w, 3)
		if len(origins) == 0 {
			okVer = false
			why = "the value `" + src(r.P.Fset, w) + "` stored as the update's Version could not be traced"
		}
		for _, o := range origins {
			if o.field != childVersion {
				okVer = false
				why = "Child.Update sets the update's Version from `" + src(r.P.Fset, w) + "`, not from the child's Version: the (Index, Version) key of an update is lost"
				continue
			}
			// the child must be the receiver or a parameter (bound to it) of the function that reads the field
			if ro := c12RootVar(o.fn.info(), o.sel); ro == nil || c12ParamPos(o.fn.info(), o.fn.fi.Decl, ro) < 0 {
				okVer = false
				why = "Child.Update takes the Version from `" + src(r.P.Fset, o.sel) + "`, which is not the child it is called on"
			}
		}
	}
	r.Check(okVer, "key@Child.Update Version", upd.Decl.Pos(), "Update() copies the child's Version into the update", why)

	if pk == nil || findFunc(pk, "Compute") == nil {
		r.Anchor("core.Compute")
		return
	}
	info := pk.TypesInfo

	// (b) the position field: what Parent.SetChild receives as position
	posFields := map[*types.Var]bool{}
	nset := 0
	var unresolved ast.Expr
	for _, fi := range allFuncs(pk) {
		fi := fi
		ast.Inspect(fi.Decl.Body, func(n ast.Node) bool {
			call, ok := n.(*ast.CallExpr)
			if !ok || !isMethod(callee(info, call), c12CorePath+".Parent", "SetChild") || len(call.Args) != 2 {
				return true
			}
			nset++
			host := s.fn(fi.Obj)
			if host != nil {
				host = cx.fnAt(host, parentsOf(r.P, fi), call)
			}
			origins := cx.origins(host, call.Args[0], 3)
			if len(origins) == 0 {
				unresolved = call.Args[0]
			}
			for _, o := range origins {
				if o.field == nil {
					unresolved = call.Args[0]
				} else {
					posFields[o.field] = true
				}
			}
			return true
		})
	}
	switch {
	case nset == 0:
		r.Anchor("call of Parent.SetChild in annotate/internal/core")
		return
	case unresolved != nil:
		r.Unknown("key@position field", unresolved.Pos(), "the position handed to Parent.SetChild (`%s`) is not a field of the child-location struct; the rule cannot tell which field is the position", src(r.P.Fset, unresolved))
		return
	case len(posFields) != 1:
		r.Unknown("key@position field", token.NoPos, "Parent.SetChild receives %d different fields as the position; the rule cannot tell which field is the position", len(posFields))
		return
	}
	for f := range posFields {
		cx.pos = f
	}

	// (c) every Update() call of the package: Index set from the position field before use; version and
	// location vary with different loops
	nsrc := 0
	sources := map[types.Object]bool{}
	var tree []*FuncInfo
	for _, tp := range annotateTree(r.P) {
		tree = append(tree, allFuncs(tp)...)
	}
	for _, fi := range tree {
		f := s.fn(fi.Obj)
		if f == nil {
			continue
		}
		par := parentsOf(r.P, fi)
		inspectNoLit(fi.Decl.Body, func(n ast.Node) bool {
			call, ok := n.(*ast.CallExpr)
			if !ok || !isMethod(callee(f.info(), call), c12SharedPath+".Child", "Update") {
				return true
			}
			nsrc++
			for _, u := range cx.source(f, call, par, updIndex) {
				sources[u] = true
			}
			return true
		})
	}
	for _, fi := range tree {
		f := s.fn(fi.Obj)
		if f == nil {
			continue
		}
		par := parentsOf(r.P, fi)
		for _, lf := range cx.literals(f) {
			lf := lf
			inspectNoLit(lf.lit.Body, func(n ast.Node) bool {
				call, ok := n.(*ast.CallExpr)
				if !ok || !isMethod(callee(lf.info(), call), c12SharedPath+".Child", "Update") {
					return true
				}
				nsrc++
				for _, u := range cx.source(lf, call, par, updIndex) {
					sources[u] = true
				}
				return true
			})
		}
	}
	if nsrc == 0 {
		r.Anchor("call of (*shared.Child).Update in the annotate tree")
	}

	// (d) every single osm.Update appended to a list is such a value
	for _, fi := range tree {
		f := s.fn(fi.Obj)
		if f == nil {
			continue
		}
		ast.Inspect(fi.Decl.Body, func(n ast.Node) bool {
			var emitted []ast.Expr
			switch x := n.(type) {
			case *ast.CallExpr:
				if builtinName(f.info(), x) == "append" && !x.Ellipsis.IsValid() && len(x.Args) >= 2 {
					emitted = x.Args[1:]
				}
			case *ast.AssignStmt:
				// list[n] = u
				for i, l := range x.Lhs {
					if _, isIx := ast.Unparen(l).(*ast.IndexExpr); isIx && len(x.Lhs) == len(x.Rhs) {
						emitted = append(emitted, x.Rhs[i])
					}
				}
			}
			for _, a := range emitted {
				if namedPath(f.info().TypeOf(a)) != core.ModulePath+".Update" {
					continue
				}
				if _, moved := ast.Unparen(a).(*ast.IndexExpr); moved {
					continue // an element of an existing list is moved, not a new update
				}
				c := "key@update append"
				if okSrc, why := cx.isSource(f, a, sources, 2); okSrc {
					r.OK(c, a.Pos(), "update put into a list `%s` %s", src(r.P.Fset, a), why)
				} else {
					r.Bad(c, a.Pos(), "update put into a list `%s` %s: its (Index, Version) is not the position/version key the comparator relies on", src(r.P.Fset, a), why)
				}
			}
			return true
		})
	}
}

// c12Origin is where a value comes from: a struct field selected from `sel` in function fn, at call depth level
// above the function the question was asked in.
type c12Origin struct {
	field *types.Var
	sel   ast.Expr
	fn    *c12Fn
	level int
}

// origins traces an integer value back to the struct field it was read from, through conversions, single-definition
// locals and, for parameters of unexported helpers, the arguments at every call site.
func (cx *c12KeyCx) origins(f *c12Fn, e ast.Expr, depth int) []c12Origin {
	return cx.originsAt(f, e, depth, 0)
}

func (cx *c12KeyCx) originsAt(f *c12Fn, e ast.Expr, depth, level int) []c12Origin {
	if f == nil {
		return nil
	}
	info := f.info()
	for i := 0; i < 4; i++ {
		e = c12StripConv(info, e)
		if fl := fieldOf(info, e); fl != nil {
			return []c12Origin{{field: fl, sel: e, fn: f, level: level}}
		}
		o := objOf(info, e)
		if o == nil {
			return []c12Origin{{fn: f, level: level}}
		}
		if idx := c12ParamPos(info, f.fi.Decl, o); idx >= 0 {
			if depth <= 0 {
				return []c12Origin{{fn: f, level: level}}
			}
			var out []c12Origin
			for _, cs := range cx.callSitesOf(f) {
				arg := argForParam(info, f.fi, cs.call, o) // info of the callee: it resolves the callee's parameter names
				if arg == nil {
					out = append(out, c12Origin{fn: f, level: level})
					continue
				}
				out = append(out, cx.originsAt(cx.siteFn(f, cs), arg, depth-1, level+1)...)
			}
			if len(out) == 0 {
				out = append(out, c12Origin{fn: f, level: level})
			}
			return out
		}
		if c12Captured(f, o) {
			return cx.originsAt(f.outer, e, depth, level) // a variable of the function the literal is written in
		}
		rhs := c12SingleDef(info, f.fi.Decl.Body, o)
		if rhs == nil {
			return []c12Origin{{fn: f, level: level}}
		}
		e = rhs
	}
	return []c12Origin{{fn: f, level: level}}
}

// c12ParamPos: index of o among receiver+parameters of fd, or -1.
func c12ParamPos(info *types.Info, fd *ast.FuncDecl, o types.Object) int {
	for i, p := range c12Params(info, fd) {
		if p == o {
			return i
		}
	}
	return -1
}

// c12Frame is one level of a call chain: a node in a function (level 0: the place where the update is used;
// above: the call that leads to the level below).
type c12Frame struct {
	fn *c12Fn
	at ast.Node
}

// chains enumerates the call chains that lead to node at of f through the static call sites of the annotate tree.
func (cx *c12KeyCx) chains(f *c12Fn, at ast.Node, depth int) [][]c12Frame {
	head := c12Frame{fn: f, at: at}
	var out [][]c12Frame
	if depth > 0 {
		for _, cs := range cx.callSitesOf(f) {
			g := cx.siteFn(f, cs)
			if g == nil || g == f {
				continue
			}
			for _, up := range cx.chains(g, cs.call, depth-1) {
				// a literal invoked by a helper: the helper was entered through the call that passes the literal
				if cs.via != nil && len(up) > 1 && up[1].at != ast.Node(cs.via) {
					continue
				}
				out = append(out, append([]c12Frame{head}, up...))
			}
		}
	}
	if len(out) == 0 {
		out = [][]c12Frame{{head}}
	}
	return out
}

// enclosingLoops lists the loops around the frames of a chain, innermost first.
func (cx *c12KeyCx) enclosingLoops(chain []c12Frame) []ast.Stmt {
	var out []ast.Stmt
	for _, fr := range chain {
		par := parentsOf(cx.r.P, fr.fn.fi)
		for p := par[fr.at]; p != nil; p = par[p] {
			if lit, isLit := p.(*ast.FuncLit); isLit && lit == fr.fn.lit {
				break // the loops around a literal are reached through the call that invokes it
			}
			switch l := p.(type) {
			case *ast.RangeStmt:
				out = append(out, l)
			case *ast.ForStmt:
				out = append(out, l)
			}
		}
	}
	return out
}

// depLoops collects the loops whose iteration variable the value of e (an expression of the function at the given
// level of the chain) depends on: e mentions the loop variable directly, through single-definition locals, or, for
// parameters, through the argument of the call one level up.
func (cx *c12KeyCx) depLoops(chain []c12Frame, level int, e ast.Node, budget int, out *[]ast.Stmt) {
	if e == nil || budget < 0 || level >= len(chain) {
		return
	}
	f := chain[level].fn
	info := f.info()
	par := parentsOf(cx.r.P, f.fi)
	ast.Inspect(e, func(n ast.Node) bool {
		id, ok := n.(*ast.Ident)
		if !ok {
			return true
		}
		v, ok := info.Uses[id].(*types.Var)
		if !ok || v.IsField() || v.Pkg() == nil || v.Parent() == v.Pkg().Scope() {
			return true
		}
		if l := c12LoopDefining(info, par, id, v); l != nil {
			*out = append(*out, l)
			return true
		}
		if c12ParamPos(info, f.fi.Decl, v) >= 0 {
			if level+1 < len(chain) {
				if call, ok := chain[level+1].at.(*ast.CallExpr); ok {
					if arg := argForParam(info, f.fi, call, v); arg != nil {
						cx.depLoops(chain, level+1, arg, budget-1, out)
					}
				}
			}
			return true
		}
		body := ast.Node(f.fi.Decl.Body)
		if c12Captured(f, v) {
			// a parameter of an enclosing literal or function that is a frame further up the chain
			for j := level + 1; j+1 < len(chain); j++ {
				g := chain[j].fn
				if c12ParamPos(g.info(), g.fi.Decl, v) < 0 {
					continue
				}
				if call, ok := chain[j+1].at.(*ast.CallExpr); ok {
					if arg := argForParam(g.info(), g.fi, call, v); arg != nil {
						cx.depLoops(chain, j+1, arg, budget-1, out)
					}
				}
				return true
			}
			body = f.outer.fi.Decl.Body // a variable of the function the literal is written in
		}
		if rhs := c12SingleDef(info, body, v); rhs != nil {
			cx.depLoops(chain, level, rhs, budget-1, out)
		} else if call, _, _ := c12CallDef(info, body, v); call != nil {
			cx.depLoops(chain, level, call, budget-1, out)
		}
		return true
	})
}

// c12InnermostIn returns the smallest position in loops (innermost first) of any of the dependencies, or -1.
func c12InnermostIn(loops []ast.Stmt, deps []ast.Stmt) int {
	best := -1
	for _, d := range deps {
		for i, l := range loops {
			if l == d && (best < 0 || i < best) {
				best = i
			}
		}
	}
	return best
}

// c12LoopDefining: the enclosing loop statement of use that declares v as its iteration variable.
func c12LoopDefining(info *types.Info, par map[ast.Node]ast.Node, use ast.Node, v *types.Var) ast.Stmt {
	for p := par[use]; p != nil; p = par[p] {
		switch l := p.(type) {
		case *ast.RangeStmt:
			if (l.Key != nil && objOf(info, l.Key) == v) || (l.Value != nil && objOf(info, l.Value) == v) {
				return l
			}
		case *ast.ForStmt:
			if init, ok := l.Init.(*ast.AssignStmt); ok && init.Tok == token.DEFINE {
				for _, lhs := range init.Lhs {
					if objOf(info, lhs) == v {
						return l
					}
				}
			}
		}
	}
	return nil
}

// source checks one call X.Update() in f and returns the variables that hold the checked update (the variable the
// result is stored in and plain copies of it).
func (cx *c12KeyCx) source(f *c12Fn, call *ast.CallExpr, par map[ast.Node]ast.Node, updIndex *types.Var) []types.Object {
	r := cx.r
	info := f.info()
	c := "key@update source" // role-based key: stays the same when the statements move into a helper
	sel, _ := ast.Unparen(call.Fun).(*ast.SelectorExpr)
	// the result must be stored in a local
	var u types.Object
	if as, ok := par[call].(*ast.AssignStmt); ok && len(as.Lhs) == 1 && len(as.Rhs) == 1 {
		u = objOf(info, as.Lhs[0])
	}
	if vs, ok := par[call].(*ast.ValueSpec); ok && len(vs.Names) == 1 && len(vs.Values) == 1 {
		u = info.Defs[vs.Names[0]]
	}
	if u == nil || sel == nil {
		r.Bad(c, call.Pos(), "the result of `%s` is used without its Index being set from the child location (Update() leaves Index zero): (Index, Version) is not the position/version key the comparator relies on", src(r.P.Fset, call))
		return nil
	}
	body := f.fi.Decl.Body
	// the variables that hold the value: u and plain copies (x := u; a loop-invariant Update() hoisted out of the
	// location loop is copied per location)
	vars := []types.Object{u}
	holds := func(o types.Object) bool {
		for _, v := range vars {
			if v == o && o != nil {
				return true
			}
		}
		return false
	}
	copyInto := map[*ast.Ident]bool{} // identifiers of held variables read only to be copied into another held variable
	for changed := true; changed; {
		changed = false
		inspectNoLit(body, func(n ast.Node) bool {
			as, ok := n.(*ast.AssignStmt)
			if !ok || len(as.Lhs) != len(as.Rhs) {
				return true
			}
			for i, l := range as.Lhs {
				rid, ok := ast.Unparen(as.Rhs[i]).(*ast.Ident)
				if !ok || !holds(objOf(info, rid)) {
					continue
				}
				lo := objOf(info, l)
				if lo == nil {
					continue
				}
				copyInto[rid] = true
				if !holds(lo) {
					vars = append(vars, lo)
					changed = true
				}
			}
			return true
		})
	}
	// assignments x.Index = E
	type idxSet struct {
		as  *ast.AssignStmt
		rhs ast.Expr
	}
	sets := map[types.Object][]idxSet{}
	var allSets []idxSet
	inspectNoLit(body, func(n ast.Node) bool {
		as, ok := n.(*ast.AssignStmt)
		if !ok || len(as.Lhs) != len(as.Rhs) {
			return true
		}
		for i, l := range as.Lhs {
			le := expandAlias(info, body, l)
			if s2, ok := ast.Unparen(le).(*ast.SelectorExpr); ok && selField(info, s2) == updIndex {
				if x := c12RootVar(info, le); holds(x) {
					sets[x] = append(sets[x], idxSet{as: as, rhs: as.Rhs[i]})
					allSets = append(allSets, idxSet{as: as, rhs: as.Rhs[i]})
				}
			}
		}
		return true
	})
	for _, st := range allSets {
		for _, o := range cx.origins(f, st.rhs, 3) {
			if o.field != cx.pos {
				from := "`" + src(r.P.Fset, st.rhs) + "`"
				if o.field != nil {
					from += " (field " + o.field.Name() + ")"
				}
				r.Bad(c, st.as.Pos(), "the update's Index is set from %s, not from the child location's position field %s (the one handed to Parent.SetChild): (Index, Version) is no longer the position/version key the comparator relies on", from, cx.pos.Name())
				return vars
			}
		}
	}
	// every use of a held value (other than stores into its fields, aliases and copies) comes after an Index assignment
	nuse := 0
	okText := ""
	var escapes []*ast.Ident
	var badUse ast.Node
	var badVar types.Object
	ast.Inspect(body, func(n ast.Node) bool {
		id, ok := n.(*ast.Ident)
		if !ok || !holds(info.Uses[id]) || copyInto[id] {
			return true
		}
		x := info.Uses[id]
		// a use inside a nested literal (a callback that captures the value) happens, for the ordering against the
		// Index assignment, where that literal is written
		usePos := id.Pos()
		for p := par[id]; p != nil && p != ast.Node(body); p = par[p] {
			if lit, isLit := p.(*ast.FuncLit); isLit && lit != f.lit {
				usePos = lit.Pos()
			}
		}
		// the left-hand side of a store is not a use of the value
		if as, ok := par[id].(*ast.AssignStmt); ok {
			for _, l := range as.Lhs {
				if l == ast.Expr(id) {
					return true
				}
			}
		}
		if se, ok := par[id].(*ast.SelectorExpr); ok && se.X == ast.Expr(id) {
			if as, ok := par[se].(*ast.AssignStmt); ok {
				for _, l := range as.Lhs {
					if l == ast.Expr(se) {
						return true
					}
				}
			}
		}
		// p := &x introduces an alias (its stores are found through expandAlias); it does not read the value
		if ue, ok := par[id].(*ast.UnaryExpr); ok && ue.Op == token.AND {
			if as, ok := par[ue].(*ast.AssignStmt); ok && as.Tok == token.DEFINE {
				return true
			}
		}
		nuse++
		escapes = append(escapes, id)
		dominated := false
		for _, st := range sets[x] {
			if d, ok := f.at(st.as.Pos(), ""); ok && f.dominates(d, usePos) && !(st.as.Pos() <= usePos && usePos < st.as.End()) {
				dominated = true
			}
		}
		if !dominated && badUse == nil {
			badUse, badVar = par[id], x
		}
		return true
	})
	switch {
	case badUse != nil && len(sets[badVar]) == 0:
		r.Bad(c, badUse.Pos(), "`%s` uses the update `%s` whose Index is never set: every update of the parent would carry Index 0 and (Index, Version) is no longer the position/version key the comparator relies on", src(r.P.Fset, badUse), badVar.Name())
		return vars
	case badUse != nil:
		r.Bad(c, badUse.Pos(), "`%s` uses the update before its Index has been set from the child location on every path", src(r.P.Fset, badUse))
		return vars
	case nuse == 0:
		r.OKTrivial(c, call.Pos(), "the result of `%s` is never used", src(r.P.Fset, call))
		return vars
	}
	// one update per (location, child version): the two innermost loops around every use of the update are the loop
	// that varies the child version and the loop that varies the location
	for _, use := range escapes {
		for _, chain := range cx.chains(cx.fnAt(f.declared(), par, use), use, 5) {
			loops := cx.enclosingLoops(chain)
			var dv, dl []ast.Stmt
			cx.depLoops(chain, 0, sel.X, 6, &dv)
			for _, st := range allSets {
				cx.depLoops(chain, 0, st.rhs, 6, &dl)
			}
			pv, pl := c12InnermostIn(loops, dv), c12InnermostIn(loops, dl)
			switch {
			case pv < 0:
				r.Bad(c, call.Pos(), "the child version `%s` does not vary with a loop around `%s`: the same (Index, Version) pair could be emitted twice", src(r.P.Fset, sel.X), src(r.P.Fset, par[use]))
				return vars
			case pl < 0:
				r.Bad(c, allSets[0].as.Pos(), "the location `%s` does not vary with a loop around `%s`: the same (Index, Version) pair could be emitted twice", src(r.P.Fset, allSets[0].rhs), src(r.P.Fset, par[use]))
				return vars
			case pv == pl:
				r.Bad(c, call.Pos(), "the child version `%s` and the location `%s` vary with the same loop (`%s`): versions are paired with locations instead of one update per (location, version)", src(r.P.Fset, sel.X), src(r.P.Fset, allSets[0].rhs), c12LoopText(r.P.Fset, loops[pv]))
				return vars
			case pv+pl != 1:
				extra := 0
				for extra == pv || extra == pl {
					extra++
				}
				r.Bad(c, use.Pos(), "`%s` runs inside `%s`, which varies neither the child version nor the location: the same (Index, Version) pair is emitted once per iteration", src(r.P.Fset, par[use]), c12LoopText(r.P.Fset, loops[extra]))
				return vars
			}
			okText = fmt.Sprintf("version varies with `%s`, location with `%s`", c12LoopText(r.P.Fset, loops[pv]), c12LoopText(r.P.Fset, loops[pl]))
		}
	}
	r.OK(c, call.Pos(), "%s := %s; Index set from the location's %s before any use; %s, the two innermost loops around every use: one update per (location, child version)",
		u.Name(), src(r.P.Fset, call), cx.pos.Name(), okText)
	return vars
}

func c12LoopText(fset *token.FileSet, l ast.Stmt) string { return c12LoopHeader(fset, l) }

// isSource: expression a (an osm.Update appended to a list) is a checked Update() value: a source variable, or the
// result of a helper of the package all of whose returns return one.
func (cx *c12KeyCx) isSource(f *c12Fn, a ast.Expr, sources map[types.Object]bool, depth int) (bool, string) {
	info := f.info()
	a = ast.Unparen(a)
	if o := objOf(info, a); o != nil {
		if sources[o] {
			return true, "is the checked result of Child.Update()"
		}
		if call, _, _ := c12CallDef(info, f.fi.Decl.Body, o); call != nil {
			return cx.isSource(f, call, sources, depth)
		}
		if rhs := c12SingleDef(info, f.fi.Decl.Body, o); rhs != nil {
			return cx.isSource(f, rhs, sources, depth)
		}
		return false, "is not produced by Child.Update()"
	}
	if call, ok := a.(*ast.CallExpr); ok && depth > 0 {
		h := cx.s.fn(callee(info, call))
		if h == nil {
			return false, "is not produced by Child.Update()"
		}
		n := 0
		okAll := true
		inspectNoLit(h.fi.Decl.Body, func(x ast.Node) bool {
			ret, isRet := x.(*ast.ReturnStmt)
			if !isRet {
				return true
			}
			n++
			_, v := c12ResultExpr(h, ret, 0)
			if v == nil || !sources[v] {
				if len(ret.Results) == 1 {
					if ok2, _ := cx.isSource(h, ret.Results[0], sources, depth-1); ok2 {
						return true
					}
				}
				okAll = false
			}
			return true
		})
		if n > 0 && okAll {
			return true, "is the result of " + h.fi.Name() + ", which returns the checked result of Child.Update()"
		}
		return false, "comes from " + h.fi.Name() + ", which does not return the result of Child.Update()"
	}
	return false, "is not produced by Child.Update() (" + strings.TrimSpace(src(cx.pk.Fset, a)) + ")"
}
