package rules

import (
	"go/ast"
	"go/token"
	"go/types"

	"osmcheck/core"
)

// c04X6: an XML marshal helper may leave without writing anything only when there is nothing to write:
// the early `return nil` is guarded by `p == nil` on the value being written, or by `len(x.F) == 0` where F is the
// only field of the value (the element would carry no information). Any other guard (for example "has no
// node/way/relation") drops values that the decoder would have read back: bounds, changesets, notes, users, or an
// allocated-but-empty block.
func c04X6(r *core.R) {
	pk := r.P.Pkg("")
	info := pk.TypesInfo
	// marshal functions: MarshalXML methods and the in-package functions they reach
	set := map[*types.Func]*FuncInfo{}
	var work []*FuncInfo
	for _, fi := range allFuncs(pk) {
		if fi.Obj.Name() == "MarshalXML" && fi.Obj.Type().(*types.Signature).Recv() != nil {
			set[fi.Obj] = fi
			work = append(work, fi)
		}
	}
	for len(work) > 0 {
		fi := work[len(work)-1]
		work = work[:len(work)-1]
		ast.Inspect(fi.Decl.Body, func(n ast.Node) bool {
			if call, ok := n.(*ast.CallExpr); ok {
				if fn := callee(info, call); fn != nil && fn.Pkg() == pk.Types && set[fn] == nil {
					// only helpers that take or own an *xml.Encoder
					sig := fn.Type().(*types.Signature)
					takes := false
					for i := 0; i < sig.Params().Len(); i++ {
						if namedPath(sig.Params().At(i).Type()) == "encoding/xml.Encoder" {
							takes = true
						}
					}
					if takes {
						if tf := findFunc(pk, funcName(fn)); tf != nil {
							set[fn] = tf
							work = append(work, tf)
						}
					}
				}
			}
			return true
		})
	}
	n := 0
	for _, fi := range set {
		// first emission
		first := token.Pos(1 << 40)
		ast.Inspect(fi.Decl.Body, func(x ast.Node) bool {
			if call, ok := x.(*ast.CallExpr); ok {
				fn := callee(info, call)
				if fn != nil && (isMethod(fn, "encoding/xml.Encoder", "Encode") || isMethod(fn, "encoding/xml.Encoder", "EncodeElement") || isMethod(fn, "encoding/xml.Encoder", "EncodeToken")) && call.Pos() < first {
					first = call.Pos()
				}
				if fn != nil && set[fn] != nil && call.Pos() < first {
					first = call.Pos()
				}
			}
			return true
		})
		for _, st := range fi.Decl.Body.List {
			ifs, ok := st.(*ast.IfStmt)
			if !ok || ifs.Pos() > first || len(ifs.Body.List) != 1 || ifs.Else != nil {
				continue
			}
			ret, ok := ifs.Body.List[0].(*ast.ReturnStmt)
			if !ok || len(ret.Results) != 1 {
				continue
			}
			if id, ok := ast.Unparen(ret.Results[0]).(*ast.Ident); !ok || id.Name != "nil" {
				continue
			}
			n++
			c := "skip-guard@" + fi.Name()
			be, ok := ast.Unparen(ifs.Cond).(*ast.BinaryExpr)
			okGuard, why := false, ""
			if ok && be.Op == token.EQL {
				if id, isId := ast.Unparen(be.Y).(*ast.Ident); isId && id.Name == "nil" {
					if o, _ := objOf(info, be.X).(*types.Var); o != nil {
						if _, isPtr := o.Type().Underlying().(*types.Pointer); isPtr {
							okGuard, why = true, "nothing is written only when `"+o.Name()+"` is nil"
						}
					}
				} else if v, okc := constInt(info, be.Y); okc && v == 0 {
					if la := lenCallArg(info, be.X); la != nil {
						if f := fieldOf(info, la); f != nil {
							if st, isSt := info.TypeOf(ast.Unparen(la).(*ast.SelectorExpr).X).Underlying().(*types.Struct); isSt && st.NumFields() == 1 {
								okGuard, why = true, "nothing is written only when the value's single field "+f.Name()+" is empty"
							}
						}
					}
				}
			}
			if okGuard {
				r.OK(c, ifs.Pos(), "`%s`: %s", src(r.P.Fset, ifs.Cond), why)
			} else {
				r.Bad(c, ifs.Pos(), "`if %s { return nil }` skips the whole element on a condition other than the value being absent: a non-nil value for which it holds (e.g. a block holding only bounds, changesets, notes or users, or an allocated empty block) is not written, so unmarshalling does not give the value back", src(r.P.Fset, ifs.Cond))
			}
		}
	}
	r.Stat("xml_marshal_functions", len(set))
	if n == 0 {
		r.Anchor("early `return nil` guards in the XML marshal helpers")
	}
}
