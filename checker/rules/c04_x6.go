package rules

import (
	"go/types"

	"osmcheck/core"
)

// c04X6: an XML writer may leave an element out only when there is nothing to write. Decided on observed behaviour:
// for every input that sets exactly one element field of the value, every path writes the element's own start token
// (the root element of a type with MarshalXML, the wrapper of a create/modify/delete/old/new block); with the block
// pointer nil nothing of the block is written and nothing is read through the pointer. A guard such as "has no
// node/way/relation" drops values the decoder would have read back (bounds, changesets, notes, users); it shows up as
// a path without the start token for the input that sets only, say, the bounds.
func c04X6(r *core.R) {
	c03Init(r)
	var v c04Verdicts
	nroots := 0
	for _, root := range c04Roots(r.P) {
		all, _ := c04Run(r.P, root, c04AllSet, "all set")
		writesRoot := false
		for _, tr := range all {
			if len(tr.rootTokens()) > 0 {
				writesRoot = true
			}
		}
		pos := root.fi.Decl.Pos()
		classes := c04Classify(r, root)
		if writesRoot {
			nroots++
			// (a) the root element itself is written whenever one field is set
			c := "written@" + root.tname
			n := 0
			for _, fc := range classes {
				targets := [][]*types.Var{fc.gopath}
				if len(fc.inner) > 0 {
					targets = nil
					for _, g := range fc.inner {
						targets = append(targets, append(append([]*types.Var{}, fc.gopath...), c04GoPathOf(g)...))
					}
				}
				for _, t := range targets {
					n++
					s := c04RunSingle(r, root, t)
					if s.aborted != "" {
						v.unknown(c, pos, "%s could not be explored: %s", root.name, s.aborted)
						continue
					}
					for _, tr := range s.traces {
						switch {
						case tr.path.End != "return":
							v.unknown(c, c04MissPos(tr, pos), "with only %s set a path of %s ends with %s %s", c04PathString(root.tname, t), root.name, tr.path.End, tr.path.Why)
						case !tr.hasWrapper(""):
							v.bad(c, c04MissPos(tr, pos), "%s writes nothing (%s) although %s is set: the element is skipped on a condition other than its value being absent, so unmarshalling does not give the value back", root.name, c04ForkText(r, tr), c04PathString(root.tname, t))
						}
					}
				}
			}
			v.ok(c, pos, "the element of %s is written on every path of each of the %d single-field inputs", root.tname, n)
		}
		// (b) wrapped blocks: written whenever one field of the body is set; absent (and nothing dereferenced) when nil
		for _, fc := range classes {
			if len(fc.inner) == 0 {
				continue
			}
			fname := c04PathString(root.tname, fc.gopath)
			c := "written@" + fname
			for _, g := range fc.inner {
				target := append(append([]*types.Var{}, fc.gopath...), c04GoPathOf(g)...)
				s := c04RunSingle(r, root, target)
				if s.aborted != "" {
					v.unknown(c, pos, "%s could not be explored: %s", root.name, s.aborted)
					continue
				}
				for _, tr := range s.traces {
					if !tr.hasWrapper(fc.xf.Name) {
						v.bad(c, c04MissPos(tr, pos), "%s does not write the <%s> block (%s) although %s is not nil and holds %s: the block is skipped on a condition other than the value being absent (e.g. \"has no node/way/relation\"), so its bounds, changesets, notes or users are dropped and unmarshalling does not give the value back", root.name, fc.xf.Name, c04ForkText(r, tr), fname, g.Var.Name())
					}
				}
			}
			v.ok(c, pos, "the <%s> block is written on every path of each of the %d inputs that set one field of %s", fc.xf.Name, len(fc.inner), fname)
			if _, isPtr := fc.xf.Var.Type().Underlying().(*types.Pointer); !isPtr {
				continue
			}
			ca := "absent@" + fname
			trs, ab := c04Run(r.P, root, c04Nil(fc.gopath), "nil "+fname)
			if ab != "" {
				v.unknown(ca, pos, "%s could not be explored: %s", root.name, ab)
				continue
			}
			for _, tr := range trs {
				for _, e := range tr.nilderef {
					v.bad(ca, e.Node.Pos(), "with %s nil, %s dereferences it (%s): marshalling panics", fname, root.name, e.Why)
				}
				if tr.path.End == "panic" {
					v.bad(ca, tr.path.Pos, "with %s nil, a path of %s panics", fname, root.name)
				}
				if tr.hasWrapper(fc.xf.Name) {
					v.bad(ca, pos, "with %s nil, %s still writes a <%s> element: it is read back as an allocated empty value, not nil", fname, root.name, fc.xf.Name)
				}
			}
			v.ok(ca, pos, "with %s nil nothing of it is written and nothing is dereferenced through it", fname)
		}
	}
	v.emit(r)
	r.Stat("xml_roots_writing_their_element", nroots)
	if nroots == 0 {
		r.Anchor("MarshalXML methods of package osm that write their own start token")
	}
}
