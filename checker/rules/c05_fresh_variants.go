package rules

import "osmcheck/core"

// Mutants and silent variants for C05.J9 (fresh decode targets in the JSON readers).

const c05TagsDecodeHead = "func (ts *Tags) UnmarshalJSON(data []byte) error {\n\to := make(map[string]string)\n"

const c05TagsLoop = "\tfor k, v := range o {\n\t\ttags = append(tags, Tag{Key: k, Value: v})\n\t}\n"

var c05FreshMutants = []core.Mutant{
	// the shape of seed C05-f with a hand-rolled free list instead of sync.Pool (tag.go does not import sync): the
	// scratch map goes back to the list on every exit, but is only emptied on the success path
	{Name: "j9-scratch-map-from-free-list", File: "tag.go", Find: c05TagsDecodeHead,
		Replace:    "var tagMapFree []map[string]string\n\nfunc getTagMap() map[string]string {\n\tif n := len(tagMapFree); n > 0 {\n\t\tm := tagMapFree[n-1]\n\t\ttagMapFree = tagMapFree[:n-1]\n\t\treturn m\n\t}\n\treturn make(map[string]string)\n}\n\nfunc putTagMap(m map[string]string) {\n\ttagMapFree = append(tagMapFree, m)\n}\n\nfunc (ts *Tags) UnmarshalJSON(data []byte) error {\n\to := getTagMap()\n\tdefer putTagMap(o)\n",
		ExpectRule: "J9", ExpectConstruct: "fresh@Tags.UnmarshalJSON"},
	{Name: "j9-scratch-map-in-package-variable", File: "tag.go", Find: c05TagsDecodeHead,
		Replace:    "var tagScratch = map[string]string{}\n\nfunc (ts *Tags) UnmarshalJSON(data []byte) error {\n\to := tagScratch\n\tdefer func() {\n\t\tfor k := range o {\n\t\t\tdelete(o, k)\n\t\t}\n\t}()\n",
		ExpectRule: "J9", ExpectConstruct: "fresh@Tags.UnmarshalJSON"},
	{Name: "j9-way-nodes-partially-overwritten-in-place", File: "way.go", Find: "\tnodes := make(WayNodes, len(a))\n",
		Replace:    "\tnodes := *wn\n\tif cap(nodes) < len(a) {\n\t\tnodes = make(WayNodes, len(a))\n\t}\n\tnodes = nodes[:len(a)]\n",
		ExpectRule: "J9", ExpectConstruct: "fresh@WayNodes.UnmarshalJSON"},
}

// c05FreshBenign: a fresh target per call, spelled differently. (A pool whose map is emptied on every exit is not
// here: that it is empty is not something the rule can prove, it stays undecided.)
var c05FreshBenign = []core.Mutant{
	{Name: "j9-fresh-map-from-helper", File: "tag.go", Find: c05TagsDecodeHead,
		Replace: "func newTagMap() map[string]string {\n\treturn make(map[string]string)\n}\n\nfunc (ts *Tags) UnmarshalJSON(data []byte) error {\n\to := newTagMap()\n"},
	{Name: "j9-fresh-map-literal", File: "tag.go", Find: c05TagsDecodeHead,
		Replace: "func (ts *Tags) UnmarshalJSON(data []byte) error {\n\to := map[string]string{}\n"},
	{Name: "j9-ids-presized-fresh-slice", File: "way.go", Find: "\tvar a []int64\n\terr := unmarshalJSON(data, &a)\n",
		Replace: "\ta := make([]int64, 0, 16)\n\terr := unmarshalJSON(data, &a)\n"},
}
