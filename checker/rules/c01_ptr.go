package rules

import (
	"go/ast"
	"go/token"
	"go/types"
	"strings"

	"osmcheck/core"
)

// Indirect stores and indirect values in the provenance analysis (C01.R4):
//   - `*P = v` where P points at a field of an osm element: P is resolved by a field-based, flow-insensitive
//     points-to over the worker role (`&x.F` directly, through locals and parameters, and through pointer-typed
//     fields of structs of the package that are initialised in composite literals or by assignment — a "struct of
//     field pointers" handed to a shared decoder);
//   - a parameter of a function literal (a setter closure handed to a helper) is the argument the helper passes
//     when it calls its function-typed parameter, read in the context of the call that handed the closure over.

// c01PointerDests lists the element fields ("Type.Field") pointer expression p (read in fi) can point at.
func (t *c01Tracer) pointerDests(fi *FuncInfo, p ast.Expr, seen map[types.Object]bool, depth int) []string {
	info := t.info
	if depth > 5 || p == nil {
		return nil
	}
	p = ast.Unparen(p)
	var out []string
	add := func(ds []string) {
		for _, d := range ds {
			dup := false
			for _, o := range out {
				if o == d {
					dup = true
				}
			}
			if !dup {
				out = append(out, d)
			}
		}
	}
	switch x := p.(type) {
	case *ast.UnaryExpr:
		if x.Op != token.AND {
			return nil
		}
		if sel, ok := ast.Unparen(x.X).(*ast.SelectorExpr); ok {
			if f := fieldOf(info, sel); f != nil {
				tn := namedPath(info.TypeOf(sel.X))
				if strings.HasPrefix(tn, core.ModulePath+".") && !strings.Contains(tn[len(core.ModulePath)+1:], "/") {
					return []string{tn[strings.LastIndex(tn, ".")+1:] + "." + f.Name()}
				}
			}
		}
	case *ast.SelectorExpr:
		f := fieldOf(info, x)
		if f == nil || f.Pkg() != t.cm.m.pk.Types || seen[f] {
			return nil
		}
		seen[f] = true
		// everything stored into that field anywhere in the worker role
		for _, g := range t.cm.worker {
			g := g
			ast.Inspect(g.Decl.Body, func(n ast.Node) bool {
				switch s := n.(type) {
				case *ast.KeyValueExpr:
					if id, ok := s.Key.(*ast.Ident); ok && info.Uses[id] == types.Object(f) {
						add(t.pointerDests(g, s.Value, seen, depth+1))
					}
				case *ast.AssignStmt:
					if len(s.Lhs) == len(s.Rhs) {
						for i, l := range s.Lhs {
							if fieldOf(info, l) == f {
								add(t.pointerDests(g, s.Rhs[i], seen, depth+1))
							}
						}
					}
				}
				return true
			})
		}
	case *ast.Ident:
		o := objOf(info, x)
		if o == nil || seen[o] {
			return nil
		}
		seen[o] = true
		if idx := c01ParamIndex(info, fi, o); idx >= 0 {
			for _, caller := range t.cm.worker {
				caller := caller
				ast.Inspect(caller.Decl.Body, func(n ast.Node) bool {
					if call, ok := n.(*ast.CallExpr); ok && callee(info, call) == fi.Obj && idx < len(call.Args) {
						add(t.pointerDests(caller, call.Args[idx], seen, depth+1))
					}
					return true
				})
			}
			return out
		}
		if lit, k := t.funcLitParam(fi, o); lit != nil {
			// parameter of a closure: what the receiving helper passes
			t.closureArgs(fi, lit, k, func(g *FuncInfo, _ *ast.CallExpr, arg ast.Expr) {
				add(t.pointerDests(g, arg, seen, depth+1))
			})
			return out
		}
		for _, d := range c01Defs(info, fi.Decl.Body, o) {
			if d.rhs != nil && d.index < 0 {
				add(t.pointerDests(fi, d.rhs, seen, depth+1))
			}
		}
	}
	return out
}

// funcLitParam: o is the k-th parameter of a function literal inside fi.
func (t *c01Tracer) funcLitParam(fi *FuncInfo, o types.Object) (*ast.FuncLit, int) {
	info := t.info
	var res *ast.FuncLit
	k := -1
	ast.Inspect(fi.Decl.Body, func(n ast.Node) bool {
		lit, ok := n.(*ast.FuncLit)
		if !ok || lit.Type.Params == nil {
			return true
		}
		i := 0
		for _, fld := range lit.Type.Params.List {
			for _, nm := range fld.Names {
				if info.Defs[nm] == o {
					res, k = lit, i
				}
				i++
			}
		}
		return true
	})
	return res, k
}

// closureArgs calls visit for every argument that reaches the k-th parameter of function literal lit (inside fi):
// lit is handed (directly, or through a local defined once) to a function g of the package as argument j; inside g
// every call of its j-th parameter passes its k-th argument to the closure. visit gets g, the call that handed the
// closure over (the context for reading g) and the argument expression inside g.
func (t *c01Tracer) closureArgs(fi *FuncInfo, lit *ast.FuncLit, k int, visit func(g *FuncInfo, handover *ast.CallExpr, arg ast.Expr)) {
	info := t.info
	pk := t.cm.m.pk
	par := c01FnOf(t.cm.p, fi).par
	isLit := func(e ast.Expr) bool {
		e = ast.Unparen(e)
		if e == ast.Expr(lit) {
			return true
		}
		if id, ok := e.(*ast.Ident); ok {
			if rhs := c01SingleDef(info, fi.Decl.Body, objOf(info, id)); rhs != nil && ast.Unparen(rhs) == ast.Expr(lit) {
				return true
			}
		}
		return false
	}
	_ = par
	ast.Inspect(fi.Decl.Body, func(n ast.Node) bool {
		call, ok := n.(*ast.CallExpr)
		if !ok {
			return true
		}
		g := c01Callee(pk, call)
		if g == nil {
			return true
		}
		for j, a := range call.Args {
			if !isLit(a) {
				continue
			}
			gp := c01Param(info, g, j)
			if gp == nil {
				continue
			}
			ast.Inspect(g.Decl.Body, func(m ast.Node) bool {
				inner, ok := m.(*ast.CallExpr)
				if !ok || objOf(info, inner.Fun) != gp || k >= len(inner.Args) {
					return true
				}
				visit(g, call, inner.Args[k])
				return true
			})
		}
		return true
	})
}
