package rules

import (
	"go/ast"
	"go/constant"
	"go/token"
	"go/types"

	"golang.org/x/tools/go/cfg"

	"osmcheck/core"
)

// C06.E5, the required-features gate in general form. The gate is a loop over the header's required features
// (`for _, f := range R`, `for i := range R`, `for i := 0; i < len(R); i++`) in the header decoder or a helper it calls.
// Inside the loop, a return that is only reached when the lookup of the current feature in the capability table
// failed either returns an error (direct gate) or reports the failure to its caller by its result values (e.g.
// `return R[i], true`, the exhausted exit returning `"", false`): then the caller, evaluated with those result values,
// must reach nothing but error returns. In both forms every success return of the header decoder must lie behind the
// exhausted exit of the loop.

type c06GateLoop struct {
	fi       *FuncInfo
	f        *c01Fn
	loop     ast.Stmt
	failRets []*ast.ReturnStmt
	direct   bool
}

// c06FindGateLoop searches the functions reachable from the header decoder for the gate loop.
func c06FindGateLoop(r *core.R, m *pbfModel, hdr, blobData *FuncInfo, fromRequired func(*c01Fn, ast.Expr) bool) *c06GateLoop {
	info := m.info
	var found *c06GateLoop
	for _, g := range c01Reachable(r.P, hdr) {
		if blobData != nil && g.Obj == blobData.Obj {
			continue
		}
		f := c01FnOf(r.P, g)
		ast.Inspect(g.Decl.Body, func(n ast.Node) bool {
			var coll ast.Expr
			var body *ast.BlockStmt
			var valObj, idxObj types.Object
			switch s := n.(type) {
			case *ast.RangeStmt:
				coll, body = s.X, s.Body
				if s.Value != nil {
					valObj = objOf(info, s.Value)
				}
				if s.Key != nil {
					idxObj = objOf(info, s.Key)
				}
			case *ast.ForStmt:
				if s.Cond == nil {
					return true
				}
				l, op, rr, ok := cmpNorm(s.Cond)
				if !ok || op != token.LSS {
					return true
				}
				la := c06LenArg(info, c01StripConv(info, rr))
				if la == nil {
					return true
				}
				// the loop visits every feature: it starts at 0 and steps by one
				init, okI := s.Init.(*ast.AssignStmt)
				post, okP := s.Post.(*ast.IncDecStmt)
				if !okI || !okP || post.Tok != token.INC || len(init.Rhs) != 1 {
					return true
				}
				if v, okc := constInt(info, init.Rhs[0]); !okc || v != 0 {
					return true
				}
				coll, body, idxObj = la, s.Body, objOf(info, c01StripConv(info, l))
			default:
				return true
			}
			if coll == nil || !fromRequired(f, coll) {
				return true
			}
			isElem := func(e ast.Expr) bool {
				e = ast.Unparen(c01Expand(info, f.body, e))
				if o := objOf(info, e); o != nil && o == valObj {
					return true
				}
				if ix, ok := e.(*ast.IndexExpr); ok && idxObj != nil && objOf(info, ix.Index) == idxObj && c01Same(info, f.body, ix.X, coll) {
					return true
				}
				return false
			}
			isLookup := func(e ast.Expr) bool {
				ix, ok := ast.Unparen(e).(*ast.IndexExpr)
				if !ok || !isElem(ix.Index) {
					return false
				}
				_, isMap := info.TypeOf(ix.X).Underlying().(*types.Map)
				return isMap
			}
			gl := &c06GateLoop{fi: g, f: f, loop: n.(ast.Stmt), direct: true}
			ast.Inspect(body, func(x ast.Node) bool {
				if _, isLit := x.(*ast.FuncLit); isLit {
					return false
				}
				ret, ok := x.(*ast.ReturnStmt)
				if !ok {
					return true
				}
				failed := false
				for _, fact := range f.factsAtPos(ret.Pos()) {
					if fact.val {
						continue
					}
					e := ast.Unparen(fact.expr)
					if isLookup(e) {
						failed = true
					}
					if id, ok := e.(*ast.Ident); ok {
						for _, d := range c01Defs(info, g.Decl.Body, objOf(info, id)) {
							if d.rhs != nil && isLookup(d.rhs) && (d.index < 0 || d.index == 1 || d.index == 0) {
								failed = true
							}
						}
					}
				}
				if !failed {
					return true
				}
				gl.failRets = append(gl.failRets, ret)
				if len(ret.Results) == 0 || !c01IsErrNonNilExpr(info, ret.Results[len(ret.Results)-1], f.factsAtPos(ret.Pos())) {
					gl.direct = false
				}
				return true
			})
			if len(gl.failRets) > 0 && found == nil {
				found = gl
			}
			return true
		})
	}
	return found
}

// doneBlocks: the blocks control reaches when the gate loop is exhausted.
func (gl *c06GateLoop) doneBlocks() []*cfg.Block {
	var out []*cfg.Block
	for _, b := range gl.f.g.Blocks {
		if (b.Kind == cfg.KindRangeDone || b.Kind == cfg.KindForDone) && b.Stmt == gl.loop {
			out = append(out, b)
		}
	}
	return out
}

// c06SignalGate checks the indirect form: at every call of the gate function reachable from the header decoder, the
// result values of a failing return lead to error returns only. It returns "" when that holds, else the reason.
func c06SignalGate(r *core.R, m *pbfModel, hdr *FuncInfo, gl *c06GateLoop) string {
	info := m.info
	ncall := 0
	reason := ""
	for _, caller := range c01Reachable(r.P, hdr) {
		cf0 := c01FnOf(r.P, caller)
		ast.Inspect(caller.Decl.Body, func(y ast.Node) bool {
			as, ok := y.(*ast.AssignStmt)
			if !ok || len(as.Rhs) != 1 || reason != "" {
				return true
			}
			call, ok := ast.Unparen(as.Rhs[0]).(*ast.CallExpr)
			if !ok || callee(info, call) != gl.fi.Obj {
				return true
			}
			ncall++
			cf := cf0.innermost(call)
			for _, fr := range gl.failRets {
				env := map[types.Object]constant.Value{}
				nilness := map[types.Object]bool{} // error-typed result known non-nil
				for i, l := range as.Lhs {
					o := objOf(info, l)
					if o == nil || i >= len(fr.Results) {
						continue
					}
					if tv, okc := info.Types[fr.Results[i]]; okc && tv.Value != nil {
						env[o] = tv.Value
					} else if isErrorType(o.Type()) && c01IsErrNonNilExpr(info, fr.Results[i], gl.f.factsAtPos(fr.Pos())) {
						nilness[o] = true
					}
				}
				b, i := blockOf(cf.g, as.Pos())
				if b == nil {
					reason = "call site not located"
					return true
				}
				if !c06OnlyErrorsFrom(info, cf, b, i+1, env, nilness) {
					reason = "with the values `" + src(r.P.Fset, fr) + "` reports for an unsupported feature, " + caller.Name() + " can still return without an error"
				}
			}
			return true
		})
	}
	if ncall == 0 && reason == "" {
		reason = "the results of " + gl.fi.Name() + " are not assigned at a call site the rule can follow"
	}
	return reason
}

// c06OnlyErrorsFrom: from node i of block b, knowing the values in env (and the non-nil errors), every path ends in a
// return of a certainly non-nil error; a variable that is assigned again is no longer known.
func c06OnlyErrorsFrom(info *types.Info, f *c01Fn, b0 *cfg.Block, i0 int, env map[types.Object]constant.Value, nonNil map[types.Object]bool) bool {
	type st struct {
		b *cfg.Block
		i int
	}
	seen := map[*cfg.Block]bool{}
	work := []st{{b0, i0}}
	atom := func(a ast.Expr) c01Tri {
		a = ast.Unparen(a)
		if o := objOf(info, a); o != nil {
			if v, ok := env[o]; ok && v.Kind() == constant.Bool {
				return c01Bool(constant.BoolVal(v))
			}
		}
		if x, neq, ok := c01NilCmp(a); ok {
			if o := objOf(info, x); o != nil && nonNil[o] {
				return c01Bool(neq)
			}
		}
		if l, op, rr, ok := cmpNorm(a); ok && (op == token.EQL || op == token.NEQ) {
			for _, pr := range [][2]ast.Expr{{l, rr}, {rr, l}} {
				o := objOf(info, pr[0])
				tv, okc := info.Types[pr[1]]
				if v, known := env[o]; o != nil && known && okc && tv.Value != nil {
					return c01Bool(constant.Compare(v, token.EQL, tv.Value) == (op == token.EQL))
				}
			}
		}
		return c01U
	}
	for len(work) > 0 {
		cur := work[len(work)-1]
		work = work[:len(work)-1]
		returned := false
		for j := cur.i; j < len(cur.b.Nodes); j++ {
			n := cur.b.Nodes[j]
			if ret, ok := n.(*ast.ReturnStmt); ok {
				if len(ret.Results) == 0 {
					return false
				}
				last := ret.Results[len(ret.Results)-1]
				if o := objOf(info, last); !(o != nil && nonNil[o]) && !c01IsErrNonNilExpr(info, last, f.factsAtPos(ret.Pos())) {
					return false
				}
				returned = true
				break
			}
			if as, ok := n.(*ast.AssignStmt); ok {
				for _, l := range as.Lhs {
					if o := objOf(info, l); o != nil {
						delete(env, o)
						delete(nonNil, o)
					}
				}
			}
		}
		if returned {
			continue
		}
		if len(cur.b.Succs) == 0 {
			if c01IsNormalExit(f, cur.b) {
				return false
			}
			continue
		}
		v := c01U
		if len(cur.b.Succs) == 2 {
			if cond := f.condOf(cur.b); cond != nil {
				v = c01Eval(info, cond, atom)
			}
		}
		for si, nb := range cur.b.Succs {
			if (si == 0 && v == c01F) || (si == 1 && v == c01T) {
				continue
			}
			if !seen[nb] {
				seen[nb] = true
				work = append(work, st{nb, 0})
			}
		}
	}
	return true
}

// c06GateProtects: every success return of fi lies behind the exhausted exit of the gate loop (in fi itself, or in a
// function it calls on the way).
func c06GateProtects(r *core.R, m *pbfModel, fi *FuncInfo, gl *c06GateLoop, depth int) bool {
	info := m.info
	f := c01FnOf(r.P, fi)
	var doms []*cfg.Block
	if fi.Obj == gl.fi.Obj {
		if !gl.direct {
			return true // what its results mean to the caller is decided by c06SignalGate
		}
		doms = gl.doneBlocks()
	} else if depth < 3 {
		for _, b := range f.g.Blocks {
			if !b.Live {
				continue
			}
			for _, n := range b.Nodes {
				for _, call := range c01NodeCalls(f, n) {
					tf := c01Callee(f.pk, call)
					if tf == nil || tf.Obj == fi.Obj {
						continue
					}
					reaches := false
					for _, g := range c01Reachable(r.P, tf) {
						if g.Obj == gl.fi.Obj {
							reaches = true
						}
					}
					if reaches && c06GateProtects(r, m, tf, gl, depth+1) {
						doms = append(doms, b)
					}
				}
			}
		}
	}
	okAll, n := true, 0
	ast.Inspect(fi.Decl.Body, func(x ast.Node) bool {
		if _, ok := x.(*ast.FuncLit); ok {
			return false
		}
		ret, ok := x.(*ast.ReturnStmt)
		if !ok {
			return true
		}
		if len(ret.Results) > 0 && c01IsErrNonNilExpr(info, ret.Results[len(ret.Results)-1], f.factsAtPos(ret.Pos())) {
			return true
		}
		n++
		rb := f.blockOf(ret.Pos())
		dominated := false
		for _, d := range doms {
			if rb == d || f.dom[rb][d] {
				dominated = true
			}
		}
		if !dominated {
			okAll = false
		}
		return true
	})
	return okAll && n > 0
}
