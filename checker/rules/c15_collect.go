package rules

import (
	"go/ast"
	"go/token"
	"go/types"
)

// ---------------------------------------------------------------- collectors (pending list / filter result)

// collector: eff (the effects of the loop body under the given orders) is a single statement `P = append(P, elem)`
// with P a plain variable, and every path of the body executes it under each of the orders.
func (w *c15World) collector(site c15LoopSite, eff []ast.Node, ords []c15Ord) (types.Object, ast.Node, string) {
	P := w.r.P
	if len(eff) == 0 {
		return nil, nil, "nothing is done with the update"
	}
	// besides the append there may be "allocate on first use" statements: `X = <empty list>` under a test that X is
	// still empty (checked below, once X is known)
	var lazy []*ast.AssignStmt
	var rest []ast.Node
	for _, n := range eff {
		if x, ok := n.(*ast.AssignStmt); ok && x.Tok == token.ASSIGN && len(x.Lhs) == 1 && len(x.Rhs) == 1 && w.emptyList(x.Rhs[0]) {
			lazy = append(lazy, x)
			continue
		}
		rest = append(rest, n)
	}
	if len(rest) != 1 {
		if len(rest) == 0 {
			return nil, nil, "nothing is appended"
		}
		return nil, nil, "more than one effect (`" + src(P.Fset, rest[0]) + "`, `" + src(P.Fset, rest[1]) + "`)"
	}
	as, ok := rest[0].(*ast.AssignStmt)
	if !ok || len(as.Lhs) != 1 || len(as.Rhs) != 1 || as.Tok != token.ASSIGN {
		return nil, nil, "`" + src(P.Fset, rest[0]) + "` is not `X = append(X, u)`"
	}
	call, ok := ast.Unparen(as.Rhs[0]).(*ast.CallExpr)
	if !ok || builtinName(w.info, call) != "append" || len(call.Args) != 2 || call.Ellipsis.IsValid() {
		return nil, nil, "`" + src(P.Fset, as) + "` is not `X = append(X, u)`"
	}
	lp := w.pathOf(site.env, as.Lhs[0], true)
	ap := w.pathOf(site.env, call.Args[0], true)
	if lp == nil || len(lp.steps) != 0 || !lp.eq(ap) {
		return nil, nil, "`" + src(P.Fset, as) + "` does not append to the list it assigns"
	}
	if !w.isElem(site.env, site.loop, w.pathOf(site.env, call.Args[1], false)) {
		return nil, nil, "`" + src(P.Fset, as) + "` does not append the loop's own element"
	}
	if lp.root.Parent() == nil || !c15Within(site.loop.fn.fi.Decl, c15PosNode(lp.root.Pos())) {
		return nil, nil, "`" + src(P.Fset, as) + "` appends to a variable that is not local to " + site.loop.fn.name()
	}
	for _, lz := range lazy {
		if objOf(w.info, lz.Lhs[0]) != lp.root || !w.knownEmptyAt(site.loop.fn, lz.Pos(), lp.root) {
			return nil, nil, "`" + src(P.Fset, lz) + "` is a second effect: it is not the allocation of the same list under a test that the list is still empty"
		}
	}
	for _, ord := range ords {
		o := &c15Oracle{w: w, loop: site.loop, lenv: site.env, ord: ord}
		wk := w.walk(site.loop.entry, 0, c15WalkOpt{env: site.env, loop: site.loop, oracle: o, barrier: func(n ast.Node) bool { return n == ast.Node(as) }})
		if wk.head {
			return nil, nil, "an update stamped " + ord.String() + " can reach the end of the loop body without `" + src(P.Fset, as) + "`"
		}
	}
	return lp.root, as, ""
}

type c15PosNode token.Pos

func (p c15PosNode) Pos() token.Pos { return token.Pos(p) }
func (p c15PosNode) End() token.Pos { return token.Pos(p) }

// emptyList: e evaluates to an empty list: nil, T(nil), make(T, 0, …), an empty composite literal.
func (w *c15World) emptyList(e ast.Expr) bool {
	e = ast.Unparen(e)
	if isNilIdent(e) {
		return true
	}
	switch x := e.(type) {
	case *ast.CompositeLit:
		return len(x.Elts) == 0
	case *ast.CallExpr:
		if tv, ok := w.info.Types[x.Fun]; ok && tv.IsType() && len(x.Args) == 1 {
			return isNilIdent(ast.Unparen(x.Args[0]))
		}
		if builtinName(w.info, x) == "make" && len(x.Args) >= 2 {
			k, ok := constInt(w.info, x.Args[1])
			return ok && k == 0
		}
	}
	return false
}

// knownEmptyAt: a controlling test at pos in f establishes that list variable P is empty (`P == nil`, `len(P) == 0`,
// `len(P) < 1`, `!(len(P) > 0)` …): giving P an empty value there loses nothing ("allocate on first use").
func (w *c15World) knownEmptyAt(f *c15Fn, pos token.Pos, P types.Object) bool {
	isP := func(e ast.Expr) bool { return e != nil && objOf(w.info, ast.Unparen(e)) == P }
	for _, gf := range factsAtPos(w.info, f.g, f.dom, pos) {
		l, op, r, ok := cmpNorm(gf.expr)
		if !ok {
			continue
		}
		zero := func(e ast.Expr, k int64) bool { v, ok := constInt(w.info, e); return ok && v == k }
		switch {
		case (op == token.EQL && gf.val) || (op == token.NEQ && !gf.val):
			if (isP(l) && isNilIdent(r)) || (isP(r) && isNilIdent(l)) ||
				(isP(lenCallArg(w.info, l)) && zero(r, 0)) || (isP(lenCallArg(w.info, r)) && zero(l, 0)) {
				return true
			}
		case op == token.LSS && gf.val: // len(P) < 1
			if isP(lenCallArg(w.info, l)) && zero(r, 1) {
				return true
			}
		case op == token.LSS && !gf.val: // !(0 < len(P))
			if isP(lenCallArg(w.info, r)) && zero(l, 0) {
				return true
			}
		case op == token.LEQ && gf.val: // len(P) <= 0
			if isP(lenCallArg(w.info, l)) && zero(r, 0) {
				return true
			}
		}
	}
	return false
}

// otherAssigns: besides node, P is only ever given an empty value (declaration without value, nil, make(T, 0, …),
// an empty composite literal) — before the scan loop, or at a point where P is known to be still empty (lazy
// allocation on first use) — and its address is never taken. Returns "" or the offending source.
func (w *c15World) otherAssigns(f *c15Fn, P types.Object, node ast.Node, scan *c15Loop) string {
	bad := ""
	empty := w.emptyList
	ast.Inspect(f.fi.Decl.Body, func(n ast.Node) bool {
		if bad != "" {
			return false
		}
		switch x := n.(type) {
		case *ast.AssignStmt:
			if ast.Node(x) == node {
				return true
			}
			for i, l := range x.Lhs {
				if objOf(w.info, l) != P {
					continue
				}
				if len(x.Lhs) != len(x.Rhs) || !empty(x.Rhs[i]) {
					bad = src(w.r.P.Fset, x)
				} else if scan != nil && x.Pos() > scan.pos() && !w.knownEmptyAt(f, x.Pos(), P) {
					bad = src(w.r.P.Fset, x) + " (resets the list after the scan has started, not under a test that the list is still empty)"
				}
			}
		case *ast.ValueSpec:
			for i, nm := range x.Names {
				if w.info.Defs[nm] != P {
					continue
				}
				if len(x.Values) == 0 {
					continue
				}
				if len(x.Values) != len(x.Names) || !empty(x.Values[i]) {
					bad = src(w.r.P.Fset, x)
				}
			}
		case *ast.UnaryExpr:
			if x.Op == token.AND && objOf(w.info, x.X) == P {
				bad = src(w.r.P.Fset, x)
			}
		case *ast.IncDecStmt:
			if objOf(w.info, x.X) == P {
				bad = src(w.r.P.Fset, x)
			}
		case *ast.RangeStmt:
			if (x.Key != nil && objOf(w.info, x.Key) == P) || (x.Value != nil && objOf(w.info, x.Value) == P) {
				bad = src(w.r.P.Fset, x)
			}
		}
		return true
	})
	return bad
}
