package rules

import (
	"go/ast"
	"go/token"
	"go/types"
)

// ---------------------------------------------------------------- collectors (pending list / filter result)

// collector: eff (the effects of the loop body under the given orders) is a single statement `P = append(P, elem)`
// with P a plain variable, and every path of the body executes it under each of the orders.
func (w *c15World) collector(site c15LoopSite, eff []ast.Node, ords []c15Ord) (types.Object, ast.Node, string) {
	P := w.r.P
	if len(eff) == 0 {
		return nil, nil, "nothing is done with the update"
	}
	if len(eff) != 1 {
		return nil, nil, "more than one effect (`" + src(P.Fset, eff[0]) + "`, `" + src(P.Fset, eff[1]) + "`)"
	}
	as, ok := eff[0].(*ast.AssignStmt)
	if !ok || len(as.Lhs) != 1 || len(as.Rhs) != 1 || as.Tok != token.ASSIGN {
		return nil, nil, "`" + src(P.Fset, eff[0]) + "` is not `X = append(X, u)`"
	}
	call, ok := ast.Unparen(as.Rhs[0]).(*ast.CallExpr)
	if !ok || builtinName(w.info, call) != "append" || len(call.Args) != 2 || call.Ellipsis.IsValid() {
		return nil, nil, "`" + src(P.Fset, as) + "` is not `X = append(X, u)`"
	}
	lp := w.pathOf(site.env, as.Lhs[0], true)
	ap := w.pathOf(site.env, call.Args[0], true)
	if lp == nil || len(lp.steps) != 0 || !lp.eq(ap) {
		return nil, nil, "`" + src(P.Fset, as) + "` does not append to the list it assigns"
	}
	if !w.isElem(site.env, site.loop, w.pathOf(site.env, call.Args[1], false)) {
		return nil, nil, "`" + src(P.Fset, as) + "` does not append the loop's own element"
	}
	if lp.root.Parent() == nil || !c15Within(site.loop.fn.fi.Decl, c15PosNode(lp.root.Pos())) {
		return nil, nil, "`" + src(P.Fset, as) + "` appends to a variable that is not local to " + site.loop.fn.name()
	}
	for _, ord := range ords {
		o := &c15Oracle{w: w, loop: site.loop, lenv: site.env, ord: ord}
		wk := w.walk(site.loop.entry, 0, c15WalkOpt{env: site.env, loop: site.loop, oracle: o, barrier: func(n ast.Node) bool { return n == ast.Node(as) }})
		if wk.head {
			return nil, nil, "an update stamped " + ord.String() + " can reach the end of the loop body without `" + src(P.Fset, as) + "`"
		}
	}
	return lp.root, as, ""
}

type c15PosNode token.Pos

func (p c15PosNode) Pos() token.Pos { return token.Pos(p) }
func (p c15PosNode) End() token.Pos { return token.Pos(p) }

// otherAssigns: besides node, P is only ever given an empty value (declaration without value, nil, make(T, 0, …),
// an empty composite literal) and its address is never taken. Returns "" or the offending source.
func (w *c15World) otherAssigns(f *c15Fn, P types.Object, node ast.Node) string {
	bad := ""
	empty := func(e ast.Expr) bool {
		e = ast.Unparen(e)
		if isNilIdent(e) {
			return true
		}
		switch x := e.(type) {
		case *ast.CompositeLit:
			return len(x.Elts) == 0
		case *ast.CallExpr:
			if tv, ok := w.info.Types[x.Fun]; ok && tv.IsType() && len(x.Args) == 1 {
				return isNilIdent(ast.Unparen(x.Args[0]))
			}
			if builtinName(w.info, x) == "make" && len(x.Args) >= 2 {
				k, ok := constInt(w.info, x.Args[1])
				return ok && k == 0
			}
		}
		return false
	}
	ast.Inspect(f.fi.Decl.Body, func(n ast.Node) bool {
		if bad != "" {
			return false
		}
		switch x := n.(type) {
		case *ast.AssignStmt:
			if ast.Node(x) == node {
				return true
			}
			for i, l := range x.Lhs {
				if objOf(w.info, l) != P {
					continue
				}
				if len(x.Lhs) != len(x.Rhs) || !empty(x.Rhs[i]) {
					bad = src(w.r.P.Fset, x)
				}
			}
		case *ast.ValueSpec:
			for i, nm := range x.Names {
				if w.info.Defs[nm] != P {
					continue
				}
				if len(x.Values) == 0 {
					continue
				}
				if len(x.Values) != len(x.Names) || !empty(x.Values[i]) {
					bad = src(w.r.P.Fset, x)
				}
			}
		case *ast.UnaryExpr:
			if x.Op == token.AND && objOf(w.info, x.X) == P {
				bad = src(w.r.P.Fset, x)
			}
		case *ast.IncDecStmt:
			if objOf(w.info, x.X) == P {
				bad = src(w.r.P.Fset, x)
			}
		case *ast.RangeStmt:
			if (x.Key != nil && objOf(w.info, x.Key) == P) || (x.Value != nil && objOf(w.info, x.Value) == P) {
				bad = src(w.r.P.Fset, x)
			}
		}
		return true
	})
	return bad
}
