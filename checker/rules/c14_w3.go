package rules

import (
	"fmt"
	"go/ast"
	"go/constant"
	"go/types"

	"osmcheck/core"
)

// ---------------------------------------------------------------------------
// W3 cycle cut, termination, histories not found, error propagation

// errorHandedOn: the value returned by exit state s is known to be non-nil on this path, or is built from the error value with the given term key.
func (m *c14Model) errorHandedOn(g *c14Graph, s *c14State, errKey string) bool {
	abs, v, _ := m.exitVal(g, s)
	return abs == c14NonNil || (v != nil && abs != c14Nil && v.mentions(errKey))
}

func c14W3(r *core.R) {
	m := c14Get(r)
	if m == nil {
		return
	}
	g, wf, fs, fn := m.wg, m.walkFacts(), r.P.Fset, m.walk.Name()
	info := m.info
	entry := []*c14State{g.entry}
	recNodes := m.recNodes()

	// parameters are never reassigned (the scan and the append see the caller's path, the tests see the caller's id)
	c := "params-stable@dfs"
	w := c14Writes(info, m.walk.Decl.Body, m.idParam)
	regrown := 0
	for _, pw := range c14Writes(info, m.walk.Decl.Body, m.pathParam) {
		// `path = <same length, same elements>` (capacity grown once, re-sliced) leaves the ancestors as they are
		same := false
		if as, ok := pw.(*ast.AssignStmt); ok && len(as.Lhs) == 1 && len(as.Rhs) == 1 && objOf(info, as.Lhs[0]) == types.Object(m.pathParam) {
			for _, n := range g.byAst[as] {
				if len(g.byNode[n]) > 0 {
					same = m.pathLike(g, g.canon(n.ctx, as.Rhs[0], n), 0)
					if !same {
						break
					}
				}
			}
		}
		if same {
			regrown++
		} else {
			w = append(w, pw)
		}
	}
	if len(w) > 0 {
		r.Bad(c, w[0].Pos(), "`%s` overwrites a parameter of %s: the cycle scan / path extension no longer work on the ancestors handed in by the caller", src(fs, w[0]), fn)
	} else if regrown > 0 {
		r.OK(c, m.walk.Decl.Pos(), "parameter %s is never assigned; %s is only ever replaced by a slice with the same length and the same elements (%d assignment(s): re-slice / copy into a larger backing array)", m.idParam.Name(), m.pathParam.Name(), regrown)
	} else {
		r.OK(c, m.walk.Decl.Pos(), "parameters %s and %s are never assigned, incremented or address-taken in %s", m.idParam.Name(), m.pathParam.Name(), fn)
	}

	if len(wf.recs) == 0 {
		r.Bad("path-arg@dfs", m.walk.Decl.Pos(), "%s never calls itself", fn)
	}
	if len(g.recursive) > 0 {
		r.Unknown("recursion@dfs", g.recursive[0].Pos(), "`%s` re-enters a function that is already being walked without going through %s: this second recursion is not modelled (termination and order are only argued for the recursion through %s)", src(fs, g.recursive[0]), fn, fn)
	}
	for _, rec := range wf.recs {
		call := rec.call
		ordArg := m.walkArg(call, m.ordParam)
		if rec.id == nil || rec.path == nil || ordArg == nil || !m.isOrd(g, g.canon(rec.n.ctx, ordArg, rec.n)) {
			r.Unknown("path-arg@dfs", call.Pos(), "recursive call `%s` is not a plain call on the same ordering", src(fs, call))
			continue
		}
		x := rec.idVal

		// (a) path argument
		c = "path-arg@dfs"
		pv := g.canon(rec.n.ctx, rec.path, rec.n)
		switch {
		case pv.k != 'C' || pv.name != "append" || len(pv.args) != 2 || !m.pathLike(g, pv.args[0], 0) || func() bool {
			ce, _ := pv.node.(*ast.CallExpr)
			return ce == nil || ce.Ellipsis.IsValid()
		}():
			r.Bad(c, rec.path.Pos(), "the recursive call passes `%s` as DFS path instead of `append(%s, %s)`: the id being entered is never recorded, the path scan never matches and a cycle (1→2→1) recurses without bound",
				src(fs, rec.path), m.pathParam.Name(), src(fs, rec.id))
		case g.sameValue(pv.args[1], pv.at, x, rec.n):
			r.OK(c, rec.path.Pos(), "`%s`: the callee's path is the caller's path plus the id being entered", src(fs, pv.node))
		case m.isIDParam(pv.args[1]):
			r.Unknown(c, rec.path.Pos(), "`%s` records the caller's id rather than the id being entered; this variant is not among the enumerated idioms (the emit-once argument on cycles relies on the entered id being on its own path)", src(fs, pv.node))
		default:
			r.Bad(c, rec.path.Pos(), "`%s` appends `%s`, but the id being entered (and compared by the path scan) is `%s`: the scan cannot recognise an ancestor, a cycle recurses without bound", src(fs, pv.node), src(fs, pv.args[1].node), src(fs, rec.id))
		}

		// (b) a complete scan of the path precedes the call, a match leaves the DFS
		c = "cycle-scan@dfs"
		scans, why := m.scansFor(x, rec.n)
		var good []*c14Scan
		match := c14Edges{}
		for _, sc := range scans {
			if sc.complete {
				good = append(good, sc)
			}
			for n, v := range sc.match {
				match[n] = v
			}
		}
		switch {
		case len(scans) == 0:
			r.Bad(c, call.Pos(), "before `%s`: %s", src(fs, call), why)
		case len(good) == 0:
			r.Bad(c, scans[0].loop.stmt.Pos(), "the comparison with the member id is not evaluated for every element of the path (an iteration of the scan at %s can go round without it): an ancestor can be missed and the cycle recursed into again", m.rel(scans[0].loop.stmt.Pos()))
		default:
			// from the start of the member's iteration (or the entry) the call is only reached through the exhaustion edge of a complete scan
			start := entry
			var stop func(*c14State) bool
			if len(rec.loops) > 0 {
				start, stop = g.loopEdges(rec.loops[0], 1), rec.loops[0].isHead
			}
			var dones []func(*c14State, c14Edge) bool
			for _, sc := range good {
				dones = append(dones, g.isDone(sc.loop))
			}
			after := g.reach(match.targets(g), nil, nil)
			switch {
			case g.reach(start, stop, c14SkipAny(dones...)).hasNode(rec.n):
				r.Bad(c, call.Pos(), "`%s` can be reached without exhausting the path scan at %s (break, or a path round it): some path recurses into a member without checking whether it is an ancestor (unbounded recursion on a cycle)", src(fs, call), m.rel(good[0].loop.stmt.Pos()))
			case after.hasNode(rec.n):
				r.Bad(c, call.Pos(), "when the path scan finds the member among the ancestors control still reaches `%s`: the cycle is not cut and the recursion is unbounded (graph 1→2→1)", src(fs, call))
			case after.hasNode(recNodes...) || after.hasNode(wf.emits...):
				what := "the emission"
				if after.hasNode(recNodes...) {
					what = "a further recursive call"
				}
				r.Bad(c, call.Pos(), "when the path scan finds the member among the ancestors the walk of the current id carries on (reaches %s) instead of leaving %s: on the cycle 1→2→1 with request [1] the inner activation for 1 (entered through 2) completes and emits 1, then the outer activation emits 1 again", what, fn)
			default:
				r.OK(c, call.Pos(), "`%s` is only reached through the exhaustion edge of the scan `for … range %s` (%s) that compares every element with `%s`; a match leaves %s without recursing or sending, so path elements stay pairwise distinct and the recursion depth is bounded by the number of distinct ids + 1",
					src(fs, call), m.pathParam.Name(), m.rel(good[0].loop.stmt.Pos()), src(fs, rec.id), fn)
			}
		}

		// (c) a non-nil result of the recursive call ends this activation with an error
		c = "rec-error@dfs"
		result := g.canon(rec.n.ctx, call, rec.n)
		nilEdges := c14Edges{}
		for _, n := range m.atoms(g) {
			if subj, nilWhen := c14NilTest(m.atomVal(g, n)); subj != nil && subj.key == result.key {
				nilEdges[n] = nilWhen
			}
		}
		if _, isRet := rec.n.ast.(*ast.ReturnStmt); isRet && rec.n.ctx == g.root {
			r.OK(c, call.Pos(), "the result of `%s` is returned as it is", src(fs, call))
			continue
		}
		onErr := g.reach(c14Succs(g.statesOf(rec.n), nil), nil, nilEdges.skip)
		swallowed := onErr.hasNode(recNodes...) || onErr.hasNode(wf.emits...)
		var badExit *c14State
		for _, s := range onErr.exits() {
			if !m.errorHandedOn(g, s, result.key) {
				badExit = s
			}
		}
		switch {
		case swallowed:
			r.Bad(c, call.Pos(), "the error of `%s` is not returned: a datasource error or the cancellation observed in a child is swallowed, the parent is emitted although its child was not, and the walk goes on after Close", src(fs, call))
		case badExit != nil:
			r.Bad(c, badExit.n.pos(), "after `%s` failed, `%s` does not hand a non-nil error to the caller: the failure of a child is reported as success and the parent's walk continues", src(fs, call), m.nodeSrc(badExit.n))
		default:
			r.OK(c, call.Pos(), "unless the result of `%s` is known to be nil, every continuation returns a non-nil error without recursing or emitting", src(fs, call))
		}
	}

	// (d) histories: not found → leave without emission and without error; other errors propagate
	if len(wf.history) != 1 {
		r.Anchor(fmt.Sprintf("exactly one call of the datasource's RelationHistory reached from %s (found %d)", fn, len(wf.history)))
		return
	}
	hc := wf.history[0]
	c = "notfound@dfs"
	switch {
	case len(wf.histVal.args) < 1 || !m.isIDParam(wf.histVal.args[len(wf.histVal.args)-1]):
		r.Bad(c, hc.call.Pos(), "`%s` does not look up the history of the id being walked", src(fs, hc.call))
	case len(wf.notFound) == 0:
		r.Bad(c, hc.call.Pos(), "the error of `%s` is never classified with the datasource's NotFound: a missing history either aborts the whole iteration or lets the id be emitted without a history", src(fs, hc.call))
	case g.reach(entry, nil, wf.notFound.inverse().skip).hasNode(wf.emits...):
		r.Bad(c, hc.call.Pos(), "the emission can be reached without taking the found edge of the NotFound test on the error of `%s`: a relation without history is emitted, or an id is emitted without consulting whether its history exists", src(fs, hc.call))
	default:
		reg := g.reach(wf.notFound.targets(g), nil, nil)
		var badExit *c14State
		for _, s := range reg.exits() {
			if abs, _, _ := m.exitVal(g, s); abs != c14Nil {
				badExit = s
			}
		}
		switch {
		case reg.hasNode(recNodes...):
			r.Bad(c, hc.call.Pos(), "after the NotFound test on the error of `%s` held, a recursive call is still reachable: a relation without history is walked", src(fs, hc.call))
		case badExit != nil:
			r.Bad(c, badExit.n.pos(), "a history that is not found must end this walk with a nil result; here it ends with `%s`, which aborts the iteration for a merely missing member", m.nodeSrc(badExit.n))
		default:
			r.OK(c, hc.call.Pos(), "every path to the emission takes the found edge of the NotFound test on the error of `%s`; the not-found edge returns nil and reaches neither the emission nor a recursive call", src(fs, hc.call))
		}
	}
	c = "history-error@dfs"
	errNil := c14Edges{}
	for _, n := range m.atoms(g) {
		if subj, nilWhen := c14NilTest(m.atomVal(g, n)); subj != nil && m.isHistErr(subj) {
			errNil[n] = nilWhen
		}
	}
	herrKey := fmt.Sprintf("t1(%s)", wf.histVal.key)
	var badExit *c14State
	for _, s := range g.reach(errNil.inverse().targets(g), nil, nil).exits() {
		if !m.errorHandedOn(g, s, herrKey) {
			badExit = s
		}
	}
	switch {
	case len(errNil) == 0 || g.reach(entry, nil, errNil.skip).hasNode(wf.emits...):
		r.Bad(c, hc.call.Pos(), "a non-nil error of `%s` (other than not-found) does not end the walk before the emission: the id is emitted on the basis of a failed lookup", src(fs, hc.call))
	case badExit != nil:
		r.Bad(c, badExit.n.pos(), "after `%s` failed, `%s` does not hand a non-nil error to the caller", src(fs, hc.call), m.nodeSrc(badExit.n))
	default:
		r.OK(c, hc.call.Pos(), "every path to the emission takes the nil edge of the test on the error of `%s`; the non-nil edge returns that error", src(fs, hc.call))
	}

	// (e) the root call starts with an empty path, so the cycle cut can never suppress a requested id
	c = "root-path@producer"
	if m.pg == nil {
		r.Bad(c, m.ctor.Decl.Pos(), "no producer goroutine found in %s", m.ctor.Name())
		return
	}
	roots := m.callsWhere(m.pg, m.isWalkCall)
	if len(roots) != 1 {
		r.Bad(c, m.ctor.Decl.Pos(), "expected exactly one call of %s in the producer goroutine, found %d", fn, len(roots))
		return
	}
	root := roots[0]
	pa := m.walkArg(root.call, m.pathParam)
	if pa == nil {
		r.Unknown(c, root.call.Pos(), "`%s`: path argument not found", src(fs, root.call))
		return
	}
	if v := m.pg.canon(root.n.ctx, pa, root.n); c14EmptySlice(v) {
		r.OK(c, root.call.Pos(), "`%s`: the path argument is empty (`%s`), so at the root no member matches the scan and only visited / not-found / error / cancellation can keep a requested id from being emitted", src(fs, root.call), src(fs, v.node))
	} else {
		r.Bad(c, root.call.Pos(), "`%s` starts the walk of a requested id with a path that is not known to be empty: a requested relation that references itself (1→1) is cut as its own ancestor and never emitted", src(fs, root.call))
	}
}

// c14EmptySlice: nil, T{}, make(T, 0[, n]), x[:0].
func c14EmptySlice(v *c14Val) bool {
	if v == nil {
		return false
	}
	zero := func(a *c14Val) bool {
		if a == nil || a.k != 'c' || a.cv == nil {
			return false
		}
		i, ok := constant.Int64Val(constant.ToInt(a.cv))
		return ok && i == 0
	}
	switch v.k {
	case 'n':
		return true
	case 'L':
		cl, ok := v.node.(*ast.CompositeLit)
		return ok && len(cl.Elts) == 0
	case 'C':
		return v.name == "make" && len(v.args) >= 2 && zero(v.args[1])
	case 's':
		return len(v.args) == 3 && v.args[0] == nil && zero(v.args[1])
	case 'T':
		return c14EmptySlice(v.x)
	}
	return false
}
