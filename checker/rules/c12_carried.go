package rules

import (
	"go/ast"
	"go/token"
	"go/types"
	"sort"
	"strings"

	"osmcheck/core"
)

// N6: annotation is a function of its input, not of earlier calls.
//
// State that outlives a call (package-level variables that are written somewhere, values drawn from a sync.Pool) may
// be used by the annotate tree only in a known-empty state:
//   - a pooled value is either cleared right after Get (delete-all loop, clear(), `x = x[:0]`, Reset() of a
//     bytes.Buffer/strings.Builder, `*p = T{}`), or every Put of that pool puts back a value that was cleared just
//     before (in the function or deferred closure that calls Put) — a `defer pool.Put(x)` does not qualify: it runs
//     on every exit, including the error returns that leave x half consumed;
//   - a package-level variable is reset (`v = fresh`, `v = v[:0]`, `x := v[:0]`, delete-all, clear) before every
//     other use in each function that uses it, and a slice is never re-sliced beyond what the call wrote.
// Variables that are never written in the repository (tables, sentinels, interface assertions) and the
// synchronisation types of package sync are not data carried between calls.

type c12Carried struct {
	r      *core.R
	s      *c12Sorter
	writes map[*types.Var]bool // package-level variables written (or address-taken, or method-called) anywhere in the repository
}

func c12N6(r *core.R) {
	cs := &c12Carried{r: r, s: c12NewSorter(r.P), writes: map[*types.Var]bool{}}
	for _, pk := range r.P.All {
		for _, fi := range allFuncs(pk) {
			cs.recordWrites(pk.TypesInfo, fi.Decl.Body)
		}
	}
	for _, pk := range annotateTree(r.P) {
		n := 0
		pools := map[types.Object][]c12PoolSite{}
		var order []types.Object
		for _, fi := range allFuncs(pk) {
			f := cs.s.fn(fi.Obj)
			if f == nil {
				continue
			}
			n += cs.packageVars(f)
			for _, ps := range cs.poolSites(f) {
				if _, seen := pools[ps.pool]; !seen {
					order = append(order, ps.pool)
				}
				pools[ps.pool] = append(pools[ps.pool], ps)
			}
		}
		for _, p := range order {
			n += cs.judgePool(p, pools[p])
		}
		if n == 0 {
			r.OKTrivial("carried-state@"+pk.Types.Name(), token.NoPos, "package %s uses no package-level variable that is written anywhere in the repository and no sync.Pool: nothing is carried from one call to the next", pk.Types.Name())
		}
	}
}

// recordWrites notes the package-level variables that body may modify.
func (cs *c12Carried) recordWrites(info *types.Info, body ast.Node) {
	mark := func(e ast.Expr) {
		if v, ok := c12RootVar(info, e).(*types.Var); ok && c12IsPkgVar(v) {
			cs.writes[v] = true
		}
	}
	ast.Inspect(body, func(n ast.Node) bool {
		switch x := n.(type) {
		case *ast.AssignStmt:
			if x.Tok != token.DEFINE {
				for _, l := range x.Lhs {
					mark(l)
				}
			}
		case *ast.IncDecStmt:
			mark(x.X)
		case *ast.UnaryExpr:
			if x.Op == token.AND {
				mark(x.X)
			}
		case *ast.CallExpr:
			switch builtinName(info, x) {
			case "delete", "copy", "clear":
				if len(x.Args) > 0 {
					mark(x.Args[0])
				}
			}
			// a method with a pointer receiver called on the variable (pool.Put, buf.Write)
			if sel, ok := ast.Unparen(x.Fun).(*ast.SelectorExpr); ok {
				if fn := callee(info, x); fn != nil {
					if recv := fn.Type().(*types.Signature).Recv(); recv != nil {
						if _, ptr := recv.Type().(*types.Pointer); ptr {
							mark(sel.X)
						}
					}
				}
			}
		}
		return true
	})
}

func c12IsSyncType(t types.Type, names ...string) bool {
	if pt, ok := t.(*types.Pointer); ok {
		t = pt.Elem()
	}
	p := namedPath(t)
	for _, n := range names {
		if p == "sync."+n {
			return true
		}
	}
	return false
}

// packageVars judges every carried package-level variable function f uses; it returns the number of obligations.
func (cs *c12Carried) packageVars(f *c12Fn) int {
	info := f.info()
	uses := map[*types.Var][]*ast.Ident{}
	var order []*types.Var
	ast.Inspect(f.fi.Decl.Body, func(n ast.Node) bool {
		id, ok := n.(*ast.Ident)
		if !ok {
			return true
		}
		v, ok := info.Uses[id].(*types.Var)
		if !ok || !c12IsPkgVar(v) || v.Name() == "_" || !cs.writes[v] {
			return true
		}
		if c12IsSyncType(v.Type(), "Pool", "Mutex", "RWMutex", "Once", "WaitGroup", "Cond") {
			return true // pools are judged through their Get/Put sites; locks carry no data
		}
		if _, seen := uses[v]; !seen {
			order = append(order, v)
		}
		uses[v] = append(uses[v], id)
		return true
	})
	sort.Slice(order, func(i, j int) bool { return order[i].Name() < order[j].Name() })
	for _, v := range order {
		c := "carried-state@" + f.fi.Name() + " " + v.Pkg().Name() + "." + v.Name()
		st, why, at := cs.judgeVar(f, v, uses[v])
		switch st {
		case c12OK:
			cs.r.OK(c, at, "package-level %s outlives the call; %s", v.Name(), why)
		case c12Bad:
			cs.r.Bad(c, at, "package-level %s outlives the call and %s: the result depends on what an earlier call left there", v.Name(), why)
		default:
			cs.r.Unknown(c, at, "package-level %s outlives the call; %s", v.Name(), why)
		}
	}
	return len(order)
}

// judgeVar: every use of v in f other than a reset is dominated by a reset, and no slice of it is extended.
func (cs *c12Carried) judgeVar(f *c12Fn, v *types.Var, ids []*ast.Ident) (int, string, token.Pos) {
	par := parentsOf(cs.r.P, f.fi)
	resets := c12Resets(f, par, v)
	if ext := c12Extends(f, v); ext != nil {
		return c12Bad, "`" + src(cs.r.P.Fset, ext) + "` re-slices it beyond the length this call gave it, exposing elements written by an earlier call", ext.Pos()
	}
	for _, id := range ids {
		if c12PartOfReset(par, id, resets) {
			continue
		}
		dominated := false
		for _, rs := range resets {
			if f.dominates(rs.done, id.Pos()) {
				dominated = true
			}
		}
		if !dominated {
			use := ast.Node(id)
			for p := par[id]; p != nil; p = par[p] {
				if _, isStmt := p.(ast.Stmt); isStmt {
					use = p
					break
				}
			}
			txt := src(cs.r.P.Fset, use)
			if len(txt) > 90 {
				txt = txt[:87] + "..."
			}
			if len(resets) == 0 {
				return c12Bad, "`" + txt + "` uses it without " + f.fi.Name() + " ever resetting it", id.Pos()
			}
			return c12Bad, "`" + txt + "` uses it on a path on which it has not been reset", id.Pos()
		}
	}
	var how []string
	for _, rs := range resets {
		how = append(how, rs.text)
	}
	return c12OK, "every use in " + f.fi.Name() + " comes after a reset (" + strings.Join(how, ", ") + ")", ids[0].Pos()
}
