package rules

import "osmcheck/core"

const c07SerializerClosure = "\tgo func() {\n\t\tdefer dec.wg.Done()\n\t\tdefer func() {\n\t\t\tclose(dec.serializer)\n\t\t\tdec.cancel()\n\t\t}()\n\n\t\tfor i := 0; ; i = (i + 1) % n {\n\t\t\toutput := dec.outputs[i]\n\n\t\t\tvar p oPair\n\t\t\tselect {\n\t\t\tcase p = <-output:\n\t\t\tcase <-dec.ctx.Done():\n\t\t\t\treturn\n\t\t\t}\n\n\t\t\tselect {\n\t\t\tcase dec.serializer <- p:\n\t\t\tcase <-dec.ctx.Done():\n\t\t\t\treturn\n\t\t\t}\n\n\t\t\tif p.Err != nil {\n\t\t\t\treturn\n\t\t\t}\n\t\t}\n\t}()\n\n\treturn nil\n}\n"

// c07Benign: behaviour-preserving rewrites of the lifecycle / cancellation code; every rule of C07 must stay silent.
var c07Benign = []core.Mutant{
	{ // goroutine closure -> method started with `go dec.m(n)`; the exit work moves into a deferred helper
		Name: "serializer-as-method-with-exit-helper", File: "osmpbf/decode.go",
		Find: c07SerializerClosure,
		Replace: "\tgo dec.serialize(n)\n\n\treturn nil\n}\n\n" +
			"func (dec *decoder) finish() {\n\tclose(dec.serializer)\n\tdec.cancel()\n}\n\n" +
			"func (dec *decoder) serialize(workers int) {\n\tdefer dec.wg.Done()\n\tdefer dec.finish()\n\n\tfor i := 0; ; i = (i + 1) % workers {\n\t\toutput := dec.outputs[i]\n\n\t\tvar p oPair\n\t\tselect {\n\t\tcase p = <-output:\n\t\tcase <-dec.ctx.Done():\n\t\t\treturn\n\t\t}\n\n\t\tselect {\n\t\tcase dec.serializer <- p:\n\t\tcase <-dec.ctx.Done():\n\t\t\treturn\n\t\t}\n\n\t\tif p.Err != nil {\n\t\t\treturn\n\t\t}\n\t}\n}\n",
	},
	{ // the two selects move into helpers with a boolean result; Done channel read once into a local
		Name: "serializer-select-helpers", File: "osmpbf/decode.go",
		Find: c07SerializerClosure,
		Replace: "\tgo func() {\n\t\tdefer dec.wg.Done()\n\t\tdefer func() {\n\t\t\tclose(dec.serializer)\n\t\t\tdec.cancel()\n\t\t}()\n\n\t\tfor i := 0; ; i = (i + 1) % n {\n\t\t\tp, ok := dec.collect(dec.outputs[i])\n\t\t\tif !ok {\n\t\t\t\treturn\n\t\t\t}\n\n\t\t\tif forwarded := dec.forward(p); !forwarded || p.Err != nil {\n\t\t\t\treturn\n\t\t\t}\n\t\t}\n\t}()\n\n\treturn nil\n}\n\n" +
			"func (dec *decoder) collect(output <-chan oPair) (oPair, bool) {\n\tdone := dec.ctx.Done()\n\tselect {\n\tcase p := <-output:\n\t\treturn p, true\n\tcase <-done:\n\t\treturn oPair{}, false\n\t}\n}\n\n" +
			"func (dec *decoder) forward(p oPair) bool {\n\tselect {\n\tcase dec.serializer <- p:\n\t\treturn true\n\tcase <-dec.ctx.Done():\n\t\treturn false\n\t}\n}\n",
	},
	{ // Close: cancel and wait move into a helper
		Name: "close-helper", File: "osmpbf/decode.go",
		Find:    "func (dec *decoder) Close() error {\n\tdec.cancel()\n\tdec.wg.Wait()\n\treturn nil\n}\n",
		Replace: "func (dec *decoder) Close() error {\n\tdec.stop()\n\treturn nil\n}\n\nfunc (dec *decoder) stop() {\n\tdec.cancel()\n\tdec.wg.Wait()\n}\n",
	},
	{ // merged defers in the worker (Done still runs before close, as with the two LIFO defers)
		Name: "worker-merged-defers", File: "osmpbf/decode.go",
		Find:    "\t\t\tdefer close(output)\n\t\t\tdefer dec.wg.Done()\n",
		Replace: "\t\t\tdefer func() {\n\t\t\t\tdec.wg.Done()\n\t\t\t\tclose(output)\n\t\t\t}()\n",
	},
	{ // split wg.Add
		Name: "add-split", File: "osmpbf/decode.go",
		Find:    "\tdec.wg.Add(n + 2)\n",
		Replace: "\tdec.wg.Add(2)\n\tdec.wg.Add(n)\n",
	},
	{ // wg.Add(2) for the two single goroutines, wg.Add(1) in front of the go statement in the loop
		Name: "add-one-per-worker", File: "osmpbf/decode.go",
		Find:    "\tdec.wg.Add(n + 2)\n\n\t//use roughly 10 chanel inputs\n\tnumChanels := 10 / n\n\n\t// High level overview of the decoder:\n\t// The decoder supports parallel unzipping and protobuf decoding of all\n\t// the header blocks. On goroutine feeds the headerblocks round-robin into\n\t// the input channels. n goroutines read from the input channel, decode\n\t// the block and put the objects on their output channel. A third type of\n\t// goroutines round-robin reads the output channels and feads them into the\n\t// serializer channel to maintain the order of the objects in the file.\n\n\t// start data decoders\n\tfor i := 0; i < n; i++ {\n\t\tinput := make(chan iPair, numChanels)\n\t\toutput := make(chan oPair, numChanels)\n\n\t\tdd := &dataDecoder{scanner: dec.scanner}\n\n",
		Replace: "\tdec.wg.Add(2)\n\n\t//use roughly 10 chanel inputs\n\tnumChanels := 10 / n\n\n\t// High level overview of the decoder:\n\t// The decoder supports parallel unzipping and protobuf decoding of all\n\t// the header blocks. On goroutine feeds the headerblocks round-robin into\n\t// the input channels. n goroutines read from the input channel, decode\n\t// the block and put the objects on their output channel. A third type of\n\t// goroutines round-robin reads the output channels and feads them into the\n\t// serializer channel to maintain the order of the objects in the file.\n\n\t// start data decoders\n\tfor i := 0; i < n; i++ {\n\t\tinput := make(chan iPair, numChanels)\n\t\toutput := make(chan oPair, numChanels)\n\n\t\tdd := &dataDecoder{scanner: dec.scanner}\n\t\tdec.wg.Add(1)\n\n",
	},
	{ // reader loop condition by De Morgan, operands swapped
		Name: "reader-cond-demorgan", File: "osmpbf/decode.go",
		Find:    "\t\tfor dec.ctx.Err() == nil && err == nil {\n",
		Replace: "\t\tfor !(err != nil || nil != dec.ctx.Err()) {\n",
	},
	{ // osmpbf Err as a tagged switch with nested tests
		Name: "pbf-err-tagged-switch", File: "osmpbf/scanner.go",
		Find:    "\tif s.err == io.EOF {\n\t\treturn nil\n\t}\n\n\tif s.err != nil {\n\t\treturn s.err\n\t}\n\n\tif s.closed {\n\t\treturn osm.ErrScannerClosed\n\t}\n\n\treturn s.ctx.Err()\n",
		Replace: "\tswitch s.err {\n\tcase io.EOF:\n\t\treturn nil\n\tcase nil:\n\t\tif !s.closed {\n\t\t\treturn s.ctx.Err()\n\t\t}\n\t\treturn osm.ErrScannerClosed\n\t}\n\treturn s.err\n",
	},
	{ // osmpbf Scan: merged guard split into three tests in another order; lazy start with early return
		Name: "pbf-scan-split-guards", File: "osmpbf/scanner.go",
		Find:    "\tif s.err != nil || s.closed || s.ctx.Err() != nil {\n\t\treturn false\n\t}\n\n\ts.next, s.err = s.decoder.Next()\n\treturn s.err == nil\n",
		Replace: "\tif s.closed {\n\t\treturn false\n\t}\n\tif cerr := s.ctx.Err(); cerr != nil {\n\t\treturn false\n\t}\n\tif s.err == nil {\n\t\ts.next, s.err = s.decoder.Next()\n\t\treturn s.err == nil\n\t}\n\treturn false\n",
	},
	{ // osmxml Scan: if-init form of the context test, stored-error test inverted
		Name: "xml-scan-if-init", File: "osmxml/scanner.go",
		Find:    "\tif s.err != nil {\n\t\treturn false\n\t}\n\nLoop:\n\tfor {\n\t\tif s.ctx.Err() != nil {\n\t\t\treturn false\n\t\t}\n",
		Replace: "\tif stored := s.err; nil != stored {\n\t\treturn false\n\t}\n\nLoop:\n\tfor {\n\t\tif cerr := s.ctx.Err(); cerr != nil {\n\t\t\treturn false\n\t\t}\n",
	},
	{ // osmxml Close through a helper; Scanner.Close of osmpbf with a local for the result
		Name: "xml-close-helper", File: "osmxml/scanner.go",
		Find:    "\ts.closed = true\n\ts.done()\n\n\treturn nil\n}\n",
		Replace: "\ts.markClosed()\n\ts.done()\n\n\treturn nil\n}\n\nfunc (s *Scanner) markClosed() {\n\ts.closed = true\n}\n",
	},
	{ // osmpbf Scanner.Close: result through a local
		Name: "pbf-close-local-result", File: "osmpbf/scanner.go",
		Find:    "\ts.closed = true\n\treturn s.decoder.Close()\n",
		Replace: "\ts.closed = true\n\terr := s.decoder.Close()\n\treturn err\n",
	},
	{ // osmpbf Scanner.Close: the decoder is shut down by a deferred call
		Name: "pbf-close-deferred-shutdown", File: "osmpbf/scanner.go",
		Find:    "\ts.closed = true\n\treturn s.decoder.Close()\n",
		Replace: "\tdefer s.decoder.Close()\n\ts.closed = true\n\treturn nil\n",
	},
	{ // serializer: both selects move into a helper that is the loop condition; the step is the loop body
		Name: "serializer-loop-condition-helper", File: "osmpbf/decode.go",
		Find:    "\n\t\tfor i := 0; ; i = (i + 1) % n {\n\t\t\toutput := dec.outputs[i]\n\n\t\t\tvar p oPair\n\t\t\tselect {\n\t\t\tcase p = <-output:\n\t\t\tcase <-dec.ctx.Done():\n\t\t\t\treturn\n\t\t\t}\n\n\t\t\tselect {\n\t\t\tcase dec.serializer <- p:\n\t\t\tcase <-dec.ctx.Done():\n\t\t\t\treturn\n\t\t\t}\n\n\t\t\tif p.Err != nil {\n\t\t\t\treturn\n\t\t\t}\n\t\t}\n\t}()\n\n\treturn nil\n}",
		Replace: "\n\t\tturn := 0\n\t\tfor dec.relay(dec.outputs[turn]) {\n\t\t\tturn = (turn + 1) % n\n\t\t}\n\t}()\n\n\treturn nil\n}\n\n// relay moves one pair from a worker's output to the ordered queue and tells whether to go on.\nfunc (dec *decoder) relay(from <-chan oPair) bool {\n\tvar pair oPair\n\tselect {\n\tcase pair = <-from:\n\tcase <-dec.ctx.Done():\n\t\treturn false\n\t}\n\n\tselect {\n\tcase dec.serializer <- pair:\n\tcase <-dec.ctx.Done():\n\t\treturn false\n\t}\n\n\treturn pair.Err == nil\n}",
	},
	{ // osmpbf Scan: the guard is a predicate helper with two return statements
		Name: "pbf-scan-stopped-helper-two-returns", File: "osmpbf/scanner.go",
		Find:    "\tif s.err != nil || s.closed || s.ctx.Err() != nil {\n\t\treturn false\n\t}\n\n\ts.next, s.err = s.decoder.Next()\n\treturn s.err == nil\n}\n",
		Replace: "\tif s.stopped() {\n\t\treturn false\n\t}\n\n\ts.next, s.err = s.decoder.Next()\n\treturn s.err == nil\n}\n\nfunc (s *Scanner) stopped() bool {\n\tif s.err != nil {\n\t\treturn true\n\t}\n\n\treturn s.closed || s.ctx.Err() != nil\n}\n",
	},
	{ // the reader goroutine is a method; it receives the first data blob as a parameter that is nil when the stream starts with a header and tests that instead of the header type
		Name: "reader-method-first-blob-param", File: "osmpbf/decode.go",
		Find:    "\n\t// start reading OSMData\n\tgo func() {\n\t\tdefer dec.wg.Done()\n\t\tdefer func() {\n\t\t\tfor _, input := range dec.inputs {\n\t\t\t\tclose(input)\n\t\t\t}\n\t\t}()\n\n\t\tvar (\n\t\t\ti   int\n\t\t\terr error\n\t\t)\n\n\t\t// On restart the first block may not be a header and will need to be\n\t\t// added to the first input.\n\t\tif blobHeader.GetType() != osmHeaderType {\n\t\t\tdec.inputs[0] <- iPair{Offset: 0, Blob: blob, Err: err}\n\n\t\t\ti = (i + 1) % n\n\t\t}\n\n\t\tfor dec.ctx.Err() == nil && err == nil {\n\t\t\tinput := dec.inputs[i]\n\t\t\ti = (i + 1) % n\n\n\t\t\toffset := dec.bytesRead\n\t\t\tblobHeader, blob, err = dec.readFileBlock(sizeBuf, headerBuf, blobBuf)\n\t\t\tif err == nil && blobHeader.GetType() != osmDataType {\n\t\t\t\terr = fmt.Errorf(\"unexpected fileblock of type %s\", blobHeader.GetType())\n\t\t\t}\n\n\t\t\tpair := iPair{Offset: offset, Blob: blob}\n\t\t\tif err != nil {\n\t\t\t\tpair = iPair{Err: err}\n\t\t\t}\n\n\t\t\tselect {\n\t\t\tcase input <- pair:\n\t\t\tcase <-dec.ctx.Done():\n\t\t\t}\n\t\t}\n\t}()\n\n\tgo func() {\n\t\tdefer dec.wg.Done()\n\t\tdefer func() {\n\t\t\tclose(dec.serializer)\n\t\t\tdec.cancel()\n\t\t}()\n\n\t\tfor i := 0; ; i = (i + 1) % n {\n\t\t\toutput := dec.outputs[i]\n\n\t\t\tvar p oPair\n\t\t\tselect {\n\t\t\tcase p = <-output:\n\t\t\tcase <-dec.ctx.Done():\n\t\t\t\treturn\n\t\t\t}\n\n\t\t\tselect {\n\t\t\tcase dec.serializer <- p:\n\t\t\tcase <-dec.ctx.Done():\n\t\t\t\treturn\n\t\t\t}\n\n\t\t\tif p.Err != nil {\n\t\t\t\treturn\n\t\t\t}\n\t\t}\n\t}()\n\n\treturn nil\n}",
		Replace: "\n\t// the first block is left over for the reader when it is not the header\n\tvar first *osmpbf.Blob\n\tif blobHeader.GetType() != osmHeaderType {\n\t\tfirst = blob\n\t}\n\n\t// start reading OSMData\n\tgo dec.readBlocks(n, first, sizeBuf, headerBuf, blobBuf)\n\n\tgo func() {\n\t\tdefer dec.wg.Done()\n\t\tdefer func() {\n\t\t\tclose(dec.serializer)\n\t\t\tdec.cancel()\n\t\t}()\n\n\t\tfor i := 0; ; i = (i + 1) % n {\n\t\t\toutput := dec.outputs[i]\n\n\t\t\tvar p oPair\n\t\t\tselect {\n\t\t\tcase p = <-output:\n\t\t\tcase <-dec.ctx.Done():\n\t\t\t\treturn\n\t\t\t}\n\n\t\t\tselect {\n\t\t\tcase dec.serializer <- p:\n\t\t\tcase <-dec.ctx.Done():\n\t\t\t\treturn\n\t\t\t}\n\n\t\t\tif p.Err != nil {\n\t\t\t\treturn\n\t\t\t}\n\t\t}\n\t}()\n\n\treturn nil\n}\n\nfunc (dec *decoder) readBlocks(n int, first *osmpbf.Blob, sizeBuf, headerBuf, blobBuf []byte) {\n\tvar blobHeader *osmpbf.BlobHeader\n\tvar blob *osmpbf.Blob\n\tdefer dec.wg.Done()\n\tdefer func() {\n\t\tfor _, input := range dec.inputs {\n\t\t\tclose(input)\n\t\t}\n\t}()\n\n\tvar (\n\t\ti   int\n\t\terr error\n\t)\n\n\t// On restart the first block may not be a header and will need to be\n\t// added to the first input.\n\tif first != nil {\n\t\tdec.inputs[0] <- iPair{Offset: 0, Blob: first}\n\n\t\ti = (i + 1) % n\n\t}\n\n\tfor dec.ctx.Err() == nil && err == nil {\n\t\tinput := dec.inputs[i]\n\t\ti = (i + 1) % n\n\n\t\toffset := dec.bytesRead\n\t\tblobHeader, blob, err = dec.readFileBlock(sizeBuf, headerBuf, blobBuf)\n\t\tif err == nil && blobHeader.GetType() != osmDataType {\n\t\t\terr = fmt.Errorf(\"unexpected fileblock of type %s\", blobHeader.GetType())\n\t\t}\n\n\t\tpair := iPair{Offset: offset, Blob: blob}\n\t\tif err != nil {\n\t\t\tpair = iPair{Err: err}\n\t\t}\n\n\t\tselect {\n\t\tcase input <- pair:\n\t\tcase <-dec.ctx.Done():\n\t\t}\n\t}\n}",
	},
	{ // the worker goroutine is a method that allocates its own decoder value
		Name: "worker-method-own-decoder", File: "osmpbf/decode.go",
		Find:    "\n\t\tdd := &dataDecoder{scanner: dec.scanner}\n\n\t\tgo func() {\n\t\t\tdefer close(output)\n\t\t\tdefer dec.wg.Done()\n\n\t\t\tfor p := range input {\n\t\t\t\tvar out oPair\n\t\t\t\tif p.Err == nil {\n\t\t\t\t\t// send decoded objects or decoding error\n\t\t\t\t\tobjects, err := dd.Decode(p.Blob)\n\t\t\t\t\tout = oPair{Offset: p.Offset, Objects: objects, Err: err}\n\t\t\t\t} else {\n\t\t\t\t\tout = oPair{Err: p.Err} // send input error as is\n\t\t\t\t}\n\n\t\t\t\tselect {\n\t\t\t\tcase output <- out:\n\t\t\t\tcase <-dec.ctx.Done():\n\t\t\t\t}\n\t\t\t}\n\t\t}()\n\n\t\tdec.inputs = append(dec.inputs, input)\n\t\tdec.outputs = append(dec.outputs, output)\n\t}\n\n\t// start reading OSMData\n\tgo func() {\n\t\tdefer dec.wg.Done()\n\t\tdefer func() {\n\t\t\tfor _, input := range dec.inputs {\n\t\t\t\tclose(input)\n\t\t\t}\n\t\t}()\n\n\t\tvar (\n\t\t\ti   int\n\t\t\terr error\n\t\t)\n\n\t\t// On restart the first block may not be a header and will need to be\n\t\t// added to the first input.\n\t\tif blobHeader.GetType() != osmHeaderType {\n\t\t\tdec.inputs[0] <- iPair{Offset: 0, Blob: blob, Err: err}\n\n\t\t\ti = (i + 1) % n\n\t\t}\n\n\t\tfor dec.ctx.Err() == nil && err == nil {\n\t\t\tinput := dec.inputs[i]\n\t\t\ti = (i + 1) % n\n\n\t\t\toffset := dec.bytesRead\n\t\t\tblobHeader, blob, err = dec.readFileBlock(sizeBuf, headerBuf, blobBuf)\n\t\t\tif err == nil && blobHeader.GetType() != osmDataType {\n\t\t\t\terr = fmt.Errorf(\"unexpected fileblock of type %s\", blobHeader.GetType())\n\t\t\t}\n\n\t\t\tpair := iPair{Offset: offset, Blob: blob}\n\t\t\tif err != nil {\n\t\t\t\tpair = iPair{Err: err}\n\t\t\t}\n\n\t\t\tselect {\n\t\t\tcase input <- pair:\n\t\t\tcase <-dec.ctx.Done():\n\t\t\t}\n\t\t}\n\t}()\n\n\tgo func() {\n\t\tdefer dec.wg.Done()\n\t\tdefer func() {\n\t\t\tclose(dec.serializer)\n\t\t\tdec.cancel()\n\t\t}()\n\n\t\tfor i := 0; ; i = (i + 1) % n {\n\t\t\toutput := dec.outputs[i]\n\n\t\t\tvar p oPair\n\t\t\tselect {\n\t\t\tcase p = <-output:\n\t\t\tcase <-dec.ctx.Done():\n\t\t\t\treturn\n\t\t\t}\n\n\t\t\tselect {\n\t\t\tcase dec.serializer <- p:\n\t\t\tcase <-dec.ctx.Done():\n\t\t\t\treturn\n\t\t\t}\n\n\t\t\tif p.Err != nil {\n\t\t\t\treturn\n\t\t\t}\n\t\t}\n\t}()\n\n\treturn nil\n}",
		Replace: "\n\t\tgo dec.decodeBlocks(input, output)\n\n\t\tdec.inputs = append(dec.inputs, input)\n\t\tdec.outputs = append(dec.outputs, output)\n\t}\n\n\t// start reading OSMData\n\tgo func() {\n\t\tdefer dec.wg.Done()\n\t\tdefer func() {\n\t\t\tfor _, input := range dec.inputs {\n\t\t\t\tclose(input)\n\t\t\t}\n\t\t}()\n\n\t\tvar (\n\t\t\ti   int\n\t\t\terr error\n\t\t)\n\n\t\t// On restart the first block may not be a header and will need to be\n\t\t// added to the first input.\n\t\tif blobHeader.GetType() != osmHeaderType {\n\t\t\tdec.inputs[0] <- iPair{Offset: 0, Blob: blob, Err: err}\n\n\t\t\ti = (i + 1) % n\n\t\t}\n\n\t\tfor dec.ctx.Err() == nil && err == nil {\n\t\t\tinput := dec.inputs[i]\n\t\t\ti = (i + 1) % n\n\n\t\t\toffset := dec.bytesRead\n\t\t\tblobHeader, blob, err = dec.readFileBlock(sizeBuf, headerBuf, blobBuf)\n\t\t\tif err == nil && blobHeader.GetType() != osmDataType {\n\t\t\t\terr = fmt.Errorf(\"unexpected fileblock of type %s\", blobHeader.GetType())\n\t\t\t}\n\n\t\t\tpair := iPair{Offset: offset, Blob: blob}\n\t\t\tif err != nil {\n\t\t\t\tpair = iPair{Err: err}\n\t\t\t}\n\n\t\t\tselect {\n\t\t\tcase input <- pair:\n\t\t\tcase <-dec.ctx.Done():\n\t\t\t}\n\t\t}\n\t}()\n\n\tgo func() {\n\t\tdefer dec.wg.Done()\n\t\tdefer func() {\n\t\t\tclose(dec.serializer)\n\t\t\tdec.cancel()\n\t\t}()\n\n\t\tfor i := 0; ; i = (i + 1) % n {\n\t\t\toutput := dec.outputs[i]\n\n\t\t\tvar p oPair\n\t\t\tselect {\n\t\t\tcase p = <-output:\n\t\t\tcase <-dec.ctx.Done():\n\t\t\t\treturn\n\t\t\t}\n\n\t\t\tselect {\n\t\t\tcase dec.serializer <- p:\n\t\t\tcase <-dec.ctx.Done():\n\t\t\t\treturn\n\t\t\t}\n\n\t\t\tif p.Err != nil {\n\t\t\t\treturn\n\t\t\t}\n\t\t}\n\t}()\n\n\treturn nil\n}\n\nfunc (dec *decoder) decodeBlocks(input <-chan iPair, output chan<- oPair) {\n\tdd := &dataDecoder{scanner: dec.scanner}\n\tdefer close(output)\n\tdefer dec.wg.Done()\n\n\tfor p := range input {\n\t\tvar out oPair\n\t\tif p.Err == nil {\n\t\t\t// send decoded objects or decoding error\n\t\t\tobjects, err := dd.Decode(p.Blob)\n\t\t\tout = oPair{Offset: p.Offset, Objects: objects, Err: err}\n\t\t} else {\n\t\t\tout = oPair{Err: p.Err} // send input error as is\n\t\t}\n\n\t\tselect {\n\t\tcase output <- out:\n\t\tcase <-dec.ctx.Done():\n\t\t}\n\t}\n}",
	},
}
