package rules

import (
	"fmt"
	"go/ast"
	"go/constant"
	"go/token"
	"go/types"

	"osmcheck/core"
)

// ---------------------------------------------------------------------------
// W4 no deadlock on stop

// fieldInits lists the values stored into field f of the new ordering by the constructor (composite literal
// elements and assignments, in the constructor or in functions it calls).
type c14Init struct {
	n   *c14Node
	val *c14Val
	pos token.Pos
}

func (m *c14Model) fieldInits(f *types.Var) []c14Init {
	g := m.cg
	var out []c14Init
	for _, n := range g.execNodes() {
		if n.ast == nil {
			continue
		}
		info := n.ctx.fn.info
		ast.Inspect(n.ast, func(x ast.Node) bool {
			switch x := x.(type) {
			case *ast.FuncLit:
				return false
			case *ast.CompositeLit:
				if t := info.TypeOf(x); t == nil || m.fieldOwner[f] == nil || namedPath(t) != namedPath(m.fieldOwner[f]) {
					return true
				}
				for _, el := range x.Elts {
					if kv, ok := el.(*ast.KeyValueExpr); ok && objOf(info, kv.Key) == types.Object(f) {
						out = append(out, c14Init{n, g.canon(n.ctx, kv.Value, n), kv.Pos()})
					}
				}
			case *ast.AssignStmt:
				for i, l := range x.Lhs {
					if !m.isField(g, g.canon(n.ctx, l, n), f) {
						continue
					}
					switch {
					case len(x.Lhs) == len(x.Rhs):
						out = append(out, c14Init{n, g.canon(n.ctx, x.Rhs[i], n), x.Pos()})
					case len(x.Rhs) == 1:
						t := g.canon(n.ctx, x.Rhs[0], n)
						out = append(out, c14Init{n, &c14Val{k: 't', key: fmt.Sprintf("t%d(%s)", i, t.key), idx: i, x: t, at: n, node: x.Rhs[0]}, x.Pos()})
					}
				}
			}
			return true
		})
	}
	return out
}

func c14W4(r *core.R) {
	m := c14Get(r)
	if m == nil {
		return
	}
	wf, fs, fn := m.walkFacts(), r.P.Fset, m.walk.Name()
	ctorName := m.ctor.Name()
	cg := m.cg

	// (a) the ordering owns a cancellable context derived from the caller's
	c := "ctx@" + ctorName
	wcs := m.callsWhere(cg, func(n *c14Node, call *ast.CallExpr) bool {
		return isPkgFunc(callee(n.ctx.fn.info, call), "context", "WithCancel")
	})
	if len(wcs) == 0 {
		r.Bad(c, m.ctor.Decl.Pos(), "%s does not derive a cancellable context with context.WithCancel: Close has nothing to cancel and the producer blocked in its send is never released", ctorName)
	} else {
		wc := wcs[0]
		wv := cg.canon(wc.n.ctx, wc.call, wc.n)
		ctxInits, canInits := m.fieldInits(m.fCtx), m.fieldInits(m.fCancel)
		isRes := func(v *c14Val, i int) bool { return v != nil && v.k == 't' && v.idx == i && v.x.key == wv.key }
		parentIsParam := false
		if len(wv.args) == 1 && wv.args[0].k == 'v' && wv.args[0].ctx == cg.root {
			sig := m.ctor.Obj.Type().(*types.Signature)
			for i := 0; i < sig.Params().Len(); i++ {
				if types.Object(sig.Params().At(i)) == wv.args[0].obj && namedPath(sig.Params().At(i).Type()) == "context.Context" {
					parentIsParam = true
				}
			}
		}
		var badCtx, badCan *c14Init
		for i := range ctxInits {
			if !isRes(ctxInits[i].val, 0) {
				badCtx = &ctxInits[i]
			}
		}
		for i := range canInits {
			if !isRes(canInits[i].val, 1) {
				badCan = &canInits[i]
			}
		}
		late := false
		if m.goNode != nil {
			after := cg.reach(cg.statesOf(m.goNode), nil, nil)
			for _, in := range append(append([]c14Init{}, ctxInits...), canInits...) {
				late = late || after.hasNode(in.n)
			}
		}
		switch {
		case len(ctxInits) == 0 || badCtx != nil:
			what := "nothing"
			if badCtx != nil {
				what = "`" + src(fs, badCtx.val.node) + "`"
			}
			r.Bad(c, wc.call.Pos(), "the context stored in the ordering (%s) is not the one returned by `%s`: the Done cases of the send/receive selects watch a context Close never cancels, so Close blocks in Wait while the producer blocks in its send", what, src(fs, wc.call))
		case len(canInits) == 0 || badCan != nil:
			what := "nothing"
			if badCan != nil {
				what = "`" + src(fs, badCan.val.node) + "`"
			}
			r.Bad(c, wc.call.Pos(), "the cancel function stored in the ordering (%s) is not the one returned by `%s`", what, src(fs, wc.call))
		case !parentIsParam:
			r.Bad(c, wc.call.Pos(), "`%s` is not derived from the constructor's context parameter: cancelling the caller's context no longer ends the iteration", src(fs, wc.call))
		case late:
			r.Bad(c, wc.call.Pos(), "the ordering's context fields are (re)initialised after the producer goroutine was started")
		default:
			r.OK(c, wc.call.Pos(), "`%s` derives from the constructor's context parameter; result 0 is stored in field %s, result 1 in field %s of the new ordering before the producer starts", src(fs, wc.call), m.fCtx.Name(), m.fCancel.Name())
		}
	}

	// (b) every send on the output channel sits in a select with the ordering's Done
	recNodes := m.recNodes()
	for _, sn := range wf.sendNodes {
		c = "send-select@dfs"
		sel := wf.selOf[sn]
		switch {
		case sel == nil:
			r.Bad(c, sn.pos(), "bare send `%s` on the unbuffered output channel: when the consumer stops calling Next and calls Close, the producer stays blocked in this send and Close blocks forever in Wait", m.nodeSrc(sn))
		case sel.done == nil:
			r.Bad(c, sn.pos(), "the select around `%s` has no `<-….%s.Done()` case on the ordering's own context: Close/cancellation cannot release the blocked producer", m.nodeSrc(sn), m.fCtx.Name())
		case sel.hasDefault:
			r.Bad(c, sn.pos(), "the select around `%s` has a default case: the send is skipped whenever the consumer is not already waiting, so requested relations are dropped", m.nodeSrc(sn))
		default:
			// the Done case leaves the DFS with a non-nil error so that the recursion unwinds
			head := m.caseHead(m.wg, sn.ctx, sel.done)
			if head == nil {
				r.Unknown(c, sel.done.Pos(), "Done case of the select around `%s` not located in the explored graph", m.nodeSrc(sn))
				continue
			}
			reg := m.wg.reach(m.wg.statesOf(head), nil, nil)
			var nilExit *c14State
			for _, s := range reg.exits() {
				if abs, _, _ := m.exitVal(m.wg, s); abs == c14Nil {
					nilExit = s
				}
			}
			switch {
			case reg.hasNode(recNodes...) || reg.hasNode(wf.emits...) || nilExit != nil:
				r.Bad(c, sel.done.Pos(), "the Done case of the select around `%s` does not leave %s with an error: after cancellation the DFS continues into the remaining members and ids instead of unwinding", m.nodeSrc(sn), fn)
			default:
				r.OK(c, sn.pos(), "`%s` is a case of a select whose other case is `%s`; that case leaves %s with a result that is not nil; no default", m.nodeSrc(sn), src(fs, sel.done.Comm), fn)
			}
		}
	}

	// (c) every receive from the output channel
	m.receives(r)

	// (d) Close cancels, then waits
	c = "close-order@Close"
	xg := m.xg
	cancels := m.callsWhere(xg, func(n *c14Node, call *ast.CallExpr) bool {
		return m.isField(xg, xg.canon(n.ctx, call.Fun, n), m.fCancel)
	})
	waitNodes := m.awaits(xg)
	var cancelNodes []*c14Node
	for _, x := range cancels {
		cancelNodes = append(cancelNodes, x.n)
	}
	type waitSite struct{ call ast.Node }
	var waits []waitSite
	for _, n := range waitNodes {
		waits = append(waits, waitSite{n.ast})
	}
	// deferred calls run when Close returns, after every plain statement and in reverse order of registration
	var dCancel, dWait, dOther []*c14Node
	for _, d := range xg.defers {
		if len(xg.byNode[d]) == 0 {
			continue
		}
		dc := d.ast.(*ast.DeferStmt).Call
		switch {
		case d.ctx != xg.root:
			dOther = append(dOther, d)
		case m.isField(xg, xg.canon(d.ctx, dc.Fun, d), m.fCancel):
			dCancel = append(dCancel, d)
		case m.isWaitCall(xg, d, dc):
			dWait = append(dWait, d)
		default:
			dOther = append(dOther, d)
		}
	}
	xentry := []*c14State{xg.entry}
	always := func(ns []*c14Node) bool { // some node of ns lies on every path through Close
		return len(ns) > 0 && len(xg.reach(xentry, c14StopAt(ns...), nil).exits()) == 0
	}
	switch {
	case len(dOther) > 0:
		r.Unknown(c, dOther[0].pos(), "Close defers `%s`; only deferred calls of the cancel function and of Wait are modelled", m.nodeSrc(dOther[0]))
	case len(dWait) > 0 && len(waits) == 0:
		switch {
		case !always(dWait):
			r.Bad(c, dWait[0].pos(), "Close can return without having registered `%s`: the producer goroutine may still be running when Close returns", m.nodeSrc(dWait[0]))
		case always(cancelNodes):
			r.OK(c, cancels[0].call.Pos(), "`%s` lies on every path through Close; the deferred `%s` runs when Close returns, after it", src(fs, cancels[0].call), m.nodeSrc(dWait[0]))
		case always(dCancel) && !xg.reach(xentry, c14StopAt(dWait...), nil).hasNode(dCancel...):
			r.OK(c, dCancel[0].pos(), "`%s` is registered after `%s` on every path, so it runs first when Close returns", m.nodeSrc(dCancel[0]), m.nodeSrc(dWait[0]))
		default:
			r.Bad(c, dWait[0].pos(), "the deferred `%s` is not preceded by the cancel call on every path (a plain call, or a defer registered after it): Close waits for a producer that is blocked in its send until somebody cancels — deadlock when Close is called before the iteration is exhausted", m.nodeSrc(dWait[0]))
		}
	case len(dCancel) > 0 || len(dWait) > 0:
		// a deferred cancel runs after a plain Wait: the same deadlock as waiting first
		r.Bad(c, append(dCancel, dWait...)[0].pos(), "Close defers `%s` next to a plain Wait: the deferred call runs after the wait — Close waits for a producer that nobody has cancelled", m.nodeSrc(append(dCancel, dWait...)[0]))
	case len(cancels) == 0:
		r.Bad(c, m.closeFn.Decl.Pos(), "Close never calls the ordering's cancel function: a producer blocked in its send is not released and the wait for it never ends")
	case len(waits) == 0:
		r.Bad(c, m.closeFn.Decl.Pos(), "Close does not wait for the producer goroutine (`%s`): the goroutine may still be running when Close returns", m.waitText())
	case xg.reach([]*c14State{xg.entry}, c14StopAt(cancelNodes...), nil).hasNode(waitNodes...):
		r.Bad(c, waits[0].call.Pos(), "`%s` is not preceded by `%s` on every path: Close waits for a producer that is blocked in its send until somebody cancels — deadlock when Close is called before the iteration is exhausted", src(fs, waits[0].call), src(fs, cancels[0].call))
	case len(xg.reach([]*c14State{xg.entry}, c14StopAt(waitNodes...), nil).exits()) > 0:
		r.Bad(c, waits[0].call.Pos(), "Close can return without `%s`: the producer goroutine may still be running when Close returns", src(fs, waits[0].call))
	default:
		r.OK(c, cancels[0].call.Pos(), "`%s` lies on every path to `%s`, which lies on every path through Close", src(fs, cancels[0].call), src(fs, waits[0].call))
	}

	// (e) producer goroutine: one go statement, Add(1) before it, deferred close of the channel and release of the wait group
	c = "wg-add@" + ctorName
	m.completionArmed(r, c)

	c = "goroutine-defers@producer"
	pd := m.producerDefers()
	closeCalls := pd.closeCalls
	m.completionSignalled(r, c)

	c = "close-sites"
	badClose := false
	for _, s := range m.closes {
		if !closeCalls[s.node.(*ast.CallExpr)] {
			badClose = true
			r.Bad(c, s.node.Pos(), "`%s` in %s closes the output channel outside the producer's deferred close: the producer's select may then send on a closed channel (panic) or the channel is closed twice", src(fs, s.node), s.fi.Name())
		}
	}
	if !badClose {
		r.OK(c, m.ctor.Decl.Pos(), "%d close site(s) of the output channel, all the producer's deferred close", len(m.closes))
	}
}

// receives: every receive from the output channel is Next's, recognises the closed channel, and cannot block for ever.
func (m *c14Model) receives(r *core.R) {
	fs := r.P.Fset
	g := m.ng
	c := "recv-select@Next"
	deferredClose := len(m.producerDefers().closeDefers) > 0
	type recvSite struct {
		n  *c14Node
		ue *ast.UnaryExpr
	}
	var sites []recvSite
	acc := map[ast.Node]bool{}
	for _, n := range g.execNodes() {
		if n.ast == nil {
			continue
		}
		if _, isIdent := n.ast.(*ast.Ident); isIdent {
			continue
		}
		ast.Inspect(n.ast, func(x ast.Node) bool {
			if _, ok := x.(*ast.FuncLit); ok {
				return false
			}
			if ue, ok := x.(*ast.UnaryExpr); ok && ue.Op == token.ARROW && m.isField(g, g.canon(n.ctx, ue.X, n), m.fOut) {
				sites = append(sites, recvSite{n, ue})
				acc[ue] = true
			}
			return true
		})
	}
	if len(sites) == 0 {
		r.Bad(c, m.next.Decl.Pos(), "Next does not receive from the output channel")
	}
	for _, s := range m.recvs {
		if !acc[s.node] {
			r.Unknown(c, s.node.Pos(), "`%s` in %s receives from the output channel outside the receive reached from Next; the consumer protocol (Next returns false on Done and on the closed channel) is only modelled for Next", src(fs, s.node), s.fi.Name())
		}
	}
	for _, site := range sites {
		n, ue := site.n, site.ue
		as, _ := n.ast.(*ast.AssignStmt)
		if as == nil || len(as.Rhs) != 1 || ast.Unparen(as.Rhs[0]) != ast.Expr(ue) {
			r.Bad(c, ue.Pos(), "`%s` discards the received value: Next cannot tell a delivered id from the closed channel and never reports the end of the iteration", m.nodeSrc(n))
			continue
		}
		sel := m.selectOf(g, n.ctx, as, n)
		// where the received value becomes available
		var start []*c14State
		recvAt := n // the node at which the received value is assigned (the head of its case inside a select)
		if sel != nil {
			if h := m.caseHead(g, n.ctx, sel.own); h != nil {
				start = g.statesOf(h)
				recvAt = h
			}
		} else {
			start = c14Succs(g.statesOf(n), nil)
		}
		// closed-channel detection: `v, ok := <-out; ok` or `v := <-out; v != 0`
		rv := g.canon(n.ctx, ue, recvAt)
		open := c14Edges{} // edges on which the channel is known not to be closed
		after := g.reach(start, nil, nil)
		for _, a := range m.atoms(g) {
			// the atom as seen on the paths that come from the receive (a variable declared before the select and
			// assigned by the case is the received value there, whatever it is on the other cases' paths)
			var from []*c14State
			for _, s := range g.byNode[a] {
				if after[s] {
					from = append(from, s)
				}
			}
			if len(from) == 0 {
				continue
			}
			g.fromStates = map[*c14Node][]*c14State{a: from}
			v := m.atomVal(g, a)
			g.fromStates = nil
			if v.k == 't' && v.idx == 1 && v.x.key == rv.key {
				open[a] = 1
			}
			if v.k == 'b' && (v.op == token.EQL || v.op == token.NEQ) {
				var val, other *c14Val
				for _, p := range [][2]*c14Val{{v.x, v.y}, {v.y, v.x}} {
					if p[0].key == rv.key || (p[0].k == 't' && p[0].idx == 0 && p[0].x.key == rv.key) {
						val, other = p[0], p[1]
					}
				}
				if val != nil && other.k == 'c' && other.cv != nil {
					if i, ok := constant.Int64Val(constant.ToInt(other.cv)); ok && i == 0 {
						if v.op == token.NEQ {
							open[a] = 1
						} else {
							open[a] = -1
						}
					}
				}
			}
		}
		falseOnly := func(reg c14Set) *c14State {
			for _, s := range reg.exits() {
				if abs, _, _ := m.exitVal(g, s); abs != c14False {
					return s
				}
			}
			return nil
		}
		if len(open) == 0 {
			r.Bad(c, as.Pos(), "after `%s` Next does not test for the closed channel (`!ok`, or the zero id delivered by a closed channel): once the producer has finished, Next keeps returning true with id 0 and the iteration never ends", src(fs, as))
			continue
		}
		if s := falseOnly(g.reach(start, nil, open.skip)); s != nil {
			r.Bad(c, s.n.pos(), "after `%s`, `%s` can be reached without the received value having been found valid, and it does not return false: when the producer has finished (closed channel) the iteration does not end", src(fs, as), m.nodeSrc(s.n))
			continue
		}
		var doneBad *c14State
		if sel != nil && sel.done != nil {
			if h := m.caseHead(g, n.ctx, sel.done); h != nil {
				doneBad = falseOnly(g.reach(g.statesOf(h), nil, nil))
			}
		}
		switch {
		case sel == nil && deferredClose:
			r.OK(c, as.Pos(), "bare receive `%s`; the producer's deferred close(….%s) releases it whenever the goroutine ends, the closed channel makes Next return false", src(fs, as), m.fOut.Name())
		case sel == nil:
			r.Bad(c, as.Pos(), "bare receive `%s` and no deferred close of the channel in the producer: after cancellation Next blocks forever", src(fs, as))
		case sel.hasDefault:
			r.Bad(c, as.Pos(), "the select around `%s` has a default case: Next does not wait for the producer and reports the end of the iteration early", src(fs, as))
		case sel.done == nil && !deferredClose:
			r.Bad(c, as.Pos(), "the select around `%s` has no Done case on the ordering's context and the channel is not closed by a deferred close: Next can block forever after cancellation", src(fs, as))
		case doneBad != nil:
			r.Bad(c, sel.done.Pos(), "the Done case of Next's select can end in `%s`, which does not return false: a cancelled iteration is not reported as ended", m.nodeSrc(doneBad.n))
		case sel.done == nil:
			r.OK(c, as.Pos(), "`%s` in a select without default; the producer's deferred close releases it; unless the received value is found valid Next returns false", src(fs, as))
		default:
			r.OK(c, as.Pos(), "`%s` is a case of a select with `%s` → return false; unless the received value is found valid (closed channel: 0 is not a valid relation id) Next returns false", src(fs, as), src(fs, sel.done.Comm))
		}
	}
}
