package rules

import (
	"fmt"
	"go/ast"
	"go/constant"
	"go/token"
	"go/types"

	"osmcheck/core"
)

// c01R3Holder is R3 for a decoder that keeps the block parameters in cells of its own (see c01_r3holder.go).
func c01R3Holder(r *core.R, cm *c01Model, blockVar *c01MsgVar, cached bool, srcWrite c01EventPred) c01EventPred {
	m := cm.m
	info := m.info
	fs := r.P.Fset
	h := &c01Holder{r: r, cm: cm, info: info, cells: map[string][]*types.Var{}, def: map[string]constant.Value{}}
	h.findCells()
	if len(h.cells) == 0 {
		return nil
	}
	h.defaults()
	bs := blockVar.fi
	if len(h.cells) < 5 && !cached {
		r.Anchor(fmt.Sprintf("variables of the decoder that carry the block parameters read from the block's message (found %d of granularity, date_granularity, lat_offset, lon_offset, string table: %s)", len(h.cells), h.describe()))
	}
	isParse := func(f *c01Fn, n ast.Node) bool {
		return c01ContainsCall(n, func(call *ast.CallExpr) bool {
			if !isMethod(callee(info, call), protoscanMsg, "Next") {
				return false
			}
			sel, ok := ast.Unparen(call.Fun).(*ast.SelectorExpr)
			if !ok {
				return false
			}
			mv := cm.msgVarOf(sel.X)
			return mv != nil && mv.msg == "PrimitiveBlock"
		})
	}
	// a read of the cell in the worker role (where the parameter is consumed)
	readPos := map[string]token.Pos{}
	readSrc := map[string]string{}
	ddFields := map[*types.Var]bool{} // decoder fields through which a separate holder is read
	for _, fi := range cm.worker {
		fi := fi
		lhs := map[ast.Expr]bool{}
		ast.Inspect(fi.Decl.Body, func(n ast.Node) bool {
			if as, ok := n.(*ast.AssignStmt); ok {
				for _, l := range as.Lhs {
					lhs[ast.Unparen(l)] = true
				}
			}
			sel, ok := n.(*ast.SelectorExpr)
			if !ok || lhs[sel] {
				return true
			}
			p, c := h.anyCell(sel)
			if c == nil {
				return true
			}
			if _, seen := readPos[p]; !seen {
				readPos[p], readSrc[p] = sel.Pos(), src(fs, sel)
			}
			if hn := h.holderOf(c); hn != nil && namedPath(hn) != namedPath(m.ddT) {
				for _, fl := range c01ChainFields(info, c01Chain(info, fi.Decl.Body, sel.X)) {
					if namedPath(h.holderOfField(fl)) == namedPath(m.ddT) && c01IsHolderType(fl.Type(), hn) {
						ddFields[fl] = true
					}
				}
			}
			return true
		})
	}
	// holders stored in the decoder that are selected anywhere in the worker role (a method value receiver, a pointer
	// taken once and handed down) count as read through as well
	if st, ok := m.ddT.Underlying().(*types.Struct); ok {
		for i := 0; i < st.NumFields(); i++ {
			for _, cs := range h.cells {
				for _, c := range cs {
					if hn := h.holderOf(c); hn != nil && namedPath(hn) != namedPath(m.ddT) && c01IsHolderType(st.Field(i).Type(), hn) {
						ddFields[st.Field(i)] = true
					}
				}
			}
		}
	}
	for _, p := range h.paramList() {
		if cached {
			break // the defaults come out of the cached block's getters; its resets are judged in the cached-block form
		}
		c := "reset@PrimitiveBlock " + p
		pos := readPos[p]
		if !pos.IsValid() {
			pos = bs.Decl.Pos()
		}
		sum := c01NewSum(r.P, h.isReset(p))
		if sum.Unprotected(cm.entry, isParse, map[*types.Func]int{}) {
			r.Bad(c, pos, "a path from %s reaches the parsing of a block without establishing the format default of %s (kept in %s; read by `%s`): a block that omits it inherits the previous block's value, or a wrong default, instead of the format default", cm.entry.Name(), p, h.describe(), readSrc[p])
		} else {
			r.OK(c, pos, "every path from %s to the first read of a block's message rebuilds the holder of %s with the format default or assigns that default (cells: %s)", cm.entry.Name(), p, h.describe())
		}
	}
	// publish
	isGroupDecode := func(f *c01Fn, n ast.Node) bool {
		return c01ContainsCall(n, func(call *ast.CallExpr) bool {
			for _, a := range call.Args {
				if c01IsByteSlice(info.TypeOf(a)) && cm.dataOf(a) == "PrimitiveGroup" {
					return true
				}
			}
			return false
		})
	}
	isCellWrite := func(f *c01Fn, n ast.Node) bool {
		hit := false
		ast.Inspect(n, func(x ast.Node) bool {
			switch s := x.(type) {
			case *ast.FuncLit:
				return false
			case *ast.AssignStmt:
				for _, l := range s.Lhs {
					if _, c := h.anyCell(l); c != nil {
						hit = true
					}
				}
			}
			return true
		})
		return hit
	}
	for fl := range ddFields {
		fl := fl
		// does the reset act on this stored holder itself? then it needs no publishing
		isPublish := func(f *c01Fn, n ast.Node) bool {
			as, ok := n.(*ast.AssignStmt)
			if !ok || (as.Tok != token.ASSIGN && as.Tok != token.DEFINE) {
				return false
			}
			for i, l := range as.Lhs {
				if fieldOf(info, l) != fl {
					continue
				}
				var rhs ast.Expr
				if len(as.Rhs) == len(as.Lhs) {
					rhs = as.Rhs[i]
				} else if len(as.Rhs) == 1 {
					rhs = as.Rhs[0]
				}
				if rhs == nil {
					continue
				}
				// the new value must not come out of the decoder's own state
				stale := false
				ast.Inspect(rhs, func(y ast.Node) bool {
					if sel, ok := y.(*ast.SelectorExpr); ok {
						if f2 := fieldOf(info, sel); f2 != nil && namedPath(h.holderOfField(f2)) == namedPath(m.ddT) {
							stale = true
						}
					}
					return true
				})
				if !stale {
					return true
				}
			}
			return false
		}
		c := "publish@PrimitiveBlock dec." + fl.Name()
		// when the defaults are established on the stored holder itself (field by field through it, or by rebuilding
		// it in place) on every path to the parsing, there is nothing to publish
		direct := !cached
		for _, p := range h.paramList() {
			if cached {
				break
			}
			rs := h.isReset(p)
			through := func(f *c01Fn, n ast.Node) bool {
				as, ok := n.(*ast.AssignStmt)
				if !ok || !rs(f, n) {
					return false
				}
				for _, l := range as.Lhs {
					for _, f3 := range c01ChainFields(info, c01Chain(info, f.body, l)) {
						if f3 == fl {
							return true
						}
					}
				}
				return false
			}
			if c01NewSum(r.P, through).Unprotected(cm.entry, isParse, map[*types.Func]int{}) {
				direct = false
			}
		}
		if direct {
			r.OK(c, bs.Decl.Pos(), "the format defaults are established on dec.%s itself before a block is parsed, and the parameters are parsed into it: nothing has to be copied", fl.Name())
			continue
		}
		sumP := c01NewSum(r.P, isPublish)
		var ppos token.Pos
		late := ""
		for _, fi := range c01Reachable(r.P, cm.entry) {
			f := c01FnOf(r.P, fi)
			for _, b := range f.g.Blocks {
				if !b.Live {
					continue
				}
				for i, n := range b.Nodes {
					if !isPublish(f, n) {
						continue
					}
					if !ppos.IsValid() {
						ppos = n.Pos()
					}
					if _, isPtr := fl.Type().Underlying().(*types.Pointer); isPtr {
						continue
					}
					// a holder stored by value: parameters written into another holder afterwards are lost
					sumW := c01NewSum(r.P, isCellWrite)
					if c01ReachAvoiding(f, b, i+1, func(x ast.Node) bool {
						// the holder is a copy of the cached block: a parameter parsed into the block afterwards is lost
						if srcWrite != nil && c01NewSum(r.P, srcWrite).nodeMay(f, x) {
							return true
						}
						if !sumW.nodeMay(f, x) {
							return false
						}
						// writes through the stored holder itself are fine
						through := false
						ast.Inspect(x, func(y ast.Node) bool {
							if as, ok := y.(*ast.AssignStmt); ok {
								for _, l := range as.Lhs {
									if _, cc := h.anyCell(l); cc != nil {
										for _, f3 := range c01ChainFields(info, c01Chain(info, f.body, l)) {
											if f3 == fl {
												through = true
											}
										}
									}
								}
							}
							return true
						})
						return !through
					}, nil) {
						late = fmt.Sprintf("after `%s` has copied the parameters into dec.%s, %s can still write a parameter into another holder: values parsed later in the block never reach the element decoding", src(fs, n), fl.Name(), fi.Name())
					}
				}
			}
		}
		if !ppos.IsValid() {
			// never assigned as a whole: fine when the parameters are parsed into the stored holder itself (the reset
			// obligations then speak about it); otherwise nothing the pass parses ever reaches the element decoding
			through := false
			var wpos token.Pos
			for _, fi := range c01Reachable(r.P, cm.entry) {
				fi := fi
				ast.Inspect(fi.Decl.Body, func(y ast.Node) bool {
					as, ok := y.(*ast.AssignStmt)
					if !ok {
						return true
					}
					for _, l := range as.Lhs {
						if _, cc := h.anyCell(l); cc != nil {
							if !wpos.IsValid() {
								wpos = as.Pos()
							}
							for _, f3 := range c01ChainFields(info, c01Chain(info, fi.Decl.Body, l)) {
								if f3 == fl {
									through = true
								}
							}
						}
					}
					return true
				})
			}
			if !through {
				r.Bad(c, wpos, "the element decoding reads the block parameters through dec.%s, but the parameters parsed from the block are written into another value that is never stored there: every block is decoded with whatever dec.%s held before", fl.Name(), fl.Name())
			}
			continue
		}
		switch {
		case late != "":
			r.Bad(c, ppos, "%s", late)
		case sumP.Unprotected(cm.entry, isGroupDecode, map[*types.Func]int{}):
			r.Bad(c, ppos, "a path from %s reaches the decoding of a primitive group without dec.%s having been overwritten with the parameters built for this block: the elements are decoded with the previous block's granularity / offsets / strings", cm.entry.Name(), fl.Name())
		default:
			r.OK(c, ppos, "every path from %s to the decoding of a group overwrites dec.%s as a whole with a value built during this call, and no parameter is parsed into another holder afterwards", cm.entry.Name(), fl.Name())
		}
	}
	return isCellWrite
}

// holderOfField returns the named struct type declaring field f (nil when none).
func (h *c01Holder) holderOfField(f *types.Var) types.Type {
	if f == nil || f.Pkg() == nil {
		return nil
	}
	if hn := h.holderOf(f); hn != nil {
		return hn
	}
	return nil
}
