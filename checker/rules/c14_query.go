package rules

import (
	"fmt"
	"go/ast"
	"sort"
	"strings"

	"golang.org/x/tools/go/cfg"
)

// reachability queries

type c14Set map[*c14State]bool

// reach walks forward from starts. stop(s) keeps s in the result but does not leave it; skip(from, e) removes an edge.
func (g *c14Graph) reach(starts []*c14State, stop func(*c14State) bool, skip func(*c14State, c14Edge) bool) c14Set {
	seen := c14Set{}
	work := append([]*c14State{}, starts...)
	for len(work) > 0 {
		s := work[len(work)-1]
		work = work[:len(work)-1]
		if seen[s] {
			continue
		}
		seen[s] = true
		if stop != nil && stop(s) {
			continue
		}
		for _, e := range s.out {
			if skip != nil && skip(s, e) {
				continue
			}
			work = append(work, e.to)
		}
	}
	return seen
}

// succsOf returns the targets of the edges of the given states that satisfy pick.
func c14Succs(states []*c14State, pick func(c14Edge) bool) []*c14State {
	var out []*c14State
	for _, s := range states {
		for _, e := range s.out {
			if pick == nil || pick(e) {
				out = append(out, e.to)
			}
		}
	}
	return out
}

func (g *c14Graph) statesOf(nodes ...*c14Node) []*c14State {
	var out []*c14State
	for _, n := range nodes {
		out = append(out, g.byNode[n]...)
	}
	return out
}

func (s c14Set) hasNode(nodes ...*c14Node) bool {
	for st := range s {
		for _, n := range nodes {
			if st.n == n {
				return true
			}
		}
	}
	return false
}

func (s c14Set) exits() []*c14State {
	var out []*c14State
	for st := range s {
		if st.exit {
			out = append(out, st)
		}
	}
	sort.Slice(out, func(i, j int) bool { return out[i].id < out[j].id })
	return out
}

// execNodes lists the executing nodes of the graph (one per syntax node and activation) in creation order.
func (g *c14Graph) execNodes() []*c14Node {
	var out []*c14Node
	for _, n := range g.nodeList {
		if n.exec() && len(g.byNode[n]) > 0 {
			out = append(out, n)
		}
	}
	return out
}

// exitStates lists the returns of the root activation.
func (g *c14Graph) exitStates() []*c14State {
	var out []*c14State
	for _, s := range g.stateList {
		if s.exit {
			out = append(out, s)
		}
	}
	return out
}

// c14Loop is a range or for loop of some activation; its head is the go/cfg loop block.
type c14Loop struct {
	ctx  *c14Ctx
	blk  *cfg.Block
	stmt ast.Stmt
}

func (l *c14Loop) isHead(s *c14State) bool { return s.n.ctx == l.ctx && s.n.blk == l.blk }

func (g *c14Graph) loops() []*c14Loop {
	var out []*c14Loop
	seen := map[c14NodeKey]bool{}
	for _, s := range g.stateList {
		for _, e := range s.out {
			if e.loop != 0 {
				k := c14NodeKey{ctx: s.n.ctx, blk: s.n.blk}
				if !seen[k] {
					seen[k] = true
					out = append(out, &c14Loop{ctx: s.n.ctx, blk: s.n.blk, stmt: s.n.blk.Stmt})
				}
			}
		}
	}
	return out
}

func (g *c14Graph) loopEdges(l *c14Loop, dir int8) []*c14State {
	var out []*c14State
	for _, s := range g.stateList {
		if l.isHead(s) {
			for _, e := range s.out {
				if e.loop == dir {
					out = append(out, e.to)
				}
			}
		}
	}
	return out
}

// body returns the states of one iteration of l: reachable from an iteration edge without passing the head again.
func (g *c14Graph) body(l *c14Loop) c14Set {
	return g.reach(g.loopEdges(l, 1), l.isHead, nil)
}

func (g *c14Graph) isDone(l *c14Loop) func(*c14State, c14Edge) bool {
	return func(s *c14State, e c14Edge) bool { return l.isHead(s) && e.loop == -1 }
}

// dump renders the graph (debugging aid, C14_DEBUG=1).
func (g *c14Graph) dump() string {
	var b strings.Builder
	fmt.Fprintf(&b, "== graph %s: %d states, %d nodes\n", g.name, len(g.stateList), len(g.nodeList))
	for _, s := range g.stateList {
		n := s.n
		what := "tail"
		if n.ast != nil {
			what = src(g.e.p.Fset, n.ast)
		}
		fmt.Fprintf(&b, "s%d n%d ctx%d(%s) blk%d.%d.%d %q {%s}", s.id, n.id, n.ctx.id, n.ctx.fn.name, n.blk.Index, n.idx, n.step, what, s.store.key)
		if s.exit {
			b.WriteString(" EXIT")
		}
		if s.dead {
			b.WriteString(" DEAD")
		}
		b.WriteString(" ->")
		for _, e := range s.out {
			fmt.Fprintf(&b, " s%d", e.to.id)
			if e.val > 0 {
				b.WriteString("T")
			} else if e.val < 0 {
				b.WriteString("F")
			}
			if e.loop > 0 {
				b.WriteString("i")
			} else if e.loop < 0 {
				b.WriteString("d")
			}
			if e.kind != 0 {
				b.WriteByte(e.kind)
			}
		}
		b.WriteString("\n")
	}
	return b.String()
}
