package rules

import (
	"go/ast"
	"go/types"
)

// Function literals in the key derivation.
//
// The statements that build an update may sit in a callback handed to an iteration helper
// (`locs.each(func(cl childLoc) { ... })`) or in a local closure (`emit := func(...) {...}; emit(x)`). A literal is
// analysed like a function: it gets its own control-flow graph; its parameters are bound at the calls that invoke it
// (the calls of the helper's function-typed parameter, or of the local that holds the literal); variables it captures
// are resolved in the function it is written in; the loops around it are, from the inside out, the loops of its own
// body, the loops around the call that invokes it, and the loops around the call that passes it.

// litFn returns the analysed form of a function literal written in outer.
func (cx *c12KeyCx) litFn(lit *ast.FuncLit, outer *c12Fn) *c12Fn {
	if cx.lits == nil {
		cx.lits = map[*ast.FuncLit]*c12Fn{}
	}
	if f, ok := cx.lits[lit]; ok {
		return f
	}
	sig, _ := outer.info().TypeOf(lit).(*types.Signature)
	if sig == nil {
		cx.lits[lit] = nil
		return nil
	}
	obj := types.NewFunc(lit.Pos(), outer.pk.Types, "func literal in "+outer.fi.Name(), sig)
	fi := &FuncInfo{Pkg: outer.pk, Decl: &ast.FuncDecl{Name: ast.NewIdent("func"), Type: lit.Type, Body: lit.Body}, Obj: obj}
	f := c12MakeFn(outer.pk, fi)
	f.lit, f.outer = lit, outer
	cx.lits[lit] = f
	return f
}

// callSitesOf lists the calls that invoke f: static calls for a declared function; for a literal, the calls of the
// function-typed parameter it is bound to in the helper it is passed to, or of the local variable that holds it.
func (cx *c12KeyCx) callSitesOf(f *c12Fn) []c12CallSite {
	if f.lit == nil {
		return cx.s.callSites(f)
	}
	par := parentsOf(cx.r.P, f.outer.fi)
	info := f.info()
	var out []c12CallSite
	switch p := par[f.lit].(type) {
	case *ast.CallExpr:
		// h(..., func(...) {...}, ...)
		h := cx.s.fn(callee(info, p))
		if h == nil {
			return nil
		}
		k := -1
		for i, a := range p.Args {
			if a == ast.Expr(f.lit) {
				k = i
			}
		}
		var q types.Object
		i := 0
		for _, fl := range h.fi.Decl.Type.Params.List {
			for _, nm := range fl.Names {
				if i == k {
					q = h.info().Defs[nm]
				}
				i++
			}
		}
		if q == nil {
			return nil
		}
		inspectNoLit(h.fi.Decl.Body, func(n ast.Node) bool {
			if c, ok := n.(*ast.CallExpr); ok && objOf(h.info(), ast.Unparen(c.Fun)) == q {
				out = append(out, c12CallSite{in: h.fi, call: c, via: p})
			}
			return true
		})
	case *ast.AssignStmt:
		// emit := func(...) {...}; ...; emit(x)
		var v types.Object
		for i, r := range p.Rhs {
			if r == ast.Expr(f.lit) && i < len(p.Lhs) {
				v = objOf(info, p.Lhs[i])
			}
		}
		if v == nil || c12SingleDef(info, f.outer.fi.Decl.Body, v) == nil {
			return nil
		}
		ast.Inspect(f.outer.fi.Decl.Body, func(n ast.Node) bool {
			if c, ok := n.(*ast.CallExpr); ok && objOf(info, ast.Unparen(c.Fun)) == v {
				out = append(out, c12CallSite{in: f.outer.fi, call: c})
			}
			return true
		})
	}
	return out
}

// siteFn returns the analysed function a call site lies in (a declared function, or the literal's outer function).
func (cx *c12KeyCx) siteFn(f *c12Fn, cs c12CallSite) *c12Fn {
	if f.lit != nil && cs.in == f.outer.fi {
		return f.outer
	}
	g := cx.s.fn(cs.in.Obj)
	if g == nil {
		return nil
	}
	return cx.fnAt(g, parentsOf(cx.r.P, cs.in), cs.call) // the call may be written inside a literal of g
}

// captured: o is a variable of the function a literal is written in (declared outside the literal).
func c12Captured(f *c12Fn, o types.Object) bool {
	return f.lit != nil && o != nil && o.Pos().IsValid() && (o.Pos() < f.lit.Pos() || o.Pos() >= f.lit.End())
}

// literals lists the function literals written in fi (at any depth) with the analysed function each is written in.
func (cx *c12KeyCx) literals(f *c12Fn) []*c12Fn {
	var out []*c12Fn
	var walk func(body ast.Node, outer *c12Fn)
	walk = func(body ast.Node, outer *c12Fn) {
		ast.Inspect(body, func(n ast.Node) bool {
			lit, ok := n.(*ast.FuncLit)
			if !ok {
				return true
			}
			if lf := cx.litFn(lit, outer); lf != nil {
				out = append(out, lf)
				walk(lit.Body, lf)
			}
			return false
		})
	}
	walk(f.fi.Decl.Body, f)
	return out
}

// fnAt returns the analysed function node lies in: f itself, or the innermost function literal of f around node.
func (cx *c12KeyCx) fnAt(f *c12Fn, par map[ast.Node]ast.Node, node ast.Node) *c12Fn {
	var lits []*ast.FuncLit
	for p := par[node]; p != nil; p = par[p] {
		if lit, ok := p.(*ast.FuncLit); ok {
			lits = append(lits, lit)
		}
		if p == ast.Node(f.fi.Decl) {
			break
		}
	}
	cur := f
	for i := len(lits) - 1; i >= 0 && cur != nil; i-- {
		cur = cx.litFn(lits[i], cur)
	}
	if cur == nil {
		return f
	}
	return cur
}

// declared returns the declared function a literal is (transitively) written in; a declared function is its own.
func (f *c12Fn) declared() *c12Fn {
	for f.outer != nil {
		f = f.outer
	}
	return f
}
