package rules

import (
	"go/ast"
	"go/token"
	"go/types"
)

// Lookup tables (round 5: "switch -> map"): a map whose whole contents are one composite literal and that
// is never written (package-level: no assignment, index store, address or delete anywhere in the package;
// local: any store through it stops the evaluation) is evaluated by looking the key up among the literal's
// elements. The values may be booleans, strings, integers, function literals or functions of the package.

// pkgMap recognises such a package-level map.
func (x *c18Exec) pkgMap(o types.Object) (c18Val, bool) {
	pv, ok := o.(*types.Var)
	if !ok || pv.IsField() || pv.Pkg() != x.pk.Types || pv.Parent() != x.pk.Types.Scope() {
		return c18Val{}, false
	}
	if _, isMap := pv.Type().Underlying().(*types.Map); !isMap {
		return c18Val{}, false
	}
	cl, ok := ast.Unparen(c18VarInit(x.pk, pv)).(*ast.CompositeLit)
	if !ok {
		return c18Unk("map %s is not initialised by a composite literal", pv.Name()), true
	}
	if w := c18Writes(x.pk, pv, nil); len(w) > 0 {
		return c18Unk("map %s is written at %s", pv.Name(), x.r.P.Rel(w[0])), true
	}
	deleted := token.NoPos
	for _, f := range x.pk.Syntax {
		ast.Inspect(f, func(n ast.Node) bool {
			if call, ok := n.(*ast.CallExpr); ok && (builtinName(x.info, call) == "delete" || builtinName(x.info, call) == "clear") && len(call.Args) > 0 && rootObj(x.info, call.Args[0]) == o {
				deleted = call.Pos()
			}
			return true
		})
	}
	if deleted.IsValid() {
		return c18Unk("map %s is modified at %s", pv.Name(), x.r.P.Rel(deleted)), true
	}
	return c18Val{k: c18KMap, cl: cl}, true
}

// mapLookup evaluates m[key] on a literal map: the value of the element whose key equals the key (keys are
// compared like any other pair of abstract values), or the zero value of the element type.
func (x *c18Exec) mapLookup(fr *c18Frame, m c18Val, ix *ast.IndexExpr) (c18Val, c18Val) {
	key := x.eval(fr, ix.Index)
	if key.k == c18KUnknown {
		return key, key
	}
	mt, _ := x.info.TypeOf(m.cl).Underlying().(*types.Map)
	if mt == nil {
		u := c18Unk("`%s` is not a map lookup", x.src(ix))
		return u, u
	}
	def := m.fr
	if def == nil {
		def = x.newFrame(nil, nil, 0)
	}
	for _, el := range m.cl.Elts {
		kv, ok := el.(*ast.KeyValueExpr)
		if !ok {
			continue
		}
		eq := x.compare(token.EQL, key, x.eval(def, kv.Key), ix)
		if eq.k != c18KBool {
			return eq, eq
		}
		if eq.b {
			return x.eval(def, kv.Value), c18Val{k: c18KBool, b: true}
		}
	}
	return x.zero(mt.Elem()), c18Val{k: c18KBool}
}

// evalMulti evaluates the right-hand side of `a, b := e`: a call with several results, or the comma-ok form of
// a lookup in a literal map.
func (x *c18Exec) evalMulti(fr *c18Frame, e ast.Expr, n int) c18Val {
	if ix, ok := ast.Unparen(e).(*ast.IndexExpr); ok && n == 2 {
		switch m := x.eval(fr, ix.X); m.k {
		case c18KMap:
			v, found := x.mapLookup(fr, m, ix)
			return c18Val{k: c18KTuple, elems: []c18Val{v, found}}
		case c18KKeyIdx:
			mt, _ := x.info.TypeOf(ix.X).Underlying().(*types.Map)
			v, found := x.keyLookup(m.ki, x.eval(fr, ix.Index), ix, mt.Elem())
			return c18Val{k: c18KTuple, elems: []c18Val{v, found}}
		}
	}
	return x.eval(fr, e)
}
