package rules

// C11.A5 window@Compute bound — PROVENANCE of the exclusive end of the update window [start, end).
//
// The bound is not judged arithmetically; what is decided is which child version it is derived from and
// whether that version is inside or outside the window:
//
//   last            child[len(child)-1] when there is no next parent version: every later version is an
//                   update of this parent                                           -> bound = idx + 1
//   before-cutoff   the selector called with only a time derived from the NEXT parent (VersionBefore(cutoff)):
//                   the last version strictly before the next parent lies inside this parent's interval,
//                   visible or not (deleted versions are filtered by the window's own visibility test)
//                                                                                   -> bound = idx + 1
//   at-next         the selector called with the NEXT parent's changeset (FindVisible at the next parent): the
//                   version the next parent starts from is the exclusive end        -> bound = idx + 0
//                   unless the path decided that this version's time is Before a time derived from the next
//                   parent (it was written early enough to be a minor version of this parent)
//                                                                                   -> bound = idx + 1
//   none            the constant 0: no updates
//
// Any other combination (before-cutoff + 0, at-next + 1 without the time decision, + 2, a version of another
// role such as the current child of THIS parent) is a violation; a bound whose provenance cannot be
// resolved is Unknown.

import (
	"go/token"
	"strconv"
)

// boundVerdict classifies the bound E of the window entered on st for the group with parent index I.
// nextGuard is the truth of `I < len(parents)-1` when the window is entered.
func (m *c11Model) boundVerdict(st *c11St, E, I *c11V, nextGuard c11Tri, upto int) (role, bad, unk string) {
	if E.isConstInt(0) {
		return "none -> 0", "", ""
	}
	f, n := c11PlusConst(E)
	if f.k != "field" || f.obj.Name() != "VersionIndex" {
		return "", "", "the bound " + m.short(E) + " is not <child version>.VersionIndex + constant (nor 0): its provenance cannot be resolved"
	}
	v := f.xs[0]
	ns := strconv.FormatInt(n, 10)
	nextIdx := c11Bin(token.ADD, I, c11Int(1))
	nextP := &c11V{k: "index", xs: []*c11V{m.P, nextIdx}}
	// last version of the list
	if v.k == "index" && v.xs[0].key() == m.childT.key() {
		lenC := &c11V{k: "call", name: "len", xs: []*c11V{m.childT}}
		if v.xs[1].key() == c11Bin(token.SUB, lenC, c11Int(1)).key() {
			switch {
			case nextGuard != c11F && st.isNil(nextP, upto) != c11T:
				return "", "the bound is taken from the last child version although a next parent version may exist (neither I < len(parents)-1 decided false nor parents[I+1] decided nil): the window would run past the next parent version", ""
			case n != 1:
				return "", "without a next parent version the bound is <last version>.VersionIndex + " + ns + ": every later version is an update of this parent, the bound must be that index + 1", ""
			}
			return "last -> idx+1", "", ""
		}
		return "", "", "the bound derives from " + m.short(v) + ", a child version whose role is not known"
	}
	args, ok := m.selector(v)
	if !ok {
		return "", "", "the bound derives from " + m.short(v) + ", which is not the result of a child version selector on the fetched list"
	}
	// which parent does the selector call look at
	atNext, atThis, timeOnly := false, false, len(args) == 1
	for _, a := range args {
		if prv, _, isCS := a.isMethodCall(c11CorePath+".Parent", "ChangesetID"); isCS {
			if x, ok := m.isParent(prv); ok {
				atNext = atNext || x.key() == nextIdx.key()
				atThis = atThis || x.key() == I.key()
			}
		}
	}
	switch {
	case atThis:
		return "", "the bound derives from " + m.short(v) + ", the CURRENT child of this parent: the window [start, end) must end at a version determined by the next parent version", ""
	case atNext:
		early := c11U // decision `<time of v>.Before(<time derived from the next parent>)`
		for i, a := range st.as {
			if i >= upto {
				break
			}
			rv, bargs, isBefore := a.atom.isMethodCall("time.Time", "Before")
			if isBefore && len(bargs) == 1 && rv.mentions(v.key()) && bargs[0].mentions(nextP.key()) {
				early = c11F
				if a.val {
					early = c11T
				}
			}
		}
		switch {
		case n == 0 && early == c11F, n == 1 && early == c11T:
			return "at-next -> idx+" + ns, "", ""
		case n == 0 || n == 1:
			return "", "the bound is <version the next parent starts from>.VersionIndex + " + ns + " on a path that has " + map[c11Tri]string{c11U: "not decided", c11T: "decided true", c11F: "decided false"}[early] + " whether that version was written before the next parent's time window: it is the exclusive end (+0) unless decided early enough (+1)", ""
		}
		return "", "the bound is <version the next parent starts from>.VersionIndex + " + ns + ": it must be that index (exclusive end) or that index + 1", ""
	case timeOnly && args[0].mentions(nextP.key()):
		if st.isNil(v, upto) != c11F {
			return "", "the bound dereferences " + m.short(v) + " on a path that has not decided it is non-nil", ""
		}
		if n != 1 {
			return "", "the bound is <last version before the next parent>.VersionIndex + " + ns + ": that version lies inside this parent's interval, visible or not, and must be included (index + 1); otherwise the last child edit between two parent versions goes missing from the updates", ""
		}
		return "before-cutoff -> idx+1", "", ""
	case timeOnly:
		return "", "the bound derives from " + m.short(v) + ", a version looked up relative to THIS parent, not to the next parent version", ""
	}
	return "", "", "the bound derives from " + m.short(v) + ", a selector call whose role (which parent it looks at) is not known"
}
