package rules

import "osmcheck/core"

// c20Mutants2: part 2 of the sensitivity suite of C20 (see c20.go).
func c20Mutants2() []core.Mutant {
	return []core.Mutant{
		{Name: "uri-too-long-fabricated-before-limiter-and-request", File: "osmapi/datasource.go",
			Find: `	if ds.Limiter != nil {
		err := ds.Limiter.Wait(ctx)
`,
			Replace: `	if len(url) > 8190 {
		// known to fail, do not spend a limiter token and a round trip on it.
		return &RequestURITooLongError{URL: url}
	}

	if ds.Limiter != nil {
		err := ds.Limiter.Wait(ctx)
`, ExpectRule: "H1", ExpectConstruct: "do-once@"},
		{Name: "empty-url-returns-nil-without-request", File: "osmapi/datasource.go",
			Find: `	if ds.Limiter != nil {
		err := ds.Limiter.Wait(ctx)
`,
			Replace: `	if url == "" {
		return nil
	}

	if ds.Limiter != nil {
		err := ds.Limiter.Wait(ctx)
`, ExpectRule: "H1", ExpectConstruct: "do-once@"},
		{Name: "ways-empty-id-list-returns-nil-without-request", File: "osmapi/way.go",
			Find: `	data := make([]byte, 0, 11*len(ids))
`,
			Replace: `	if len(ids) == 0 {
		return nil, nil
	}
	data := make([]byte, 0, 11*len(ids))
`, ExpectRule: "H1", ExpectConstruct: "once@(*Datasource).Ways"},
		{Name: "node-negative-id-synthesises-404", File: "osmapi/node.go",
			Find: `	url := fmt.Sprintf("%s/node/%d?%s", ds.baseURL(), id, params)
`,
			Replace: `	url := fmt.Sprintf("%s/node/%d?%s", ds.baseURL(), id, params)
	if id < 0 {
		return nil, &NotFoundError{URL: url}
	}
`, ExpectRule: "H1", ExpectConstruct: "once@(*Datasource).Node"},
		{Name: "notes-presized-list-leading-empty-element", File: "osmapi/note.go",
			Find: `	params := make([]string, 0, 1+len(opts))
	params = append(params, fmt.Sprintf("bbox=%f,%f,%f,%f",
		bounds.MinLon, bounds.MinLat,
		bounds.MaxLon, bounds.MaxLat))
`,
			Replace: `	params := make([]string, 2, 2+len(opts))
	params[1] = fmt.Sprintf("bbox=%f,%f,%f,%f",
		bounds.MinLon, bounds.MinLat,
		bounds.MaxLon, bounds.MaxLat)
`, ExpectRule: "H4", ExpectConstruct: "path@(*Datasource).Notes"},
		{Name: "nodes-presized-ids-joined-with-semicolon", File: "osmapi/node.go",
			Find: `	"strconv"

	"github.com/paulmach/osm"
)

// Node returns the latest version of the node from the osm rest api.
// Delegates to the DefaultDatasource and uses its http.Client to make the request.
func Node(ctx context.Context, id osm.NodeID, opts ...FeatureOption) (*osm.Node, error) {
	return DefaultDatasource.Node(ctx, id, opts...)
}

// Node returns the latest version of the node from the osm rest api.
func (ds *Datasource) Node(ctx context.Context, id osm.NodeID, opts ...FeatureOption) (*osm.Node, error) {
	params, err := featureOptions(opts)
	if err != nil {
		return nil, err
	}
	url := fmt.Sprintf("%s/node/%d?%s", ds.baseURL(), id, params)

	o := &osm.OSM{}
	if err := ds.getFromAPI(ctx, url, &o); err != nil {
		return nil, err
	}

	if l := len(o.Nodes); l != 1 {
		return nil, fmt.Errorf("wrong number of nodes, expected 1, got %v", l)
	}

	return o.Nodes[0], nil
}

// Nodes returns the latest version of the nodes from the osm rest api.
// Delegates to the DefaultDatasource and uses its http.Client to make the request.
func Nodes(ctx context.Context, ids []osm.NodeID, opts ...FeatureOption) (osm.Nodes, error) {
	return DefaultDatasource.Nodes(ctx, ids, opts...)
}

// Nodes returns the latest version of the nodes from the osm rest api.
// Will return 404 if any node is missing.
func (ds *Datasource) Nodes(ctx context.Context, ids []osm.NodeID, opts ...FeatureOption) (osm.Nodes, error) {
	params, err := featureOptions(opts)
	if err != nil {
		return nil, err
	}

	data := make([]byte, 0, 11*len(ids))
	for i, id := range ids {
		if i != 0 {
			data = append(data, byte(','))
		}
		data = strconv.AppendInt(data, int64(id), 10)
	}
	url := ds.baseURL() + "/nodes?nodes=" + string(data)
`,
			Replace: `	"strconv"
	"strings"

	"github.com/paulmach/osm"
)

// Node returns the latest version of the node from the osm rest api.
// Delegates to the DefaultDatasource and uses its http.Client to make the request.
func Node(ctx context.Context, id osm.NodeID, opts ...FeatureOption) (*osm.Node, error) {
	return DefaultDatasource.Node(ctx, id, opts...)
}

// Node returns the latest version of the node from the osm rest api.
func (ds *Datasource) Node(ctx context.Context, id osm.NodeID, opts ...FeatureOption) (*osm.Node, error) {
	params, err := featureOptions(opts)
	if err != nil {
		return nil, err
	}
	url := fmt.Sprintf("%s/node/%d?%s", ds.baseURL(), id, params)

	o := &osm.OSM{}
	if err := ds.getFromAPI(ctx, url, &o); err != nil {
		return nil, err
	}

	if l := len(o.Nodes); l != 1 {
		return nil, fmt.Errorf("wrong number of nodes, expected 1, got %v", l)
	}

	return o.Nodes[0], nil
}

// Nodes returns the latest version of the nodes from the osm rest api.
// Delegates to the DefaultDatasource and uses its http.Client to make the request.
func Nodes(ctx context.Context, ids []osm.NodeID, opts ...FeatureOption) (osm.Nodes, error) {
	return DefaultDatasource.Nodes(ctx, ids, opts...)
}

// Nodes returns the latest version of the nodes from the osm rest api.
// Will return 404 if any node is missing.
func (ds *Datasource) Nodes(ctx context.Context, ids []osm.NodeID, opts ...FeatureOption) (osm.Nodes, error) {
	params, err := featureOptions(opts)
	if err != nil {
		return nil, err
	}

	strs := make([]string, len(ids))
	for i := range ids {
		strs[i] = strconv.FormatInt(int64(ids[i]), 10)
	}
	url := ds.baseURL() + "/nodes?nodes=" + strings.Join(strs, ";")
`, ExpectRule: "H4", ExpectConstruct: "path@(*Datasource).Nodes"},
		{Name: "int64-list-join-separator-guard-inverted", File: "osmapi/way.go",
			Find: `	data := make([]byte, 0, 11*len(ids))
	for i, id := range ids {
		if i != 0 {
			data = append(data, byte(','))
		}
		data = strconv.AppendInt(data, int64(id), 10)
	}
	url := ds.baseURL() + "/ways?ways=" + string(data)
	if len(params) > 0 {
		url += "&" + params
	}

	o := &osm.OSM{}
	if err := ds.getFromAPI(ctx, url, &o); err != nil {
		return nil, err
	}

	return o.Ways, nil
}
`,
			Replace: `	raw := make([]int64, len(ids))
	for i, id := range ids {
		raw[i] = int64(id)
	}
	url := ds.baseURL() + "/ways?ways=" + joinInts(raw...)
	if len(params) > 0 {
		url += "&" + params
	}

	o := &osm.OSM{}
	if err := ds.getFromAPI(ctx, url, &o); err != nil {
		return nil, err
	}

	return o.Ways, nil
}

// joinInts formats the numbers in base 10, comma separated.
func joinInts(nums ...int64) (list string) {
	for _, n := range nums {
		if list == "" {
			list += ","
		}
		list += strconv.FormatInt(n, 10)
	}
	return
}
`, ExpectRule: "H4", ExpectConstruct: "path@(*Datasource).Ways"},
		{Name: "request-struct-joins-with-semicolon", File: "osmapi/note.go",
			Find: `	params := make([]string, 0, 1+len(opts))
	params = append(params, fmt.Sprintf("bbox=%f,%f,%f,%f",
		bounds.MinLon, bounds.MinLat,
		bounds.MaxLon, bounds.MaxLat))

	var err error
	for _, o := range opts {
		params, err = o.applyNotes(params)
		if err != nil {
			return nil, err
		}
	}

	url := fmt.Sprintf("%s/notes?%s", ds.baseURL(), strings.Join(params, "&"))

	o := &osm.OSM{}
	if err := ds.getFromAPI(ctx, url, &o); err != nil {
		return nil, err
	}

	return o.Notes, nil
}
`,
			Replace: `	q := &query{}
	q.path = ds.baseURL() + "/notes"
	q.add(fmt.Sprintf("bbox=%f,%f,%f,%f",
		bounds.MinLon, bounds.MinLat,
		bounds.MaxLon, bounds.MaxLat))

	for _, o := range opts {
		var err error
		if q.parts, err = o.applyNotes(q.parts); err != nil {
			return nil, err
		}
	}

	url := q.String()

	o := &osm.OSM{}
	if err := ds.getFromAPI(ctx, url, &o); err != nil {
		return nil, err
	}

	return o.Notes, nil
}

// query is a request url under construction.
type query struct {
	path  string
	parts []string
}

func (q *query) add(p string) { q.parts = append(q.parts, p) }

func (q query) String() (s string) {
	s = q.path + "?"
	s += strings.Join(q.parts, ";")
	return
}
`, ExpectRule: "H4", ExpectConstruct: "path@(*Datasource).Notes"},
		{Name: "named-results-request-error-cleared", File: "osmapi/changeset.go",
			Find: `func (ds *Datasource) getChangeset(ctx context.Context, url string) (*osm.Changeset, error) {
	css := &osm.OSM{}
	if err := ds.getFromAPI(ctx, url, &css); err != nil {
		return nil, err
	}

	if l := len(css.Changesets); l != 1 {
		return nil, fmt.Errorf("wrong number of changesets, expected 1, got %v", l)
	}

	return css.Changesets[0], nil
}
`,
			Replace: `func (ds *Datasource) getChangeset(ctx context.Context, url string) (cs *osm.Changeset, err error) {
	css := &osm.OSM{}
	if err = ds.getFromAPI(ctx, url, &css); err != nil {
		err = nil
	}

	if l := len(css.Changesets); l != 1 {
		err = fmt.Errorf("wrong number of changesets, expected 1, got %v", l)
		return
	}

	cs = css.Changesets[0]
	return
}
`, ExpectRule: "H3", ExpectConstruct: "propagate@(*Datasource).Changeset"},
		{Name: "limiter-failure-reported-as-ctx-err", File: "osmapi/datasource.go",
			Find: `		err := ds.Limiter.Wait(ctx)
		if err != nil {
			return err
		}
`,
			Replace: `		if err := ds.Limiter.Wait(ctx); err != nil {
			return ctx.Err()
		}
`, ExpectRule: "H2", ExpectConstruct: "wait-error"},
		{Name: "limiter-failure-ignored-while-context-alive", File: "osmapi/datasource.go",
			Find: `		err := ds.Limiter.Wait(ctx)
		if err != nil {
			return err
		}
`,
			Replace: `		err := ds.Limiter.Wait(ctx)
		if err != nil && ctx.Err() != nil {
			return err
		}
`, ExpectRule: "H2", ExpectConstruct: "wait-error"},
	}
}
