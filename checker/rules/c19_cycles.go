package rules

// c19_cycles.go — the ways round a neighbour-scan loop (part of C19.M2).
//
// A scan may step its variable after the probe (`probe(v); v--`, start mid-1, test lo < v) or before it
// (`v--; probe(v)`, start mid, test lo+1 < v): what matters is the sequence of values probed. The ways round the
// loop are enumerated on the CFG (under "the probe found nothing" after the probe); for each the steps of the
// scanned variable before and after the probe are collected. With β the net step before the probe, the value
// probed is p = v + β where v is the value the loop tests: the start and bound obligations are stated on p.

import (
	"go/ast"
	"go/types"

	"golang.org/x/tools/go/cfg"
)

type c19Cycle struct {
	probed        bool
	before, after []*c19Step
}

func (c c19Cycle) net(steps []*c19Step) int {
	n := 0
	for _, st := range steps {
		n += st.dir
	}
	return n
}

// scanCycles enumerates the ways round the scan loop s from the start of its body back to its head. After the
// probe the nil tests of the probe's result (and its copies) are decided as "nothing found"; boolean parameters
// with constant arguments are decided too. ok=false: the loop was not found in the CFG.
func (m *c19Model) scanCycles(s *c19Scan, v, res types.Object) (cycles []c19Cycle, ok bool) {
	info := m.info
	sfi := s.fr.fi
	g := m.graph(sfi)
	head, body := m.loopBlocks(g.g, s.loop)
	if head == nil || body == nil || v == nil {
		return nil, false
	}
	var missing func(ast.Expr) tri
	if res != nil {
		missing = m.nilAtom(c19Copies(info, sfi.Decl.Body, map[types.Object]bool{res: true}), true)
	}
	var dfs func(b *cfg.Block, cur c19Cycle, onPath map[*cfg.Block]bool)
	dfs = func(b *cfg.Block, cur c19Cycle, onPath map[*cfg.Block]bool) {
		for _, n := range b.Nodes {
			if c19Contains(n, s.fetch.Pos()) {
				cur.probed = true
				continue
			}
			if st := c19StepOf(info, n); st != nil && st.v == v {
				if cur.probed {
					cur.after = append(append([]*c19Step{}, cur.after...), st)
				} else {
					cur.before = append(append([]*c19Step{}, cur.before...), st)
				}
			}
		}
		at := m.frameAtom(s.fr, nil)
		if cur.probed {
			at = m.frameAtom(s.fr, missing)
		}
		for _, nx := range m.succsUnder(b, at) {
			if nx == head {
				cycles = append(cycles, cur)
				continue
			}
			if onPath[nx] || !m.blockInside(nx, s.loop) {
				continue
			}
			onPath[nx] = true
			dfs(nx, cur, onPath)
			delete(onPath, nx)
		}
	}
	dfs(body, c19Cycle{}, map[*cfg.Block]bool{body: true})
	return cycles, true
}

// c19Beta returns the net step of the scanned variable before the probe, when it is the same on every way round
// the loop that passes the probe.
func c19Beta(cycles []c19Cycle) (beta int, ok bool) {
	first := true
	for _, cy := range cycles {
		if !cy.probed {
			continue
		}
		b := cy.net(cy.before)
		if first {
			beta, first = b, false
		} else if b != beta {
			return 0, false
		}
	}
	return beta, !first
}
