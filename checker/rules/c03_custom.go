package rules

import (
	"go/types"

	"osmcheck/core"
)

// C03.T6, second half: a hand-written UnmarshalXML is a second source of truth for the names the struct tags already
// state (the tags still drive marshalling, the documentation table T1 and every other decoder of the same data). For
// every type of package osm with xml-tagged fields and its own UnmarshalXML (osm.Action is checked against the
// external table by T4): for each attribute tag, with the start element carrying an attribute of that name, the
// tagged field - and no other - ends up holding a value computed from the attribute's Value; for each plain element
// tag, a child of that name is decoded into a value the tagged field holds at the end of the iteration.

// c03FromAttrValue: v was computed from the Value of an attribute of the start element handed to the decoder.
func c03FromAttrValue(v *c03V, start *types.Var) bool {
	return c05Derives(v, func(w *c03V) bool {
		if w.K != c03KInit || w.Root.Kind != "elem" || w.Root.Of == nil || len(w.Path) != 1 || w.Path[0].Name() != "Value" {
			return false
		}
		of := w.Root.Of
		return of.IsInit("param") && of.Root.Obj == start && len(of.Path) == 1 && of.Path[0].Name() == "Attr"
	})
}

func c03T6Names(r *core.R, v *c04Verdicts) int {
	n := 0
	for _, fi := range c03DecoderRoots(r) {
		sig := fi.Obj.Type().(*types.Signature)
		if fi.Obj.Name() != "UnmarshalXML" || sig.Recv() == nil {
			continue
		}
		rt := c03Deref(sig.Recv().Type())
		ti := c03XMLTypeInfo(rt)
		st, _ := rt.Underlying().(*types.Struct)
		if ti == nil || st == nil || len(ti.Fields) == 0 || c03TypeName(rt) == "Action" {
			continue
		}
		tname := c03TypeName(rt)
		name := fi.Name()
		recv, start := sig.Recv(), sig.Params().At(1)
		final := func(x *c03Interp, pa *c03Path, f *types.Var) *c03V {
			return x.field(pa.St, pa.St.Var(recv), f, fi.Decl, nil)
		}
		for _, xf := range ti.Fields {
			if len(xf.Via) > 0 {
				continue
			}
			switch {
			case xf.Kind == c03Attr:
				n++
				c := "attr@" + name + " " + xf.Name
				x := c03NewDecoderInterp(r.P, c03Scenario{Attr: xf.Name})
				paths := x.Run(fi, nil)
				c03DumpPaths(r.P, fi, "names, attribute "+xf.Name, paths)
				bad, reaches := "", false
				convBad, convUnknown := "", ""
				_, _, numeric := c03FieldBits(xf.Var.Type())
				for _, pa := range paths {
					if pa.End == "panic" || pa.End == "stuck" {
						continue
					}
					// (a path on which a helper maps an empty value to a constant does not carry the value: some path must)
					if fv := final(x, pa, xf.Var); c03FromAttrValue(fv, start) {
						reaches = true
						if numeric {
							b, u := c03Conversion(fv, xf.Var.Type(), start)
							if b != "" && convBad == "" {
								convBad = b
							}
							if u != "" && convUnknown == "" {
								convUnknown = u
							}
						}
					}
					for i := 0; i < st.NumFields(); i++ {
						if g := st.Field(i); g != xf.Var && c03FromAttrValue(final(x, pa, g), start) && bad == "" {
							bad = "the value of attribute \"" + xf.Name + "\" is stored into " + tname + "." + g.Name() + ", but the tag of " + tname + "." + xf.Var.Name() + " (`" + c03TagOf(xf) + "`) claims that name: marshalling and every tag-driven reader disagree with the hand-written decoder"
						}
					}
				}
				switch {
				case x.Aborted != "":
					v.unknown(c, fi.Decl.Pos(), "%s could not be explored completely: %s", name, x.Aborted)
				case bad != "":
					v.bad(c, fi.Decl.Pos(), "%s", bad)
				case !reaches:
					v.bad(c, fi.Decl.Pos(), "with an attribute named %q on the start element, %s.%s (tagged `%s`) receives its value on no path: the hand-written decoder drops what the tag (and marshalling) says the field carries", xf.Name, tname, xf.Var.Name(), c03TagOf(xf))
				default:
					v.ok(c, fi.Decl.Pos(), "the Value of attribute %q reaches %s.%s, the field tagged `%s`, and no other field", xf.Name, tname, xf.Var.Name(), c03TagOf(xf))
				}
				if numeric && reaches && x.Aborted == "" {
					n++
					cc := "conv@" + name + " " + xf.Name
					switch {
					case convBad != "":
						v.bad(cc, fi.Decl.Pos(), "%s.%s (%s) from attribute %q: %s", tname, xf.Var.Name(), c03Short(xf.Var.Type()), xf.Name, convBad)
					case convUnknown != "":
						v.unknown(cc, fi.Decl.Pos(), "%s.%s (%s) from attribute %q: on some path %s", tname, xf.Var.Name(), c03Short(xf.Var.Type()), xf.Name, convUnknown)
					default:
						v.ok(cc, fi.Decl.Pos(), "on every path that stores it, %s.%s is the result of strconv applied to the whole (trimmed) text of attribute %q with base 10 and the field's bit size", tname, xf.Var.Name(), xf.Name)
					}
				}
			case xf.Kind == c03Elem && len(xf.Parents) == 0:
				n++
				c := "child@" + name + " " + xf.Name
				x := c03NewDecoderInterp(r.P, c03Scenario{Elem: xf.Name})
				paths := x.Run(fi, nil)
				c03DumpPaths(r.P, fi, "names, element "+xf.Name, paths)
				decoded, held := false, false
				for _, pa := range paths {
					it := c03Digest(x, pa)
					if it.assert == nil || it.ok != triT || len(it.decode) == 0 {
						continue
					}
					decoded = true
					dc := it.decode[0]
					obj, _, why := c03DecodeTarget(dc)
					if why != "" {
						continue
					}
					fv := final(x, pa, xf.Var)
					hit := func(e *c03V) bool {
						if e == nil {
							return false
						}
						if e.Ident() != "" && e.Ident() == obj.Ident() {
							return true
						}
						if e.K == c03KUnk && e.Call == dc.Call {
							return true // the variable's value after the decode filled it
						}
						return e == pa.St.Pointee(obj) // a copy of what the decoded pointer points to
					}
					if hit(fv) {
						held = true
					}
					if fv.K == c03KList {
						for _, e := range fv.Elems {
							if hit(e) {
								held = true
							}
						}
					}
				}
				switch {
				case x.Aborted != "":
					v.unknown(c, fi.Decl.Pos(), "%s could not be explored completely: %s", name, x.Aborted)
				case !decoded:
					v.bad(c, fi.Decl.Pos(), "%s.%s is tagged `%s` but %s decodes nothing for a child element named %q: such children are dropped", tname, xf.Var.Name(), c03TagOf(xf), name, xf.Name)
				case !held:
					v.bad(c, fi.Decl.Pos(), "a child element <%s> is decoded but %s.%s (tagged `%s`) does not hold the decoded value when the iteration ends", xf.Name, tname, xf.Var.Name(), c03TagOf(xf))
				default:
					v.ok(c, fi.Decl.Pos(), "a child element <%s> is decoded into a value that %s.%s (tagged `%s`) holds", xf.Name, tname, xf.Var.Name(), c03TagOf(xf))
				}
			default:
				n++
				v.unknown("field@"+name+" "+xf.Var.Name(), fi.Decl.Pos(), "%s.%s is tagged `%s`: whether the hand-written %s fills it is not analysed (only plain attribute and element tags are)", tname, xf.Var.Name(), c03TagOf(xf), name)
			}
		}
	}
	return n
}

// c03SharesGlobal: v is, or is built on (appended to, sliced from), a package-level variable.
func c03SharesGlobal(v *c03V, depth int) *c03V {
	if v == nil || depth > 8 {
		return nil
	}
	if v.IsInit("global") {
		return v
	}
	for _, w := range append(append([]*c03V{v.Base}, v.From...), v.Elems...) {
		if g := c03SharesGlobal(w, depth+1); g != nil && (w == v.Base || v.K == c03KUnk) {
			return g
		}
	}
	return nil
}

// c03T6NoAlias: what a custom element decoder leaves in its receiver does not share storage with a package-level
// variable (a scratch buffer reused across decoded values makes all of them one slice).
func c03T6NoAlias(r *core.R, v *c04Verdicts) {
	for _, fi := range c03DecoderRoots(r) {
		sig := fi.Obj.Type().(*types.Signature)
		st, _ := c03Deref(sig.Recv().Type()).Underlying().(*types.Struct)
		if fi.Obj.Name() != "UnmarshalXML" || st == nil {
			continue
		}
		name := fi.Name()
		c := "noalias@" + name
		bad := false
		for _, l := range append([]string{""}, c03CompareStrings(r.P, fi)...) {
			x := c03NewDecoderInterp(r.P, c03Scenario{Elem: l})
			for _, pa := range x.Run(fi, nil) {
				for i := 0; i < st.NumFields() && !bad; i++ {
					f := st.Field(i)
					switch f.Type().Underlying().(type) {
					case *types.Slice, *types.Map, *types.Pointer:
					default:
						continue
					}
					if g := c03SharesGlobal(x.field(pa.St, pa.St.Var(sig.Recv()), f, fi.Decl, nil), 0); g != nil {
						bad = true
						v.bad(c, fi.Decl.Pos(), "when %s returns, %s.%s is built on the package-level variable %s: every value decoded this way shares (and the next decode overwrites) the same storage", name, c03TypeName(c03Deref(sig.Recv().Type())), f.Name(), g.PathString())
					}
				}
			}
		}
		if !bad {
			v.ok(c, fi.Decl.Pos(), "no slice, map or pointer field of the receiver is built on a package-level variable when %s returns", name)
		}
	}
}

// c03T6: hand-written element decoders decode into fresh values and agree with the struct tags.
func c03T6(r *core.R) {
	c03Init(r)
	var v c04Verdicts
	nf := c03T6Fresh(r, &v)
	nn := c03T6Names(r, &v)
	c03T6NoAlias(r, &v)
	v.emit(r)
	r.Stat("decode_calls_in_loops", nf)
	if nn == 0 {
		r.OKTrivial("names@UnmarshalXML", 0, "no type of package osm with xml-tagged fields other than Action (checked by T4) has a hand-written UnmarshalXML: the tags are the only source of names")
	}
	if nf == 0 {
		r.Anchor("a DecodeElement call inside a loop in the scanner or a custom element decoder")
	}
}
