package rules

// Symbolic values for the C11 path interpreter (c11_interp.go).
//
// A c11V is an immutable term over the *initial* values of parameters, globals and loop-iteration symbols.
// Two terms with the same key denote the same value on a path (calls are assumed pure, see Assumptions of C11).
// Local variable names never appear in a term: `n := &w.Nodes[i]; n.Lat` and `w.Nodes[i].Lat` have the same key,
// a renamed local changes nothing, a value computed in an extracted helper is the term the helper returns.

import (
	"go/ast"
	"go/constant"
	"go/token"
	"go/types"
	"sort"
	"strconv"
	"strings"
)

type c11V struct {
	k    string         // const nil zero sym field index slice addr deref bin not call callv res struct assert typeis funclit func lit unk
	cv   constant.Value // const
	obj  types.Object   // sym (optional: the variable it is the initial value of), field (the field)
	fn   *types.Func    // call, func
	xs   []*c11V        // operands
	op   token.Token    // bin
	id   int            // struct: heap id; res: result index; unk: unique id
	typ  types.Type     // zero, assert, typeis, struct, lit
	name string         // sym, builtin call name, unk reason
	node ast.Node       // funclit
	recv bool           // call: xs[0] is the receiver
	key_ string
}

func c11Const(v constant.Value) *c11V { return &c11V{k: "const", cv: v} }
func c11Int(n int64) *c11V            { return c11Const(constant.MakeInt64(n)) }
func c11Bool(b bool) *c11V            { return c11Const(constant.MakeBool(b)) }
func c11Nil() *c11V                   { return &c11V{k: "nil"} }
func c11Sym(name string, obj types.Object) *c11V {
	return &c11V{k: "sym", name: name, obj: obj}
}

func (v *c11V) isConstInt(n int64) bool {
	if v == nil || v.k != "const" {
		return false
	}
	i := constant.ToInt(v.cv)
	if i.Kind() != constant.Int {
		return false
	}
	x, ok := constant.Int64Val(i)
	return ok && x == n
}

func (v *c11V) constBool() (bool, bool) {
	if v == nil || v.k != "const" || v.cv.Kind() != constant.Bool {
		return false, false
	}
	return constant.BoolVal(v.cv), true
}

// key is the canonical spelling of the term.
func (v *c11V) key() string {
	if v == nil {
		return "<nil>"
	}
	if v.key_ != "" {
		return v.key_
	}
	var s string
	ks := func(xs []*c11V) string {
		var p []string
		for _, x := range xs {
			p = append(p, x.key())
		}
		return strings.Join(p, ", ")
	}
	switch v.k {
	case "const":
		s = "#" + v.cv.ExactString()
	case "nil":
		s = "nil"
	case "zero":
		s = "zero(" + types.TypeString(v.typ, nil) + ")"
	case "sym":
		s = "$" + v.name
	case "field":
		s = v.xs[0].key() + "." + v.obj.Name()
	case "index":
		s = v.xs[0].key() + "[" + v.xs[1].key() + "]"
	case "slice":
		s = v.xs[0].key() + "[" + v.xs[1].key() + ":" + v.xs[2].key() + "]"
	case "addr":
		s = "&(" + v.xs[0].key() + ")"
	case "deref":
		s = "*(" + v.xs[0].key() + ")"
	case "bin":
		s = "(" + v.xs[0].key() + " " + v.op.String() + " " + v.xs[1].key() + ")"
	case "not":
		s = "!" + v.xs[0].key()
	case "call":
		n := v.name
		if v.fn != nil {
			n = v.fn.FullName()
		}
		if v.recv {
			s = v.xs[0].key() + "->" + n + "(" + ks(v.xs[1:]) + ")"
		} else {
			s = n + "(" + ks(v.xs) + ")"
		}
	case "callv":
		s = "(" + v.xs[0].key() + ")(" + ks(v.xs[1:]) + ")"
	case "res":
		s = v.xs[0].key() + "#" + strconv.Itoa(v.id)
	case "struct":
		s = "struct#" + strconv.Itoa(v.id)
	case "assert":
		s = v.xs[0].key() + ".(" + types.TypeString(v.typ, nil) + ")"
	case "typeis":
		s = "typeis(" + v.xs[0].key() + ", " + types.TypeString(v.typ, nil) + ")"
	case "funclit":
		s = "funclit@" + strconv.Itoa(int(v.node.Pos()))
	case "func":
		s = "func " + v.fn.FullName()
		if len(v.xs) == 1 {
			s += " of " + v.xs[0].key()
		}
	case "ref":
		s = "&" + v.obj.Name() + "@" + v.name
	case "list":
		s = "list[" + ks(v.xs) + "]"
	case "lit":
		s = "lit " + types.TypeString(v.typ, nil) + "{" + ks(v.xs) + "}"
	default:
		s = "?" + v.name + "#" + strconv.Itoa(v.id)
	}
	v.key_ = s
	return s
}

func (v *c11V) String() string { return v.key() }

// c11Field builds base.F; pointers are transparent (`(&x).F`, `(*p).F` and `p.F` are the same place).
func c11Field(base *c11V, f *types.Var) *c11V {
	return &c11V{k: "field", xs: []*c11V{c11StripPtr(base)}, obj: f}
}

func c11StripPtr(v *c11V) *c11V {
	for v != nil && (v.k == "addr" || v.k == "deref") {
		v = v.xs[0]
	}
	return v
}

func c11Addr(v *c11V) *c11V {
	if v.k == "deref" {
		return v.xs[0]
	}
	return &c11V{k: "addr", xs: []*c11V{v}}
}

func c11Deref(v *c11V) *c11V {
	if v.k == "addr" {
		return v.xs[0]
	}
	return &c11V{k: "deref", xs: []*c11V{v}}
}

func c11Not(v *c11V) *c11V {
	if b, ok := v.constBool(); ok {
		return c11Bool(!b)
	}
	if v.k == "not" {
		return v.xs[0]
	}
	return &c11V{k: "not", xs: []*c11V{v}}
}

// c11Bin builds x op y with the normalisations that make respelled conditions identical:
// a > b is b < a; a >= b is !(a < b); a <= b is !(b < a); a != b is !(a == b); == is ordered by key;
// integer constants fold; in sums the constant comes last.
func c11Bin(op token.Token, x, y *c11V) *c11V {
	if x.k == "const" && y.k == "const" {
		switch op {
		case token.EQL, token.NEQ, token.LSS, token.LEQ, token.GTR, token.GEQ:
			if x.cv.Kind() == y.cv.Kind() || (x.cv.Kind() != constant.Bool && x.cv.Kind() != constant.String && y.cv.Kind() != constant.Bool && y.cv.Kind() != constant.String) {
				return c11Bool(constant.Compare(x.cv, op, y.cv))
			}
		case token.ADD, token.SUB, token.MUL:
			if x.cv.Kind() == constant.Int && y.cv.Kind() == constant.Int {
				return c11Const(constant.BinaryOp(x.cv, op, y.cv))
			}
		case token.LAND, token.LOR:
			if a, ok := x.constBool(); ok {
				if b, ok := y.constBool(); ok {
					if op == token.LAND {
						return c11Bool(a && b)
					}
					return c11Bool(a || b)
				}
			}
		}
	}
	switch op {
	case token.NEQ:
		return c11Not(c11Bin(token.EQL, x, y))
	case token.GTR:
		return c11Bin(token.LSS, y, x)
	case token.GEQ:
		return c11Not(c11Bin(token.LSS, x, y))
	case token.LEQ:
		return c11Not(c11Bin(token.LSS, y, x))
	case token.EQL:
		// b == true, b == false
		if b, ok := y.constBool(); ok {
			if b {
				return x
			}
			return c11Not(x)
		}
		if b, ok := x.constBool(); ok {
			if b {
				return y
			}
			return c11Not(y)
		}
		if x.key() > y.key() {
			x, y = y, x
		}
	case token.ADD:
		if x.k == "const" && y.k != "const" {
			x, y = y, x
		}
		// (a + c1) + c2
		if y.k == "const" && x.k == "bin" && x.op == token.ADD && x.xs[1].k == "const" && y.cv.Kind() == constant.Int && x.xs[1].cv.Kind() == constant.Int {
			return c11Bin(token.ADD, x.xs[0], c11Const(constant.BinaryOp(x.xs[1].cv, token.ADD, y.cv)))
		}
		if y.isConstInt(0) {
			return x
		}
	case token.SUB:
		if y.k == "const" && y.cv.Kind() == constant.Int {
			return c11Bin(token.ADD, x, c11Const(constant.UnaryOp(token.SUB, y.cv, 0)))
		}
	}
	return &c11V{k: "bin", op: op, xs: []*c11V{x, y}}
}

// c11PlusConst recognises base + n (n may be 0: the value itself); returns base and n.
func c11PlusConst(v *c11V) (*c11V, int64) {
	if v.k == "bin" && v.op == token.ADD && v.xs[1].k == "const" {
		if i := constant.ToInt(v.xs[1].cv); i.Kind() == constant.Int {
			if n, ok := constant.Int64Val(i); ok {
				return v.xs[0], n
			}
		}
	}
	return v, 0
}

// c11Atom strips negations: returns the positive atom and whether v is its negation.
func c11AtomOf(v *c11V) (*c11V, bool) {
	neg := false
	for v.k == "not" {
		v = v.xs[0]
		neg = !neg
	}
	return v, neg
}

// mentions reports whether term v contains a subterm with the given key.
func (v *c11V) mentions(key string) bool {
	if v == nil {
		return false
	}
	if v.key() == key {
		return true
	}
	for _, x := range v.xs {
		if x.mentions(key) {
			return true
		}
	}
	return false
}

// walk visits v and all its subterms.
func (v *c11V) walk(f func(*c11V)) {
	if v == nil {
		return
	}
	f(v)
	for _, x := range v.xs {
		x.walk(f)
	}
}

// isCallTo reports whether v is a call of the method recvType.name (recvType = "pkgpath.Type") and returns receiver and arguments.
func (v *c11V) isMethodCall(recvType, name string) (*c11V, []*c11V, bool) {
	if v == nil || v.k != "call" || !v.recv || v.fn == nil || !isMethod(v.fn, recvType, name) {
		return nil, nil, false
	}
	return v.xs[0], v.xs[1:], true
}

func (v *c11V) isFuncCall(pkgpath, name string) ([]*c11V, bool) {
	if v == nil || v.k != "call" || v.recv || v.fn == nil || !isPkgFunc(v.fn, pkgpath, name) {
		return nil, false
	}
	return v.xs, true
}

// isFieldOf reports whether v is base.<name> for a base with the given key.
func (v *c11V) isFieldOf(baseKey, name string) bool {
	return v != nil && v.k == "field" && v.obj.Name() == name && v.xs[0].key() == baseKey
}

// c11Obj is a struct value built on the path (composite literal or zero value), updated field by field.
type c11Obj struct {
	typ   types.Type
	f     map[string]*c11V // explicitly set fields; absent = zero value
	unkey bool             // built from an unkeyed literal that could not be mapped
	hv    string           // non-empty: the value was modified in a loop; unset fields are unknown (symbol prefix)
	base  *c11V            // non-nil: a local copy of this opaque struct value; unset fields are the fields of base
}

func (o *c11Obj) clone() *c11Obj {
	n := &c11Obj{typ: o.typ, f: make(map[string]*c11V, len(o.f)), unkey: o.unkey, hv: o.hv, base: o.base}
	for k, v := range o.f {
		n.f[k] = v
	}
	return n
}

func (o *c11Obj) names() []string {
	var out []string
	for k := range o.f {
		out = append(out, k)
	}
	sort.Strings(out)
	return out
}

// xs1 is the second operand (nil when absent).
func (v *c11V) xs1() *c11V {
	if v == nil || len(v.xs) < 2 {
		return nil
	}
	return v.xs[1]
}
