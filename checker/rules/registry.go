// Package rules holds the repository-specific rules, one file per property.
package rules

import (
	"sort"

	"osmcheck/core"
)

// TablesDir is the directory of the external specification tables.
var TablesDir = "/verif/tables"

var registry = map[string]*core.Property{}

func register(p *core.Property) { registry[p.ID] = p }

// Get returns the property with the given id.
func Get(id string) *core.Property { return registry[id] }

// All returns all registered properties ordered by id.
func All() []*core.Property {
	var out []*core.Property
	for _, p := range registry {
		out = append(out, p)
	}
	sort.Slice(out, func(i, j int) bool { return out[i].ID < out[j].ID })
	return out
}
