package rules

import (
	"fmt"
	"go/ast"
	"go/token"
	"go/types"

	"osmcheck/core"
)

// ---------------------------------------------------------------------------
// reads: the classification is a function of node ids and tag values only

// c18ReadScan checks, by type, every expression of the evaluated functions (the classification function and
// every function of the package it calls, transitively) that denotes the receiver, its node list, a way node
// or a tag list: the receiver is only dereferenced to the allowed fields, the node list is only measured and
// indexed, a node is only asked for its ID, tags are only read through Tags.Find; all of them may be
// aliased to locals, returned, or handed to functions that are scanned themselves. Nothing is written
// through them. Violations seen while evaluating (tag keys outside the algorithm, other fields) are added.
func c18ReadScan(r *core.R, x *c18Exec, cn string, recvFields map[string]bool, okText string) {
	info := x.info
	if x.recv == nil {
		r.Unknown(cn, x.fd.Pos(), "the function has no named receiver")
		return
	}
	deref := func(t types.Type) types.Type {
		if pt, ok := t.Underlying().(*types.Pointer); ok {
			return pt.Elem()
		}
		return t
	}
	recvT := deref(x.recv.Type())
	var nodesT, nodeT, tagsT types.Type
	if st, ok := recvT.Underlying().(*types.Struct); ok {
		for i := 0; i < st.NumFields(); i++ {
			f := st.Field(i)
			switch {
			case f.Name() == "Nodes" && recvFields["Nodes"]:
				nodesT = f.Type()
				if sl, ok := nodesT.Underlying().(*types.Slice); ok {
					nodeT = sl.Elem()
				}
			case f.Name() == "Tags" && recvFields["Tags"]:
				tagsT = f.Type()
			}
		}
	}
	if tagsT == nil || (recvFields["Nodes"] && nodeT == nil) {
		r.Anchor("fields Nodes/Tags of the receiver type " + recvT.String())
		return
	}
	classify := func(t types.Type) string {
		if t == nil {
			return ""
		}
		d := deref(t)
		switch {
		case types.Identical(d, recvT):
			return "receiver"
		case nodesT != nil && types.Identical(d, nodesT):
			return "node list"
		case nodeT != nil && types.Identical(d, nodeT):
			return "way node"
		case types.Identical(d, tagsT):
			return "tags"
		}
		return ""
	}
	nuse := 0
	var bad string
	var badPos token.Pos
	note := func(n ast.Node, why string) {
		if bad == "" {
			bad, badPos = fmt.Sprintf("`%s`: %s", src(r.P.Fset, n), why), n.Pos()
		}
	}
	followed := func(fn *types.Func) bool { return fn != nil && !c18IsFind(fn) && x.funcs[fn] != nil }
	reach := c18Reachable(x.pk, x.funcs, x.fd)
	for _, fd := range reach {
		ast.Inspect(fd.Body, func(n ast.Node) bool {
			// writes through a tracked value
			var lhs []ast.Expr
			switch s := n.(type) {
			case *ast.AssignStmt:
				lhs = s.Lhs
			case *ast.IncDecStmt:
				lhs = []ast.Expr{s.X}
			}
			for _, l := range lhs {
				for e := ast.Unparen(l); ; {
					if _, isID := e.(*ast.Ident); isID {
						break
					}
					var inner ast.Expr
					switch t := e.(type) {
					case *ast.SelectorExpr:
						inner = t.X
					case *ast.IndexExpr:
						inner = t.X
					case *ast.StarExpr:
						inner = t.X
					case *ast.SliceExpr:
						inner = t.X
					}
					if inner == nil {
						break
					}
					inner = ast.Unparen(inner)
					if cl := classify(info.TypeOf(inner)); cl != "" {
						note(n, "the "+cl+" is written")
						break
					}
					e = inner
				}
			}
			e, ok := n.(ast.Expr)
			if !ok {
				return true
			}
			if id, isID := e.(*ast.Ident); isID && info.Defs[id] != nil {
				return true
			}
			if tv, ok := info.Types[e]; ok && tv.IsType() {
				return true
			}
			if _, isParen := e.(*ast.ParenExpr); isParen {
				return true
			}
			if sp, ok := x.parent(e).(*ast.SelectorExpr); ok && ast.Expr(sp.Sel) == e {
				return true // the field name of a selection; the selection itself is checked
			}
			cl := classify(info.TypeOf(e))
			if cl == "" {
				return true
			}
			nuse++
			child := ast.Node(e)
			up := x.parent(e)
			for {
				if p, ok := up.(*ast.ParenExpr); ok {
					child, up = p, x.parent(p)
					continue
				}
				break
			}
			switch p := up.(type) {
			case *ast.SelectorExpr:
				sel := info.Selections[p]
				switch {
				case sel == nil:
					note(p, "unexpected qualified use of the "+cl)
				case sel.Kind() == types.FieldVal:
					f := sel.Obj().Name()
					switch {
					case cl == "receiver" && len(sel.Index()) == 1 && recvFields[f]:
					case cl == "way node" && len(sel.Index()) == 1 && f == "ID":
					default:
						note(p, "field "+f+" of the "+cl+" takes part in the classification")
					}
				default:
					fn, _ := sel.Obj().(*types.Func)
					call, isCall := x.parent(p).(*ast.CallExpr)
					switch {
					case (!isCall || call.Fun != p) && cl == "tags" && c18IsFind(fn):
						// the method value Tags.Find: calling it is the same primitive
					case !isCall || call.Fun != p:
						note(p, "a method of the "+cl+" is used as a value")
					case cl == "tags" && c18IsFind(fn):
					case followed(fn):
					default:
						if cl == "tags" {
							note(call, "tags are read other than through Tags.Find; the answer may depend on tag order or on unrelated tags")
						} else {
							note(call, "the "+cl+" is handed to "+fn.Name()+", which is not part of the package's evaluated code")
						}
					}
				}
			case *ast.IndexExpr:
				// tags may be walked by a variable index (the evaluator runs such code on witness tag lists with
				// unrelated tags before and behind); a CONSTANT position is a dependence on tag order
				_, constIdx := constInt(info, p.Index)
				if cl == "tags" && p.X == child && !constIdx {
					break
				}
				if !(cl == "node list" && p.X == child) {
					note(p, "the "+cl+" is indexed; "+map[bool]string{true: "the answer may depend on tag order or on unrelated tags", false: "only the node list may be indexed"}[cl == "tags"])
				}
			case *ast.CallExpr:
				fn := callee(info, p)
				tv, isConv := info.Types[p.Fun]
				switch {
				case p.Fun == child:
				case builtinName(info, p) == "len" && (cl == "node list" || cl == "tags"):
					// len(tags): the evaluator decides emptiness only; any other use of the count is undecided there
				case isConv && tv.IsType() && classify(tv.Type) == cl:
				case followed(fn):
				default:
					note(p, "the "+cl+" is passed to a call that is not part of the package's evaluated code")
				}
			case *ast.StarExpr, *ast.ReturnStmt, *ast.ValueSpec, *ast.ExprStmt:
			case *ast.UnaryExpr:
				if p.Op != token.AND {
					note(p, "unexpected operation on the "+cl)
				}
			case *ast.AssignStmt:
				for i, rh := range p.Rhs {
					if rh == child && len(p.Lhs) == len(p.Rhs) {
						if _, isID := ast.Unparen(p.Lhs[i]).(*ast.Ident); !isID {
							note(p, "the "+cl+" is stored outside a local variable")
						}
					}
				}
			case *ast.BinaryExpr:
				other := p.X
				if other == child {
					other = p.Y
				}
				if !((p.Op == token.EQL || p.Op == token.NEQ) && isNilIdent(ast.Unparen(other)) && cl == "receiver") {
					note(p, "the "+cl+" is compared as a whole")
				}
			case *ast.RangeStmt:
				if p.X == child && cl != "tags" {
					note(p.X, "the "+cl+" is iterated; the answer may depend on order or on unrelated elements")
				}
			case *ast.SliceExpr:
				if !(cl == "tags" && p.X == child && p.Max == nil) {
					note(p, "the "+cl+" is re-sliced")
				}
			default:
				note(up, "the "+cl+" is used other than through "+okText)
			}
			return true
		})
	}
	for _, ro := range x.reads {
		if bad == "" {
			bad, badPos = ro.why, ro.pos
		}
	}
	switch {
	case bad != "":
		r.Bad(cn, badPos, "%s", bad)
	case nuse == 0:
		r.Unknown(cn, x.fd.Pos(), "the receiver is never used")
	default:
		r.OK(cn, x.fd.Pos(), "all %d expressions of receiver, node-list, way-node or tag-list type in the %d evaluated function(s) are %s, local aliases of those, or arguments of evaluated functions; Find depends only on the key->value mapping, so tag order and unrelated tags cannot matter", nuse, len(reach), okText)
	}
}
