package rules

import (
	"go/ast"
	"go/token"
	"go/types"

	"golang.org/x/tools/go/cfg"

	"osmcheck/core"
)

// Small syntactic helpers that other rule files call (sameExpr, rootObj, errReturnedAfter, collectFieldCopies,
// lenCallArg, countAssignsTo, lastExpr, isUpdatesType, blockHasReturn). Their signatures are part of the shared
// vocabulary of the rule files and must not change. The C15 rules themselves decide on paths and CFG walks
// (c15_model.go), not on these.

func isUpdatesType(t types.Type) bool {
	if t == nil {
		return false
	}
	if namedPath(t) == core.ModulePath+".Updates" {
		return true
	}
	if sl, ok := t.Underlying().(*types.Slice); ok {
		return namedPath(sl.Elem()) == core.ModulePath+".Update"
	}
	return false
}

func blockHasReturn(b *cfg.Block) bool {
	for _, n := range b.Nodes {
		if _, ok := n.(*ast.ReturnStmt); ok {
			return true
		}
	}
	return false
}

func blockPos(b *cfg.Block) token.Pos {
	if len(b.Nodes) == 0 {
		return token.NoPos
	}
	return b.Nodes[0].Pos()
}

// errReturnedAfter recognises the idioms
//
//	if err := CALL; err != nil { return ..., err }
//	err := CALL (or =) ; if err != nil { return ..., err }
//
// for the call node.
func errReturnedAfter(info *types.Info, par map[ast.Node]ast.Node, call ast.Node) bool {
	if call == nil {
		return false
	}
	as, ok := par[call].(*ast.AssignStmt)
	if !ok {
		return false
	}
	var errObj types.Object
	for _, l := range as.Lhs {
		if o := objOf(info, l); o != nil && types.Identical(o.Type(), types.Universe.Lookup("error").Type()) {
			errObj = o
		}
	}
	if errObj == nil {
		return false
	}
	isErrTest := func(ifs *ast.IfStmt) bool {
		be, ok := ast.Unparen(ifs.Cond).(*ast.BinaryExpr)
		if !ok || be.Op != token.NEQ {
			return false
		}
		if objOf(info, be.X) != errObj {
			return false
		}
		if id, ok := ast.Unparen(be.Y).(*ast.Ident); !ok || id.Name != "nil" {
			return false
		}
		if len(ifs.Body.List) == 0 {
			return false
		}
		ret, ok := ifs.Body.List[len(ifs.Body.List)-1].(*ast.ReturnStmt)
		if !ok || len(ret.Results) == 0 {
			return false
		}
		last := ret.Results[len(ret.Results)-1]
		return usesObj(info, last, errObj)
	}
	switch p := par[as].(type) {
	case *ast.IfStmt:
		if p.Init == as {
			return isErrTest(p)
		}
	case *ast.BlockStmt:
		for i, s := range p.List {
			if s == as && i+1 < len(p.List) {
				if ifs, ok := p.List[i+1].(*ast.IfStmt); ok {
					return isErrTest(ifs)
				}
			}
		}
	}
	return false
}

// sameExpr compares two side-effect-free expressions structurally through the objects they mention.
func sameExpr(info *types.Info, a, b ast.Expr) bool {
	a, b = ast.Unparen(a), ast.Unparen(b)
	switch x := a.(type) {
	case *ast.Ident:
		y, ok := b.(*ast.Ident)
		return ok && objOf(info, x) != nil && objOf(info, x) == objOf(info, y)
	case *ast.SelectorExpr:
		y, ok := b.(*ast.SelectorExpr)
		if !ok {
			return false
		}
		sx, sy := info.Selections[x], info.Selections[y]
		if sx == nil || sy == nil || sx.Obj() != sy.Obj() {
			return false
		}
		return sameExpr(info, x.X, y.X)
	case *ast.IndexExpr:
		y, ok := b.(*ast.IndexExpr)
		return ok && sameExpr(info, x.X, y.X) && sameExpr(info, x.Index, y.Index)
	case *ast.BasicLit:
		y, ok := b.(*ast.BasicLit)
		return ok && x.Value == y.Value
	case *ast.StarExpr:
		y, ok := b.(*ast.StarExpr)
		return ok && sameExpr(info, x.X, y.X)
	}
	return false
}

// rootObj returns the variable at the root of a selector/index chain.
func rootObj(info *types.Info, e ast.Expr) types.Object {
	for {
		switch x := ast.Unparen(e).(type) {
		case *ast.Ident:
			return objOf(info, x)
		case *ast.SelectorExpr:
			e = x.X
		case *ast.IndexExpr:
			e = x.X
		case *ast.StarExpr:
			e = x.X
		case *ast.SliceExpr:
			e = x.X
		default:
			return nil
		}
	}
}

// isUpdateIndex reports whether e is `<v>.Index` with v of type osm.Update.
func isUpdateIndex(info *types.Info, e ast.Expr) bool {
	f := fieldOf(info, e)
	if f == nil || f.Name() != "Index" {
		return false
	}
	sel := ast.Unparen(e).(*ast.SelectorExpr)
	return namedPath(info.TypeOf(sel.X)) == core.ModulePath+".Update"
}

func lastExpr(b *cfg.Block) ast.Expr {
	if len(b.Nodes) == 0 {
		return nil
	}
	e, _ := b.Nodes[len(b.Nodes)-1].(ast.Expr)
	return e
}

func lenCallArg(info *types.Info, e ast.Expr) ast.Expr {
	call, ok := ast.Unparen(e).(*ast.CallExpr)
	if !ok || builtinName(info, call) != "len" || len(call.Args) != 1 {
		return nil
	}
	return call.Args[0]
}

// countAssignsTo counts assignments whose LHS root is obj between two positions.
func countAssignsTo(info *types.Info, body ast.Node, obj types.Object, from, to token.Pos) int {
	n := 0
	ast.Inspect(body, func(x ast.Node) bool {
		as, ok := x.(*ast.AssignStmt)
		if !ok || as.Pos() < from || as.Pos() > to {
			return true
		}
		for _, l := range as.Lhs {
			if id, ok := ast.Unparen(l).(*ast.Ident); ok && objOf(info, id) == obj {
				n++
			}
		}
		return true
	})
	return n
}

// fieldCopies collects assignments `<...>.F = src.G` / `<...>.F op= ...` in a function whose LHS
// selects a field of the named target type. Returned map: F -> source field name ("" when the RHS is not a plain field of srcObj).
type fieldCopy struct {
	dst, src string
	pos      token.Pos
	tok      token.Token
	stmt     *ast.AssignStmt
}

func collectFieldCopies(info *types.Info, body ast.Node, targetTypes map[string]bool, srcObj types.Object) []fieldCopy {
	var out []fieldCopy
	ast.Inspect(body, func(n ast.Node) bool {
		as, ok := n.(*ast.AssignStmt)
		if !ok {
			return true
		}
		for i, l := range as.Lhs {
			f := fieldOf(info, l)
			if f == nil {
				continue
			}
			sel := ast.Unparen(l).(*ast.SelectorExpr)
			if !targetTypes[namedPath(info.TypeOf(sel.X))] {
				continue
			}
			fc := fieldCopy{dst: f.Name(), pos: as.Pos(), tok: as.Tok, stmt: as}
			if i < len(as.Rhs) {
				if sf := fieldOf(info, as.Rhs[i]); sf != nil {
					rs := ast.Unparen(as.Rhs[i]).(*ast.SelectorExpr)
					if srcObj == nil || rootObj(info, rs.X) == srcObj {
						fc.src = sf.Name()
					}
				}
			}
			out = append(out, fc)
		}
		return true
	})
	return out
}
