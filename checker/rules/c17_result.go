package rules

import (
	"go/ast"
	"go/token"
	"go/types"
)

// Results of helpers with several paths (finite-domain evaluation through calls).
//
// A one-line predicate (`return E`) is expanded in place (c17Pkg.predicate). Any other function of the package is
// evaluated by walking its CFG under the valuation: only feasible successors are followed, every reachable return
// contributes the value of its idx-th result, and the values are joined (all true -> true, all false -> false,
// otherwise unknown). This is what lets an option decide a branch THROUGH the result of a helper such as
//
//	func (c *ctx) needs(m osm.Member) bool { switch m.Type { case node: return true; case way: if c.opt { return false }; …; default: return !c.opt } }
//
// or through the ok of a (value, ok) pair.

// tupleInit: o is a local whose only assignment is `…, o, … := h(…)` with h a function of the package; it returns h,
// the index of o among the results and the number of results.
func (a *c17Pkg) tupleInit(fn *c17Fn, o types.Object) (*c17Fn, int, int) {
	v, ok := o.(*types.Var)
	if !ok || v.IsField() || !(o.Pos() > fn.Decl.Body.Pos() && o.Pos() < fn.Decl.Body.End()) {
		return nil, 0, 0
	}
	var h *c17Fn
	idx, nres, n := 0, 0, 0
	ast.Inspect(fn.Decl.Body, func(x ast.Node) bool {
		switch s := x.(type) {
		case *ast.AssignStmt:
			for i, l := range s.Lhs {
				if id, ok := ast.Unparen(l).(*ast.Ident); ok && objOf(a.info, id) == o {
					n++
					if len(s.Rhs) == 1 && len(s.Lhs) > 1 {
						if call, ok := ast.Unparen(s.Rhs[0]).(*ast.CallExpr); ok {
							h, idx, nres = a.fns[c17Callee(a.info, call)], i, len(s.Lhs)
						}
					}
				}
			}
		case *ast.IncDecStmt:
			if id, ok := ast.Unparen(s.X).(*ast.Ident); ok && objOf(a.info, id) == o {
				n += 2
			}
		case *ast.UnaryExpr:
			if s.Op == token.AND {
				if id, ok := ast.Unparen(s.X).(*ast.Ident); ok && objOf(a.info, id) == o {
					n += 2
				}
			}
		case *ast.ValueSpec:
			for _, nm := range s.Names {
				if a.info.Defs[nm] == o {
					n++
				}
			}
		}
		return true
	})
	if n != 1 || h == nil {
		return nil, 0, 0
	}
	return h, idx, nres
}

// evalResult joins the idx-th result (of nres) of h over the returns reachable under valuation v.
func (a *c17Pkg) evalResult(h *c17Fn, idx, nres int, v c17Val, depth int) tri {
	sig := h.Obj.Type().(*types.Signature)
	if depth > 4 || sig.Results().Len() != nres || idx >= nres || !c17IsBool(sig.Results().At(idx).Type()) {
		return triU
	}
	if a.busy == nil {
		a.busy = map[*c17Fn]bool{}
	}
	if a.busy[h] {
		return triU
	}
	a.busy[h] = true
	defer func() { a.busy[h] = false }()
	reach := a.reachUnder(h, v)
	seenT, seenF, seenU := false, false, false
	for b := range reach {
		for _, n := range b.Nodes {
			ret, ok := n.(*ast.ReturnStmt)
			if !ok {
				continue
			}
			var t tri = triU
			switch {
			case len(ret.Results) == nres:
				t = a.eval(h, ret.Results[idx], v, depth+1)
			case len(ret.Results) == 1 && nres > 1:
				t = triU // return f() forwarding a tuple
			}
			switch t {
			case triT:
				seenT = true
			case triF:
				seenF = true
			default:
				seenU = true
			}
		}
	}
	switch {
	case seenU || (seenT && seenF) || (!seenT && !seenF):
		return triU
	case seenT:
		return triT
	}
	return triF
}

// memberTypes lists the values of osm.TypeNode, osm.TypeWay and osm.TypeRelation (the domain of <Member>.Type the
// bookkeeping distinguishes); "" stands for "not assumed".
func (a *c17Pkg) memberTypes() []string {
	out := []string{""}
	pk := a.p.Pkg("")
	if pk == nil {
		return out
	}
	for _, name := range []string{"TypeNode", "TypeWay", "TypeRelation"} {
		if c, ok := pk.Types.Scope().Lookup(name).(*types.Const); ok {
			s := c.Val().ExactString()
			if len(s) >= 2 && s[0] == '"' {
				out = append(out, s[1:len(s)-1])
			}
		}
	}
	return out
}

// nilOf decides whether expression e (evaluated in fn) is nil under valuation v: true = certainly nil, false = certainly
// not nil. It looks through locals assigned once, tuple bindings and the results of package helpers (a helper that
// returns nil exactly when an option is set turns the flag into the nil-ness of a value).
func (a *c17Pkg) nilOf(fn *c17Fn, e ast.Expr, v c17Val, depth int) tri {
	e = ast.Unparen(e)
	if tv, ok := a.info.Types[e]; ok && tv.IsNil() {
		return triT
	}
	if depth > 4 {
		return triU
	}
	switch x := e.(type) {
	case *ast.CompositeLit:
		return triF
	case *ast.UnaryExpr:
		if x.Op == token.AND {
			return triF
		}
	case *ast.Ident:
		o := objOf(a.info, x)
		if o == nil || fn == nil {
			return triU
		}
		if init := a.singleInit(fn, o); init != nil {
			return a.nilOf(fn, init, v, depth+1)
		}
		if h, idx, n := a.tupleInit(fn, o); h != nil {
			return a.nilResult(h, idx, n, v, depth+1)
		}
	case *ast.CallExpr:
		if b := builtinName(a.info, x); b == "make" || b == "new" {
			return triF
		}
		if h := a.fns[c17Callee(a.info, x)]; h != nil {
			return a.nilResult(h, 0, 1, v, depth+1)
		}
	}
	return triU
}

// nilResult joins the nil-ness of the idx-th result of h over the returns reachable under v.
func (a *c17Pkg) nilResult(h *c17Fn, idx, nres int, v c17Val, depth int) tri {
	sig := h.Obj.Type().(*types.Signature)
	if sig.Results().Len() != nres || idx >= nres {
		return triU
	}
	if a.busy == nil {
		a.busy = map[*c17Fn]bool{}
	}
	if a.busy[h] {
		return triU
	}
	a.busy[h] = true
	defer func() { a.busy[h] = false }()
	seenT, seenF, seenU := false, false, false
	for b := range a.reachUnder(h, v) {
		for _, n := range b.Nodes {
			ret, ok := n.(*ast.ReturnStmt)
			if !ok {
				continue
			}
			t := triU
			if len(ret.Results) == nres {
				t = a.nilOf(h, ret.Results[idx], v, depth+1)
			}
			switch t {
			case triT:
				seenT = true
			case triF:
				seenF = true
			default:
				seenU = true
			}
		}
	}
	switch {
	case seenU || (seenT && seenF) || (!seenT && !seenF):
		return triU
	case seenT:
		return triT
	}
	return triF
}
