package rules

import (
	"go/ast"
	"go/types"
)

// c10SortEvent is one call of sort.Sort / Stable / Slice / SliceStable reached while interpreting a body.
type c10SortEvent struct {
	Call *ast.CallExpr
	Arg  c10Val // the value handed to the sort
}

// sortCall is the transfer function of package sort: Sort/Stable/Slice/SliceStable are recorded (the rule that
// certifies the comparator, K4 comparator@, vouches for what they do); IsSorted/SliceIsSorted are evaluated with
// the interpreted Len/Less of the adapter (or the less literal) exactly as the library does: every neighbour pair.
func (ev *c10Eval) sortCall(call *ast.CallExpr, name string, env c10Env, depth int) (c10Val, bool) {
	if len(call.Args) == 0 {
		return c10Val{}, false
	}
	arg := ev.expr(call.Args[0], env, depth)
	iw, is, _ := ev.intType(types.Typ[types.Int])
	idx := func(i int) c10Val { return c10IntVal(c10ConstVec(uint64(i), iw, is)) }
	single := func(outs []c10Outcome) (c10Val, bool) {
		if len(outs) != 1 || outs[0].Panic || outs[0].Unsupported != "" || len(outs[0].Res) != 1 {
			return c10Val{}, false
		}
		return outs[0].Res[0], true
	}
	switch name {
	case "Sort", "Stable":
		ev.sorts = append(ev.sorts, c10SortEvent{Call: call, Arg: arg})
		return c10Val{K: c10VTuple}, true
	case "Slice", "SliceStable":
		if len(call.Args) == 2 {
			ev.expr(call.Args[1], env, depth)
		}
		ev.sorts = append(ev.sorts, c10SortEvent{Call: call, Arg: arg})
		return c10Val{K: c10VTuple}, true
	case "IsSorted":
		t := ev.info.TypeOf(call.Args[0])
		find := func(m string) *ast.FuncDecl {
			obj, _, _ := types.LookupFieldOrMethod(t, true, ev.pk.Types, m)
			f, _ := obj.(*types.Func)
			return ev.decls[f]
		}
		lenD, lessD := find("Len"), find("Less")
		if lenD == nil || lessD == nil || arg.K != c10VSlice {
			return c10Val{}, false
		}
		nv, ok := single(ev.call(lenD, &arg, nil, depth+1))
		n, isConst := nv.V.signedConst()
		if !ok || nv.K != c10VInt || !isConst {
			return c10Val{}, false
		}
		for i := int(n) - 1; i > 0; i-- {
			b, ok := single(ev.call(lessD, &arg, []c10Val{idx(i), idx(i - 1)}, depth+1))
			if !ok || b.K != c10VBool || b.Tri == -1 {
				return c10Val{}, false
			}
			if b.Tri == 1 {
				return c10BoolVal(false), true
			}
		}
		return c10BoolVal(true), true
	case "SliceIsSorted":
		if len(call.Args) != 2 || arg.K != c10VSlice {
			return c10Val{}, false
		}
		less := ev.expr(call.Args[1], env, depth)
		if less.K != c10VFunc {
			return c10Val{}, false
		}
		for i := len(arg.Args) - 1; i > 0; i-- {
			b, ok := single(ev.callLit(less, []c10Val{idx(i), idx(i - 1)}, depth+1))
			if !ok || b.K != c10VBool || b.Tri == -1 {
				return c10Val{}, false
			}
			if b.Tri == 1 {
				return c10BoolVal(false), true
			}
		}
		return c10BoolVal(true), true
	}
	return c10Val{}, false
}
