package rules

// Observation of "token loop decoders" (osmxml.(*Scanner).Scan, osm.(*Action).UnmarshalXML) through the abstract
// interpreter of c03_eval.go. A decoder reads tokens from an *xml.Decoder, binds a start element by a type assertion
// and, depending on the element's name, calls DecodeElement on some target. A scenario fixes the element name (and,
// for decoders that look at the attributes of the start element they were handed, the attribute name); the
// observation of a path is what happened after the start element was bound: which DecodeElement / Skip calls were
// made on what, whether the iteration went back to read the next token, what the function returned, what the
// receiver's fields hold at the end.

import (
	"fmt"
	"go/ast"
	"go/token"
	"go/types"
	"os"
	"sort"
	"strings"

	"osmcheck/core"
)

// c03Scenario fixes the abstract input of a decoder run. An empty name means "a name different from every constant".
type c03Scenario struct {
	Elem string
	Attr string
}

// c03IsXMLName reports whether v is <root>.Name.Local for a root of the given xml type.
func c03IsXMLName(v *c03V, rootKind, rootType string) bool {
	return v.K == c03KInit && v.Root.Kind == rootKind && namedPath(v.Root.T) == rootType &&
		len(v.Path) == 2 && v.Path[0].Name() == "Name" && v.Path[1].Name() == "Local"
}

func c03ScenarioString(s string, t types.Type) *c03V {
	if s == "" {
		return &c03V{K: c03KOther, T: t}
	}
	return &c03V{K: c03KStr, Str: s, T: t}
}

// c03NewDecoderInterp builds an interpreter whose symbolic start elements / attributes are named by sc.
func c03NewDecoderInterp(p *core.Program, sc c03Scenario) *c03Interp {
	return &c03Interp{P: p, Init: func(v *c03V) *c03V {
		switch {
		case c03IsXMLName(v, "assert", "encoding/xml.StartElement"):
			return c03ScenarioString(sc.Elem, v.T)
		case c03IsXMLName(v, "elem", "encoding/xml.Attr"):
			return c03ScenarioString(sc.Attr, v.T)
		case v.K == c03KInit && v.Root.Kind == "param" && namedPath(v.Root.T) == "encoding/xml.StartElement" && len(v.Path) == 1 && v.Path[0].Name() == "Attr":
			v.Z = triF // the start element handed in carries attributes: every form of loop over them is entered
		}
		return nil
	}}
}

// c03CompareStrings collects the constant strings a function and the unexported functions it reaches compare
// something with (case labels, == / != operands, strings.EqualFold arguments): the candidate names of a dispatch.
func c03CompareStrings(p *core.Program, fi *FuncInfo) []string {
	set := map[string]bool{}
	for _, f := range c03Callees(p, fi, 5) {
		if f != fi && f.Obj.Exported() {
			continue
		}
		info := f.Pkg.TypesInfo
		add := func(e ast.Expr) {
			if s, ok := constString(info, e); ok && s != "" {
				set[s] = true
			}
		}
		var scan func(n ast.Node) bool
		seenGlobal := map[*types.Var]bool{}
		scan = func(n ast.Node) bool {
			switch x := n.(type) {
			case *ast.Ident:
				// a dispatch table: string keys of a package-level map the function consults
				if o, ok := info.Uses[x].(*types.Var); ok && o.Pkg() != nil && o.Parent() == o.Pkg().Scope() && !seenGlobal[o] {
					seenGlobal[o] = true
					if init, _ := c03FindGlobalInit(p, o); init != nil {
						ast.Inspect(init, scan)
					}
				}
			case *ast.KeyValueExpr:
				add(x.Key)
			case *ast.CaseClause:
				for _, e := range x.List {
					add(e)
				}
			case *ast.BinaryExpr:
				if x.Op == token.EQL || x.Op == token.NEQ {
					add(x.X)
					add(x.Y)
				}
			case *ast.CallExpr:
				if isPkgFunc(callee(info, x), "strings", "EqualFold") {
					for _, a := range x.Args {
						add(a)
					}
				}
			}
			return true
		}
		ast.Inspect(f.Decl.Body, scan)
	}
	return c03SortedKeys(set)
}

// c03Iter is the observation of one path of a decoder.
type c03Iter struct {
	x      *c03Interp
	path   *c03Path
	assert *c03Event // binding of the start element (nil: the path ended before a start element was bound)
	ai     int
	ok     tri         // the token was a start element
	start  *c03V       // the bound start element
	token  *c03Event   // the Token call the asserted value came from
	after  []c03Event  // events after the binding, up to the end of the iteration
	again  *c03Event   // the iteration went back to the loop head (first such event after the binding)
	decode []*c03Event // DecodeElement calls of the iteration
	skip   []*c03Event // Skip calls of the iteration
}

func c03IsDecoderCall(e *c03Event, name string) bool {
	return e.Kind == "call" && isMethod(e.Fn, "encoding/xml.Decoder", name)
}

// c03Digest cuts a path at the binding of a start element.
func c03Digest(x *c03Interp, p *c03Path) *c03Iter {
	it := &c03Iter{x: x, path: p, ai: -1, ok: triU}
	tr := p.St.Trace
	for i := range tr {
		e := &tr[i]
		if e.Kind == "assert" && e.Ok != nil && namedPath(e.T) == "encoding/xml.StartElement" {
			it.assert, it.ai = e, i
			it.ok = triNot(p.St.Zero(e.Ok))
			if len(e.Results) > 0 {
				it.start = e.Results[0]
			}
			break
		}
	}
	if it.assert == nil {
		return it
	}
	for i := it.ai - 1; i >= 0; i-- {
		if c03IsDecoderCall(&tr[i], "Token") {
			it.token = &tr[i]
			break
		}
	}
	for i := it.ai + 1; i < len(tr); i++ {
		e := &tr[i]
		if e.Kind == "again" {
			it.again = e
			break
		}
		it.after = append(it.after, *e)
		switch {
		case c03IsDecoderCall(e, "DecodeElement"):
			it.decode = append(it.decode, e)
		case c03IsDecoderCall(e, "Skip"):
			it.skip = append(it.skip, e)
		}
	}
	return it
}

// returnedTrue: the path returned the constant true (Scan yields an object).
func (it *c03Iter) returned() (bool, *c03V) {
	if it.again != nil || it.path.End != "return" {
		return false, nil
	}
	if len(it.path.Ret) == 0 {
		return true, nil
	}
	return true, it.path.Ret[0]
}

// c03FrameWithin reports whether node n (in frame fr) is executed inside loop: lexically, or through the call chain.
func c03FrameWithin(fr *c03Frame, n ast.Node, loop ast.Node) bool {
	for fr != nil && n != nil {
		if loop.Pos() <= n.Pos() && n.End() <= loop.End() {
			return true
		}
		if fr.call == nil {
			return false
		}
		n, fr = fr.call, fr.parent
	}
	return false
}

// c03DecodeTarget resolves the object a DecodeElement call fills: the pointer handed in, the pointer stored in the
// variable whose address is handed in (the pointer-to-pointer form), or the variable itself.
func c03DecodeTarget(e *c03Event) (obj *c03V, t types.Type, why string) {
	if len(e.Args) != 2 {
		return nil, nil, "DecodeElement without two arguments"
	}
	a := e.Args[0]
	switch a.K {
	case c03KPtr:
		return a, c03DerefT(a.T), ""
	case c03KAddr:
		if d := e.Deref[0]; d != nil && (d.K == c03KPtr || d.K == c03KAddr) {
			return d, c03DerefT(d.T), "" // pointer-to-pointer form: the object is what the variable points to
		}
		if d := e.Deref[0]; d != nil && (d.K == c03KNil || (d.K == c03KInit && c03IsPointer(d.T))) {
			return nil, nil, "the pointer variable " + a.Var.Name() + " is not allocated on this path before its address is decoded into"
		}
		return a, a.Var.Type(), ""
	case c03KNil:
		return nil, nil, "decoding into nil"
	}
	return nil, nil, "the target `" + a.String() + "` is not an object allocated in this iteration (a new(T) / &T{} or a local): decoding into a retained object merges elements"
}

func c03IsPointer(t types.Type) bool {
	if t == nil {
		return false
	}
	_, ok := t.Underlying().(*types.Pointer)
	return ok
}

// c03StartJustReadEv: the DecodeElement call decodes with the start element bound in this iteration, on the decoder
// the token was read from.
func (it *c03Iter) startJustRead(e *c03Event) (bool, string) {
	if len(e.Args) != 2 {
		return false, "DecodeElement without two arguments"
	}
	s := e.Args[1]
	var pointee *c03V
	switch s.K {
	case c03KAddr, c03KPtr:
		pointee = e.Deref[1]
	case c03KNil:
		return false, "the start argument is nil (with a nil start DecodeElement reads the *next* start element from the stream, i.e. a child or a sibling)"
	}
	if pointee == nil || it.start == nil || pointee.Key == "" || pointee.Key != it.start.Key {
		return false, "the start argument is not the address of the start element bound from the token read in this iteration"
	}
	if pointee.K != c03KInit || len(pointee.Path) != 0 {
		return false, "the start element was modified before decoding"
	}
	if it.token == nil || e.Recv == nil || it.token.Recv == nil || e.Recv.Key == "" || e.Recv.Key != it.token.Recv.Key {
		return false, "DecodeElement is called on a different decoder than the one the token was read from"
	}
	return true, ""
}

// touches lists what happened to object obj after event `from` in the iteration: stores through it and calls
// (not entered by the interpreter) that receive it.
func (it *c03Iter) touches(obj *c03V, from *c03Event) (stores, escapes []c03Event) {
	id := obj.Ident()
	seen := false
	// v is the object, or a pointer into it (&obj.Field, the receiver of a pointer method called on a field)
	var has func(v *c03V) bool
	has = func(v *c03V) bool {
		if v == nil {
			return false
		}
		if v.Ident() == id {
			return true
		}
		if v.K == c03KRef && v.Base != nil && v.Base.Ident() == id {
			return true
		}
		if v.K == c03KUnk && v.Call == nil {
			for _, f := range v.From {
				if f != nil && f.Ident() == id {
					return true
				}
			}
		}
		return false
	}
	for i := range it.after {
		e := it.after[i]
		if !seen {
			if e.Call == from.Call && e.Kind == "call" {
				seen = true
			}
			continue
		}
		switch e.Kind {
		case "store":
			if has(e.Target) {
				stores = append(stores, e)
			}
		case "call":
			hit := has(e.Recv)
			for j, a := range e.Args {
				if has(a) || (a != nil && a.K == c03KAddr && j < len(e.Deref) && has(e.Deref[j])) {
					hit = true
				}
			}
			if hit {
				escapes = append(escapes, e)
			}
		}
	}
	return
}

// ---- debugging aid -------------------------------------------------------------------------------

// c03DumpPaths prints the paths of a run when OSMCHECK_C03_DEBUG names the function.
func c03DumpPaths(p *core.Program, fi *FuncInfo, tag string, paths []*c03Path) {
	if d := os.Getenv("OSMCHECK_C03_DEBUG"); d == "" || !strings.Contains(fi.Name(), d) {
		return
	}
	fmt.Fprintf(os.Stderr, "=== %s [%s]: %d path(s)\n", fi.Name(), tag, len(paths))
	for i, pa := range paths {
		var rs []string
		for _, r := range pa.Ret {
			rs = append(rs, r.String())
		}
		fmt.Fprintf(os.Stderr, "  path %d: end=%s ret=(%s) %s\n", i, pa.End, strings.Join(rs, ", "), pa.Why)
		for _, e := range pa.St.Trace {
			pos := ""
			if e.Node != nil {
				pos = p.Rel(e.Node.Pos())
			}
			switch e.Kind {
			case "call", "enter":
				var as []string
				for _, a := range e.Args {
					as = append(as, a.String())
				}
				fn := "?"
				if e.Fn != nil {
					fn = funcName(e.Fn)
				}
				fmt.Fprintf(os.Stderr, "      %s %s %s recv=%v (%s)\n", e.Kind, pos, fn, e.Recv, strings.Join(as, ", "))
			case "store":
				var fs []string
				for _, f := range e.Field {
					fs = append(fs, f.Name())
				}
				fmt.Fprintf(os.Stderr, "      store %s %v.%s = %v\n", pos, e.Target, strings.Join(fs, "."), e.Val)
			case "fork":
				fmt.Fprintf(os.Stderr, "      fork %s `%s` -> %v %s\n", pos, src(p.Fset, e.Cond), e.Taken, e.Why)
			default:
				fmt.Fprintf(os.Stderr, "      %s %s %s %v\n", e.Kind, pos, e.Why, e.Val)
			}
		}
	}
}

// c03SortedLabels returns the union of label sets, sorted.
func c03SortedLabels(sets ...[]string) []string {
	m := map[string]bool{}
	for _, s := range sets {
		for _, l := range s {
			m[l] = true
		}
	}
	out := c03SortedKeys(m)
	sort.Strings(out)
	return out
}
