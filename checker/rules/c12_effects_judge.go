package rules

import (
	"go/ast"
	"go/token"
	"go/types"
	"strings"
)

// judge classifies every collected write and emits one obligation per (function, written place).
func (ef *c12Effects) judge(loopFn *c12Fn, rs *ast.RangeStmt) {
	r := ef.r
	for _, e := range ef.all {
		if e.inLoop == nil && !c12IsPkgVar(e.root.(*types.Var)) && !ef.outlives(e.fn, e.root, 4) {
			continue // the object written is created afresh by a function reached under the loop: per-iteration state
		}
		c := "effect@" + e.fn.fi.Name() + " " + e.key
		text := "`" + src(r.P.Fset, e.node) + "`"
		st, why := ef.classify(e, loopFn, rs)
		switch st {
		case c12OK:
			r.OK(c, e.node.Pos(), "%s under the range over %s: %s", text, src(r.P.Fset, rs.X), why)
		case c12Bad:
			r.Bad(c, e.node.Pos(), "%s is executed once per iteration of the range over the map %s and %s: the annotated result depends on hash-map iteration order", text, src(r.P.Fset, rs.X), why)
		default:
			r.Unknown(c, e.node.Pos(), "%s is executed under the range over the map %s; %s", text, src(r.P.Fset, rs.X), why)
		}
	}
}

// uses reports whether expression x reads data of the current call / iteration (perCall) and whether it reads the
// state the write belongs to or other long-lived state (state).
func (ef *c12Effects) uses(e *c12Effect, x ast.Node, depth int) (perCall, state bool) {
	if x == nil {
		return
	}
	info := e.fn.info()
	ast.Inspect(x, func(n ast.Node) bool {
		id, ok := n.(*ast.Ident)
		if !ok {
			return true
		}
		v, ok := info.Uses[id].(*types.Var)
		if !ok || v.IsField() {
			return true
		}
		switch {
		case v == e.root || c12IsPkgVar(v):
			state = true
		case e.inLoop != nil:
			if v.Pos() >= e.inLoop.Pos() && v.Pos() < e.inLoop.End() {
				perCall = true
			} else {
				state = true
			}
		case c12ParamPos(info, e.fn.fi.Decl, v) >= 0:
			perCall = true
		default:
			// a local: what it was computed from
			if rhs := c12SingleDef(info, e.fn.fi.Decl.Body, v); rhs != nil && depth > 0 {
				p, s := ef.uses(e, rhs, depth-1)
				perCall, state = perCall || p, state || s
			} else if over := c12RangedOver(info, e.fn.fi.Decl.Body, v); over != nil && depth > 0 {
				// a loop variable: what the loop ranges over
				p, s := ef.uses(e, over, depth-1)
				perCall, state = perCall || p, state || s
			} else {
				perCall = true
			}
		}
		return true
	})
	return
}

// nilGuarded: the write is reachable only when the written place is nil.
func (ef *c12Effects) nilGuarded(e *c12Effect) bool {
	info := e.fn.info()
	body := e.fn.fi.Decl.Body
	for _, f := range factsAtPos(info, e.fn.g, e.fn.dom, e.node.Pos()) {
		l, op, rr, ok := cmpNorm(f.expr)
		if !ok {
			continue
		}
		var other ast.Expr
		switch {
		case c12IsNil(info, rr):
			other = l
		case c12IsNil(info, l):
			other = rr
		default:
			continue
		}
		if !((op == token.EQL && f.val) || (op == token.NEQ && !f.val)) {
			continue
		}
		if sameChain(info, stripDerefParen(expandAlias(info, body, other)), stripDerefParen(e.lhs)) {
			return true
		}
	}
	return false
}

func (ef *c12Effects) accumulates(e *c12Effect) *c12Effect {
	for _, o := range ef.all {
		if o == e {
			continue
		}
		if strings.HasPrefix(o.key, e.key+"[") || (o.kind == "append" && o.key == e.key) {
			return o
		}
	}
	return nil
}

func c12IndexSteps(lhs ast.Expr) []ast.Expr {
	var out []ast.Expr
	for e := ast.Unparen(lhs); ; {
		switch x := e.(type) {
		case *ast.SelectorExpr:
			e = ast.Unparen(x.X)
			continue
		case *ast.IndexExpr:
			out = append(out, x.Index)
			e = ast.Unparen(x.X)
			continue
		case *ast.StarExpr:
			e = ast.Unparen(x.X)
			continue
		}
		return out
	}
}

func c12IsFreshOrConst(info *types.Info, x ast.Expr) bool {
	x = ast.Unparen(x)
	if c12IsNil(info, x) {
		return true
	}
	if tv, ok := info.Types[x]; ok && tv.Value != nil {
		return true
	}
	switch y := x.(type) {
	case *ast.CompositeLit:
		return true
	case *ast.UnaryExpr:
		_, lit := ast.Unparen(y.X).(*ast.CompositeLit)
		return y.Op == token.AND && lit
	case *ast.CallExpr:
		b := builtinName(info, y)
		return b == "make" || b == "new"
	}
	return false
}

func (ef *c12Effects) classify(e *c12Effect, loopFn *c12Fn, rs *ast.RangeStmt) (int, string) {
	info := e.fn.info()
	fset := ef.r.P.Fset
	keyed := ""
	for _, ix := range c12IndexSteps(e.lhs) {
		if p, _ := ef.uses(e, ix, 3); p {
			keyed = src(fset, ix)
		}
	}
	switch e.kind {
	case "append":
		for _, t := range ef.s.taints(loopFn, rs.Body, 3) {
			if c12TaintKey(t) == e.key || (e.inLoop != nil && (t.root == e.root || c12WritesPlace(info, e.fn.fi.Decl.Body, e.lhs, t.root))) {
				return c12OK, "an append; N1 requires the list to be sorted into a total order before it escapes"
			}
		}
		return c12Unk, "it appends in map-iteration order to a list that N1 does not follow to a sort"
	case "delete":
		if keyed != "" {
			return c12OK, "deletes the key " + keyed + " of the current call only"
		}
		return c12Bad, "deletes a key that is not derived from the current call: whether other iterations find it depends on their order"
	case "bulk":
		// copy(dst, src) into a list that N1 follows to a sort is a fill of that list, like append
		for _, t := range ef.s.taints(loopFn, rs.Body, 3) {
			if e.inLoop != nil && (t.root == e.root || c12WritesPlace(info, e.fn.fi.Decl.Body, e.lhs, t.root)) {
				return c12OK, "fills (copy) a list that N1 requires to be sorted into a total order before it escapes"
			}
		}
		return c12Unk, "a bulk write the rule does not classify"
	case "incdec":
		if keyed != "" {
			return c12OK, "updates the slot keyed by " + keyed + " of the current call"
		}
		if rd := ef.readOf(e); rd != nil {
			return c12Bad, "its running value is read under the same loop (`" + src(fset, rd) + "`): each iteration sees a count that depends on how many came before"
		}
		return c12OK, "a commutative update that nothing under the loop reads"
	}
	// plain store
	if keyed != "" {
		return c12OK, "a store into the slot keyed by " + keyed + " of the current call (commutes with the other iterations)"
	}
	if len(c12IndexSteps(e.lhs)) > 0 {
		return c12Unk, "it stores into a slot that is not keyed by data of the current call"
	}
	if e.rhs == nil {
		return c12Unk, "the stored value comes from a multi-value expression"
	}
	if se, ok := c12StripConv(info, e.rhs).(*ast.SliceExpr); ok && se.High != nil {
		if z, isConst := constInt(info, se.High); isConst && z == 0 && ef.accumulates(e) == nil {
			return c12OK, "stores an empty view [:0] (only spare capacity is kept; N6 decides how it may be used)"
		}
	}
	if ef.scratchOnly(e) {
		return c12OK, "a scratch buffer: only its capacity survives an iteration; its contents are reached only through empty views [:0] and leave only by value copy"
	}
	vPer, _ := ef.uses(e, e.rhs, 3)
	if ef.nilGuarded(e) {
		if !vPer {
			return c12OK, "a lazy initialisation (only when the place is nil, with a value that does not depend on the current call)"
		}
		return c12Bad, "keeps the value of whichever iteration comes first (set only while nil, from data of the current call)"
	}
	if vPer {
		return c12Bad, "keeps the value of whichever iteration comes last (overwritten from data of the current call)"
	}
	if o := ef.accumulates(e); o != nil {
		return c12Bad, "replaces state that other iterations insert into (`" + src(fset, o.node) + "` in " + o.fn.fi.Name() + "): what survives is what the iterations after this one insert"
	}
	if c12IsFreshOrConst(info, e.rhs) {
		return c12OK, "an idempotent store of a value that does not depend on the iteration, into a place nothing accumulates into"
	}
	return c12Unk, "the stored value is computed from long-lived state"
}

// readOf finds a read of the place written by e in the functions reached under the loop (other than in e itself).
func (ef *c12Effects) readOf(e *c12Effect) ast.Node {
	var hit ast.Node
	seen := map[*c12Fn]bool{}
	for _, o := range ef.all {
		f := o.fn
		if seen[f] {
			continue
		}
		seen[f] = true
		info := f.info()
		ast.Inspect(f.fi.Decl.Body, func(n ast.Node) bool {
			x, ok := n.(ast.Expr)
			if !ok || hit != nil {
				return hit == nil
			}
			switch x.(type) {
			case *ast.SelectorExpr, *ast.IndexExpr, *ast.Ident:
			default:
				return true
			}
			if n.Pos() >= e.node.Pos() && n.End() <= e.node.End() {
				return false
			}
			full := expandAlias(info, f.fi.Decl.Body, x)
			if rv, ok := c12RootVar(info, full).(*types.Var); ok && c12PlaceKey(info, rv, full) == e.key && (rv == e.root || f != e.fn) {
				hit = n
			}
			return true
		})
	}
	return hit
}

// c12TaintKey names the place of a list N1 follows in the same way c12PlaceKey names a written place.
func c12TaintKey(t c12Taint) string {
	root, path := c12PlaceParts(t.root)
	if root == nil {
		return ""
	}
	k := strings.TrimPrefix(types.TypeString(root.Type(), func(p *types.Package) string { return p.Name() }), "*")
	if v, ok := root.(*types.Var); ok && c12IsPkgVar(v) {
		k = v.Pkg().Name() + "." + v.Name()
	}
	for _, f := range path {
		k += "." + f.Name()
	}
	if t.elem {
		k += "[]"
	}
	return k
}

// outlives: the object parameter p of reached function f points to (or is) exists before the iteration that calls f:
// at some call under the loop the argument for p is not an object created afresh by the calling function.
func (ef *c12Effects) outlives(f *c12Fn, p types.Object, depth int) bool {
	edges := ef.edges[f.fi.Obj]
	if len(edges) == 0 || depth <= 0 {
		return true
	}
	for _, ed := range edges {
		g := ed.from
		ginfo := g.info()
		arg := argForParam(f.info(), f.fi, ed.call, p)
		if arg == nil {
			return true
		}
		if ue, ok := ast.Unparen(arg).(*ast.UnaryExpr); ok && ue.Op == token.AND {
			arg = ue.X
		}
		if c12IsFreshOrConst(ginfo, arg) {
			continue
		}
		v, ok := c12RootVar(ginfo, arg).(*types.Var)
		if !ok || c12IsPkgVar(v) {
			return true
		}
		if c12ParamPos(ginfo, g.fi.Decl, v) >= 0 {
			if g == ef.loopF || ef.outlives(g, v, depth-1) {
				return true
			}
			continue
		}
		if g == ef.loopF && !(v.Pos() >= ef.loop.Pos() && v.Pos() < ef.loop.End()) {
			return true // a variable of the loop's function declared outside the loop
		}
		if !c12FreshLocal(ginfo, g.fi.Decl.Body, v) {
			return true
		}
	}
	return false
}

// c12FreshLocal: every value assigned to local v is a fresh allocation (&T{}, T{}, new, make) or its zero value.
func c12FreshLocal(info *types.Info, body ast.Node, v *types.Var) bool {
	fresh, n := true, 0
	ast.Inspect(body, func(m ast.Node) bool {
		switch x := m.(type) {
		case *ast.AssignStmt:
			for i, l := range x.Lhs {
				if id, ok := ast.Unparen(l).(*ast.Ident); ok && objOf(info, id) == types.Object(v) {
					n++
					if len(x.Lhs) != len(x.Rhs) || !c12IsFreshOrConst(info, x.Rhs[i]) {
						fresh = false
					}
				}
			}
		case *ast.ValueSpec:
			for i, nm := range x.Names {
				if info.Defs[nm] == types.Object(v) {
					n++
					if len(x.Values) == len(x.Names) && !c12IsFreshOrConst(info, x.Values[i]) {
						fresh = false
					}
				}
			}
		case *ast.RangeStmt:
			if (x.Key != nil && objOf(info, x.Key) == types.Object(v)) || (x.Value != nil && objOf(info, x.Value) == types.Object(v)) {
				fresh = false
			}
		}
		return true
	})
	return fresh && n > 0
}

// c12RangedOver: if v is the key or value variable of a range statement in body, the expression ranged over.
func c12RangedOver(info *types.Info, body ast.Node, v *types.Var) ast.Expr {
	var out ast.Expr
	ast.Inspect(body, func(n ast.Node) bool {
		if rs, ok := n.(*ast.RangeStmt); ok {
			if (rs.Key != nil && objOf(info, rs.Key) == types.Object(v)) || (rs.Value != nil && objOf(info, rs.Value) == types.Object(v)) {
				out = rs.X
			}
		}
		return out == nil
	})
	return out
}
