package rules

// Positions in symbolic texts: strings.Index / IndexByte / LastIndex results, len(s), s[i], s[a:b].
//
// A symbolic text is a sequence of literal pieces and decimal renderings of abstract numbers whose length is
// unknown, so a byte offset is in general not a constant. What *is* exact is the cut point: "before piece p,
// off bytes into it". An index value therefore carries a c10TextPos next to its (possibly unknown) integer
// lanes. Cut points of one text are totally ordered (every piece is at least one byte long), moving by a
// constant stays exact inside a literal piece, and slicing between two cut points yields the pieces in between.
// A parser built on IndexByte + slicing is thereby evaluated over the same abstract texts as one built on Split.

import (
	"go/token"
	"go/types"
	"strings"
)

type c10TextPos struct {
	ps    []c10Piece // the text the position belongs to
	piece int        // index of the piece the cut point lies in (len(ps) = end of text)
	off   int        // byte offset inside that literal piece (0 for numbers)
}

// opaqueLen: a piece whose byte length is not known (a number, or a generic literal standing for any text).
func c10OpaqueLen(p c10Piece) bool { return p.Num != nil || c10IsGeneric(p.Lit) }

func c10SamePieces(a, b []c10Piece) bool {
	if len(a) != len(b) {
		return false
	}
	for i := range a {
		if (a[i].Num == nil) != (b[i].Num == nil) || a[i].Lit != b[i].Lit {
			return false
		}
		if a[i].Num != nil && !a[i].Num.sameLanes(*b[i].Num) {
			return false
		}
	}
	return true
}

// posVal builds the integer value of a cut point: a constant when everything before it has a known length.
func (ev *c10Eval) posVal(ps []c10Piece, piece, off int) c10Val {
	if piece < len(ps) && ps[piece].Num == nil && off == len(ps[piece].Lit) && !c10IsGeneric(ps[piece].Lit) {
		piece, off = piece+1, 0
	}
	w, s, _ := ev.intType(types.Typ[types.Int])
	n, exact := off, true
	for i := 0; i < piece && i < len(ps); i++ {
		if c10OpaqueLen(ps[i]) {
			exact = false
			break
		}
		n += len(ps[i].Lit)
	}
	var out c10Val
	if exact {
		out = c10IntVal(c10ConstVec(uint64(n), w, s))
	} else {
		out = ev.unknownOf(types.Typ[types.Int], "byte offset after a number of unknown length")
		out.V.L[63] = c10Lane{}
		out.V = out.V.norm()
	}
	out.Pos = &c10TextPos{ps: ps, piece: piece, off: off}
	return out
}

// resolvePos finds the cut point of text ps an index value denotes.
func (ev *c10Eval) resolvePos(ps []c10Piece, v c10Val) (int, int, bool) {
	if v.K != c10VInt {
		return 0, 0, false
	}
	if v.Pos != nil && c10SamePieces(v.Pos.ps, ps) {
		return v.Pos.piece, v.Pos.off, true
	}
	c, ok := v.V.signedConst()
	if !ok || c < 0 {
		return 0, 0, false
	}
	rest := int(c)
	for i, p := range ps {
		if rest == 0 {
			return i, 0, true
		}
		if c10OpaqueLen(p) {
			return 0, 0, false
		}
		if rest < len(p.Lit) {
			return i, rest, true
		}
		rest -= len(p.Lit)
	}
	if rest == 0 {
		return len(ps), 0, true
	}
	return len(ps) + 1, 0, true // beyond the end: out of range
}

// posShift moves a cut point by a constant number of bytes; exact only inside literal pieces of known length.
func (ev *c10Eval) posShift(v c10Val, by int64) (c10Val, bool) {
	p := v.Pos
	piece, off := p.piece, p.off+int(by)
	for {
		switch {
		case off < 0:
			if piece == 0 || c10OpaqueLen(p.ps[piece-1]) {
				return c10Val{}, false
			}
			piece--
			off += len(p.ps[piece].Lit)
		case piece < len(p.ps) && !c10OpaqueLen(p.ps[piece]) && off > len(p.ps[piece].Lit):
			off -= len(p.ps[piece].Lit)
			piece++
		case piece < len(p.ps) && c10OpaqueLen(p.ps[piece]) && off > 0, piece >= len(p.ps) && off > 0:
			return c10Val{}, false
		default:
			return ev.posVal(p.ps, piece, off), true
		}
	}
}

// posCmp orders two index values when at least one is a cut point: sign of a-b.
func (ev *c10Eval) posCmp(a, b c10Val) (int, bool) {
	norm := func(p *c10TextPos) (int, int) {
		if p.piece < len(p.ps) && p.ps[p.piece].Num == nil && !c10IsGeneric(p.ps[p.piece].Lit) && p.off == len(p.ps[p.piece].Lit) {
			return p.piece + 1, 0
		}
		return p.piece, p.off
	}
	if a.Pos != nil && b.Pos != nil && c10SamePieces(a.Pos.ps, b.Pos.ps) {
		ap, ao := norm(a.Pos)
		bp, bo := norm(b.Pos)
		switch {
		case ap != bp:
			return map[bool]int{true: -1, false: 1}[ap < bp], true
		case ao != bo:
			return map[bool]int{true: -1, false: 1}[ao < bo], true
		}
		return 0, true
	}
	// a cut point against a constant: the bytes before it are at least the literal bytes plus one per opaque piece
	flip := 1
	if a.Pos == nil {
		a, b, flip = b, a, -1
	}
	c, isConst := b.V.signedConst()
	if a.Pos == nil || !isConst || b.Pos != nil {
		return 0, false
	}
	if ac, exact := a.V.signedConst(); exact {
		switch {
		case ac < c:
			return -flip, true
		case ac > c:
			return flip, true
		}
		return 0, true
	}
	lb := int64(a.Pos.off)
	for i := 0; i < a.Pos.piece && i < len(a.Pos.ps); i++ {
		if c10OpaqueLen(a.Pos.ps[i]) {
			lb++
		} else {
			lb += int64(len(a.Pos.ps[i].Lit))
		}
	}
	if c < lb {
		return flip, true
	}
	return 0, false
}

// textIndex is strings.Index / LastIndex on a symbolic text (sep free of digits and signs).
func (ev *c10Eval) textIndex(ps []c10Piece, sep string, last bool) (c10Val, bool) {
	if !c10SepOK(sep) {
		return c10Val{}, false
	}
	w, s, _ := ev.intType(types.Typ[types.Int])
	found := -1
	off := 0
	for i, p := range ps {
		if p.Num != nil {
			continue
		}
		if c10IsGeneric(p.Lit) {
			if sep != c10Sep1 && sep != c10Sep2 {
				return c10Val{}, false
			}
			// a generic piece is free of the two separators except where the scenario wrote them literally
		}
		j := strings.Index(p.Lit, sep)
		if last {
			j = strings.LastIndex(p.Lit, sep)
		}
		if j >= 0 && (found < 0 || last) {
			if c10IsGeneric(p.Lit[:j]) {
				return c10Val{}, false // an offset inside a generic piece has no meaning
			}
			found, off = i, j
		}
	}
	if found < 0 {
		return c10IntVal(c10ConstVec(^uint64(0), w, s)), true
	}
	return ev.posVal(ps, found, off), true
}

// textSlice is s[lo:hi] on a symbolic text; a definite out-of-range is reported as a panic.
func (ev *c10Eval) textSlice(ps []c10Piece, lo, hi *c10Val) (c10Val, string, bool) {
	lp, lof := 0, 0
	hp, hof := len(ps), 0
	ok := true
	if lo != nil {
		lp, lof, ok = ev.resolvePos(ps, *lo)
	}
	if hi != nil && ok {
		hp, hof, ok = ev.resolvePos(ps, *hi)
	}
	if !ok {
		for _, v := range []*c10Val{lo, hi} {
			if v != nil && v.K == c10VInt && v.Pos == nil {
				if c, isConst := v.V.signedConst(); isConst && c < 0 {
					return c10Val{}, "slice bounds out of range", true
				}
			}
		}
		return c10Val{}, "", false
	}
	if lp > len(ps) || hp > len(ps) || lp > hp || (lp == hp && lof > hof) {
		return c10Val{}, "slice bounds out of range", true
	}
	var out []c10Piece
	for i := lp; i <= hp && i < len(ps); i++ {
		p := ps[i]
		if p.Num != nil {
			if i < hp {
				out = append(out, p)
			}
			continue
		}
		from, to := 0, len(p.Lit)
		if i == lp {
			from = lof
		}
		if i == hp {
			to = hof
		}
		if c10IsGeneric(p.Lit) && (from != 0 || to != len(p.Lit)) && !(i == hp && to == 0) {
			return c10Val{}, "", false
		}
		if from < to {
			out = append(out, c10Piece{Lit: p.Lit[from:to]})
		}
	}
	return c10MkText(out), "", true
}

// posBinary handles comparisons and ± constant on index values that carry a cut point.
func (ev *c10Eval) posBinary(op token.Token, a, b c10Val) (c10Val, bool) {
	if a.K != c10VInt || b.K != c10VInt || (a.Pos == nil && b.Pos == nil) {
		return c10Val{}, false
	}
	switch op {
	case token.EQL, token.NEQ, token.LSS, token.LEQ, token.GTR, token.GEQ:
		c, ok := ev.posCmp(a, b)
		if !ok {
			return c10Val{}, false
		}
		return c10BoolVal(map[token.Token]bool{token.EQL: c == 0, token.NEQ: c != 0, token.LSS: c < 0, token.LEQ: c <= 0, token.GTR: c > 0, token.GEQ: c >= 0}[op]), true
	case token.ADD, token.SUB:
		pv, cv := a, b
		if a.Pos == nil {
			if op == token.SUB {
				return c10Val{}, false
			}
			pv, cv = b, a
		}
		c, isConst := cv.V.signedConst()
		if cv.Pos != nil || !isConst {
			return c10Val{}, false
		}
		if op == token.SUB {
			c = -c
		}
		return ev.posShift(pv, c)
	}
	return c10Val{}, false
}
