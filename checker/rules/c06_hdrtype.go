package rules

import (
	"go/ast"
	"go/token"
	"go/types"
)

// c06IsHeaderType: expression x (read in scope) is the type string of a file block's BlobHeader, in whatever way it
// travels from the place the header is unmarshalled to the place it is tested:
//   - the generated getter / field of a BlobHeader value (dereferenced or not),
//   - a local defined once from such a value, or from a result of a package function every return of which yields one
//     (constants such as "" on error paths are ignored),
//   - a field of a struct of the package every store to which (assignment, keyed or positional composite literal) is
//     such a value (a small struct describing the block that was read).
func c06IsHeaderType(m *pbfModel, scope ast.Node, x ast.Expr, depth int) bool {
	info := m.info
	if x == nil || depth > 5 {
		return false
	}
	x = ast.Unparen(x)
	if scope != nil {
		x = ast.Unparen(c01Expand(info, scope, x))
	}
	if st, ok := x.(*ast.StarExpr); ok {
		x = ast.Unparen(st.X)
	}
	if c01IsConversion(info, asCall(x)) && len(asCall(x).Args) == 1 {
		if bt, ok := info.TypeOf(x).Underlying().(*types.Basic); ok && bt.Info()&types.IsString != 0 {
			return c06IsHeaderType(m, scope, asCall(x).Args[0], depth+1)
		}
	}
	switch y := x.(type) {
	case *ast.CallExpr:
		fn := callee(info, y)
		if fn == nil {
			return false
		}
		if fn.Name() == "GetType" && c01GenTypeName(c01RecvTypeOf(fn)) == "BlobHeader" {
			return true
		}
		if fn.Pkg() == m.pk.Types && fn.Type().(*types.Signature).Results().Len() == 1 {
			return c06ReturnsHeaderType(m, fn, 0, depth+1)
		}
	case *ast.SelectorExpr:
		fl := fieldOf(info, y)
		if fl == nil {
			return false
		}
		if fl.Name() == "Type" && c01GenTypeName(selRecv(info, y)) == "BlobHeader" {
			return true
		}
		if fl.Pkg() == m.pk.Types {
			return c06FieldHoldsHeaderType(m, fl, depth+1)
		}
	case *ast.Ident:
		// a local defined from one result of a call
		o := objOf(info, y)
		if o == nil || scope == nil {
			return false
		}
		ds := c01Defs(info, scope, o)
		if len(ds) != 1 || ds[0].rhs == nil || ds[0].index < 0 {
			return false
		}
		if call, ok := ast.Unparen(ds[0].rhs).(*ast.CallExpr); ok {
			if fn := callee(info, call); fn != nil && fn.Pkg() == m.pk.Types {
				return c06ReturnsHeaderType(m, fn, ds[0].index, depth+1)
			}
		}
	}
	return false
}

func asCall(x ast.Expr) *ast.CallExpr {
	if c, ok := ast.Unparen(x).(*ast.CallExpr); ok {
		return c
	}
	return &ast.CallExpr{Fun: &ast.Ident{Name: "_"}}
}

// c06ReturnsHeaderType: every return of fn yields a header type (or a constant) at result idx, at least one a header type.
func c06ReturnsHeaderType(m *pbfModel, fn *types.Func, idx, depth int) bool {
	tf := c01FuncInfo(m.pk, fn)
	if tf == nil {
		return false
	}
	info := m.info
	n, all := 0, true
	ast.Inspect(tf.Decl.Body, func(y ast.Node) bool {
		if _, ok := y.(*ast.FuncLit); ok {
			return false
		}
		ret, ok := y.(*ast.ReturnStmt)
		if !ok {
			return true
		}
		if idx >= len(ret.Results) {
			all = false
			return true
		}
		e := ret.Results[idx]
		if tv, ok := info.Types[e]; ok && tv.Value != nil {
			return true
		}
		if c06IsHeaderType(m, tf.Decl.Body, e, depth+1) {
			n++
		} else {
			all = false
		}
		return true
	})
	return all && n > 0
}

// c06FieldHoldsHeaderType: every store into field fl in the package is a header type (constants ignored).
func c06FieldHoldsHeaderType(m *pbfModel, fl *types.Var, depth int) bool {
	info := m.info
	n, all := 0, true
	judge := func(scope ast.Node, e ast.Expr) {
		if tv, ok := info.Types[e]; ok && tv.Value != nil {
			return
		}
		if c06IsHeaderType(m, scope, e, depth+1) {
			n++
		} else {
			all = false
		}
	}
	for _, fi := range allFuncs(m.pk) {
		fi := fi
		ast.Inspect(fi.Decl.Body, func(y ast.Node) bool {
			switch s := y.(type) {
			case *ast.AssignStmt:
				for i, l := range s.Lhs {
					if fieldOf(info, l) != fl {
						continue
					}
					if s.Tok != token.ASSIGN || len(s.Rhs) != len(s.Lhs) {
						all = false
						continue
					}
					judge(fi.Decl.Body, s.Rhs[i])
				}
			case *ast.UnaryExpr:
				if s.Op == token.AND && fieldOf(info, s.X) == fl {
					all = false // its address escapes: stores are not all visible
				}
			case *ast.CompositeLit:
				st, ok := info.TypeOf(s).Underlying().(*types.Struct)
				if !ok {
					return true
				}
				for i, el := range s.Elts {
					if kv, ok := el.(*ast.KeyValueExpr); ok {
						if id, ok := kv.Key.(*ast.Ident); ok && info.Uses[id] == fl {
							judge(fi.Decl.Body, kv.Value)
						}
						continue
					}
					if i < st.NumFields() && st.Field(i) == fl {
						judge(fi.Decl.Body, el)
					}
				}
			}
			return true
		})
	}
	return all && n > 0
}
