package rules

import (
	"fmt"
	"go/token"
	"strings"
)

// Obligations read off the symbolic execution of an endpoint method (c20_ep.go).

func (cx *c20Ctx) posOf(st *c20St, dflt token.Pos) token.Pos {
	if st != nil && st.retAt != nil {
		return st.retAt.Pos()
	}
	return dflt
}

// H1 once@: exactly one request on every path to a success return, at most one on any other path, none in a loop.
func (cx *c20Ctx) onceEP(fi *FuncInfo, sep string) {
	r := cx.r
	c := "once@" + fi.Name()
	run := cx.runEndpoint(fi, sep)
	if a := run.loopAbort(); a != nil {
		r.Bad(c, a.whyAt.Pos(), "%s: one call of %s can issue several GETs", strings.TrimPrefix(a.why, "loop:"), fi.Name())
		return
	}
	if a := run.panicAbort(); a != nil {
		r.Bad(c, a.whyAt.Pos(), "%s: %s must issue exactly one GET for every argument, including an empty id list", strings.TrimPrefix(a.why, "panic:"), fi.Name())
		return
	}
	if why, a := run.abortText(cx); why != "" {
		r.Unknown(c, a.whyAt.Pos(), "%s could not be executed symbolically: %s", fi.Name(), why)
		return
	}
	nSucc, nOther := 0, 0
	for _, st := range run.rets {
		n := len(st.eventsOf("request"))
		if c20IsSuccess(st) {
			nSucc++
			if n != 1 {
				r.Bad(c, cx.posOf(st, fi.Decl.Pos()), "success return `%s` is reached after %d request(s) [%s]; exactly one GET per call is required", src(r.P.Fset, st.retAt), n, st.factText())
				return
			}
		} else {
			nOther++
			if last := st.ret[len(st.ret)-1]; n == 0 && last.k == c20kErr && last.tag != "new" {
				r.Bad(c, cx.posOf(st, fi.Decl.Pos()), "`%s` returns the status-typed error &%s{...} on a path that makes no request [%s]: the typed errors stand for the status the server sent for the one GET of the call", src(r.P.Fset, st.retAt), last.tag, c20PathText(st))
				return
			}
			if n > 1 {
				r.Bad(c, cx.posOf(st, fi.Decl.Pos()), "error return `%s` can be reached after %d requests", src(r.P.Fset, st.retAt), n)
				return
			}
		}
	}
	if nSucc == 0 {
		if len(cx.reqCallsDeep(fi)) == 0 {
			r.Bad(c, fi.Decl.Pos(), "endpoint method %s never calls getFromAPI (directly or through a helper): no request is issued for the call", fi.Name())
		} else {
			r.Unknown(c, fi.Decl.Pos(), "no path of %s returns a nil error", fi.Name())
		}
		return
	}
	r.OK(c, fi.Decl.Pos(), "symbolic execution (helpers inlined): %s returning a nil error, each after exactly one request; %s after at most one; no request in a loop",
		c20Plural(nSucc, "path"), c20Plural(nOther, "other path"))
}

// reqCallsDeep: whether fi can reach the request function at all.
func (cx *c20Ctx) reqCallsDeep(fi *FuncInfo) []int {
	if cx.reqFns[fi.Obj] {
		return []int{1}
	}
	return nil
}

// H3 propagate@: when the request fails its error is returned unchanged, and no path ignores it.
func (cx *c20Ctx) propagateEP(fi *FuncInfo, sep string) {
	r := cx.r
	c := "propagate@" + fi.Name()
	run := cx.runEndpoint(fi, sep)
	if why, a := run.abortText(cx); why != "" {
		r.Unknown(c, a.whyAt.Pos(), "%s could not be executed symbolically: %s", fi.Name(), why)
		return
	}
	nReq := 0
	for _, st := range run.rets {
		for _, ev := range st.eventsOf("request") {
			nReq++
			failed, tested := st.fact(fmt.Sprintf("nil:#%d", ev.id))
			failed = !failed
			switch {
			case !tested:
				r.Bad(c, ev.call.Pos(), "the error of `%s` is never tested on the path to `%s`: a 404/403/410/414/other status would yield a (partial or empty) result instead of its typed error", src(r.P.Fset, ev.call), src(r.P.Fset, st.retAt))
				return
			case failed:
				last := c20V{}
				if len(st.ret) > 0 {
					last = st.ret[len(st.ret)-1]
				}
				if !(last.k == c20kObj && last.tag == "err" && last.id == ev.id) {
					r.Bad(c, cx.posOf(st, ev.call.Pos()), "when `%s` fails, `%s` returns %s instead of that error unchanged: the typed status error (NotFoundError, ...) does not reach the caller", src(r.P.Fset, ev.call), src(r.P.Fset, st.retAt), last.String())
					return
				}
			}
		}
	}
	if nReq == 0 {
		r.Unknown(c, fi.Decl.Pos(), "no request on any path of %s", fi.Name())
		return
	}
	r.OK(c, fi.Decl.Pos(), "on every path the request's error is tested; when non-nil that very value is the returned error (typed status errors reach the caller, no data is returned)")
}

// H4 path@: the URL of the request, merged over all paths, equals the table entry.
func (cx *c20Ctx) pathEP(fi *FuncInfo, tab *c20Table) {
	r := cx.r
	name := fi.Obj.Name()
	c := "path@" + fi.Name()
	ep := tab.endpoint(name)
	if ep == nil {
		r.Bad(c, fi.Decl.Pos(), "exported request method %s has no entry in tables/api06.json: its path cannot be compared with the API v0.6 documentation (add the documented path to the table)", fi.Name())
		return
	}
	sig := c20Sig(fi.Obj)
	for role, i := range ep.Params {
		if i <= 0 || i >= sig.Params().Len() {
			r.Bad(c, fi.Decl.Pos(), "the table binds role %q to parameter #%d, which %s does not have (signature changed)", role, i, fi.Name())
			return
		}
	}
	run := cx.runEndpoint(fi, tab.OptionSeparator)
	if why, a := run.abortText(cx); why != "" {
		r.Unknown(c, a.whyAt.Pos(), "%s could not be executed symbolically: %s", fi.Name(), why)
		return
	}
	var paths []c20Path
	pos := fi.Decl.Pos()
	for _, st := range run.rets {
		for _, ev := range st.eventsOf("request") {
			pos = ev.call.Pos()
			if !c20IsInput(cx.getArg(ev, cx.get.ds), "recv") {
				r.Bad(c, ev.call.Pos(), "`%s` is not called on the method's receiver: another datasource's client/limiter/base URL would be used", src(r.P.Fset, ev.call.Fun))
				return
			}
			if !c20IsInput(cx.getArg(ev, cx.get.ctx), "p0") {
				r.Bad(c, ev.call.Pos(), "`%s` is not made with the call's context parameter", src(r.P.Fset, ev.call))
				return
			}
			u := cx.getArg(ev, cx.get.url)
			if u.k != c20kStr {
				r.Unknown(c, ev.call.Pos(), "URL argument of `%s` could not be evaluated: %s", src(r.P.Fset, ev.call), u.String())
				return
			}
			paths = append(paths, c20Path{sym: cx.normURL(u.sym, st), st: st})
		}
	}
	sym, why := c20MergeURLs(paths)
	if why != "" {
		r.Unknown(c, pos, "URL of %s: %s", fi.Name(), why)
		return
	}
	got := sym.render(c20Roles(ep))
	if got != ep.URL {
		r.Bad(c, pos, "%s requests `%s`; API v0.6 (%s) requires `%s` (holes are the method's parameters by position: %s)", fi.Name(), got, ep.Doc, ep.URL, c20ParamList(sig, ep))
		return
	}
	used := map[int]bool{}
	for _, h := range sym.holes() {
		used[h.param] = true
	}
	for i := 1; i < sig.Params().Len(); i++ {
		if !used[i] {
			r.Bad(c, pos, "parameter %s of %s does not appear in the request URL `%s`", sig.Params().At(i).Name(), fi.Name(), got)
			return
		}
	}
	r.OK(c, pos, "URL evaluates on all %d request path(s) to `%s` with %s — equal to the table entry (%s)", len(paths), got, c20ParamList(sig, ep), ep.Doc)
	cx.fidelityEP(fi, ep, sym)
}
