package rules

import (
	"go/ast"

	"golang.org/x/tools/go/cfg"
)

// Receive-with-assignment cases of a select.
//
// go/cfg evaluates the communication statements of *all* cases in the block in front of the select and then branches;
// the body block of a case `case v = <-ch:` starts with the node `v`. Taken literally the assignment would happen on
// every branch (a `case <-ctx.Done():` path would see v overwritten). The engine therefore ignores the effect of such a
// statement in front of the select and applies it at the first node of its own case body, where it really happens.

// c14SelectComm: node n is the evaluation of a case's communication statement in front of the select.
func c14SelectComm(n *c14Node) bool {
	if n.ast == nil || n.atom != nil {
		return false
	}
	cl, ok := n.ctx.fn.par[n.ast].(*ast.CommClause)
	return ok && ast.Node(cl.Comm) == n.ast
}

// c14CommAssign: node n is the first node of the body of `case lhs… = <-ch:` / `case lhs… := <-ch:`; returns that
// assignment.
func c14CommAssign(n *c14Node) *ast.AssignStmt {
	if n.atom != nil || n.idx != 0 || n.blk.Kind != cfg.KindSelectCaseBody || n.ast == nil {
		return nil
	}
	cl, ok := n.blk.Stmt.(*ast.CommClause)
	if !ok {
		return nil
	}
	as, ok := cl.Comm.(*ast.AssignStmt)
	if !ok || len(as.Lhs) == 0 || ast.Node(as.Lhs[0]) != n.ast {
		return nil
	}
	return as
}

// effectAst returns the syntax whose assignments take effect when node n executes.
func c14EffectAst(n *c14Node) ast.Node {
	if as := c14CommAssign(n); as != nil {
		return as
	}
	if _, isAssign := n.ast.(*ast.AssignStmt); isAssign && c14SelectComm(n) {
		return nil
	}
	return n.ast
}
