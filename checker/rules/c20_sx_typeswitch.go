package rules

import (
	"go/ast"
	"go/types"
)

// hasType decides whether the dynamic type of an error value is want (a concrete type): (result, known).
func (x *c20SX) hasType(v c20V, want types.Type) (bool, bool) {
	if want == nil {
		return false, false
	}
	if _, isIface := want.Underlying().(*types.Interface); isIface {
		return false, false
	}
	switch v.k {
	case c20kNil:
		return false, true
	case c20kErr:
		if v.typ == nil {
			// an error created elsewhere (fmt.Errorf, another package): never one of the package's concrete types
			if x.pkgErrType(want) != "" {
				return false, true
			}
			return false, false
		}
		vt := v.typ
		if v.b {
			vt = types.NewPointer(v.typ)
		}
		return types.Identical(vt, want), true
	}
	return false, false
}

// typeSwitchStmt models `switch [e :=] X.(type) { case T1, T2: ... case nil: ... default: ... }` for error values.
func (x *c20SX) typeSwitchStmt(s *ast.TypeSwitchStmt, st *c20St) []*c20St {
	cur := []*c20St{st}
	if s.Init != nil {
		cur = x.block([]ast.Stmt{s.Init}, cur)
	}
	var subject ast.Expr
	switch a := s.Assign.(type) {
	case *ast.ExprStmt:
		if ta, ok := ast.Unparen(a.X).(*ast.TypeAssertExpr); ok {
			subject = ta.X
		}
	case *ast.AssignStmt:
		if len(a.Rhs) == 1 {
			if ta, ok := ast.Unparen(a.Rhs[0]).(*ast.TypeAssertExpr); ok {
				subject = ta.X
			}
		}
	}
	if subject == nil {
		return []*c20St{st.abort(s, "type switch of an unexpected form")}
	}
	var out []*c20St
	for _, c := range cur {
		if c.ctl != c20cRun {
			out = append(out, c)
			continue
		}
		for _, r := range x.ev(subject, c) {
			if r.st.ctl != c20cRun {
				out = append(out, r.st)
				continue
			}
			out = append(out, x.typeSwitchOn(s, r.v, r.st)...)
		}
	}
	return out
}

func (x *c20SX) typeSwitchOn(s *ast.TypeSwitchStmt, v c20V, st *c20St) []*c20St {
	var chosen, dflt *ast.CaseClause
	for _, cl := range s.Body.List {
		cc := cl.(*ast.CaseClause)
		if cc.List == nil {
			dflt = cc
			continue
		}
		for _, te := range cc.List {
			match, known := false, false
			if id, ok := ast.Unparen(te).(*ast.Ident); ok && objOf(x.info, id) == types.Universe.Lookup("nil") {
				match, known = v.k == c20kNil, v.k == c20kNil || v.k == c20kErr
			} else {
				match, known = x.hasType(v, x.info.TypeOf(te))
			}
			if !known {
				return []*c20St{st.abort(te, "type switch on %s: the case `%s` is not decided by the value", v.String(), x.srcOf(te))}
			}
			if match && chosen == nil {
				chosen = cc
			}
		}
		if chosen != nil {
			break
		}
	}
	if chosen == nil {
		chosen = dflt
	}
	if chosen == nil {
		return []*c20St{st}
	}
	// the variable declared by `switch e := x.(type)` has one object per clause
	if o := x.info.Implicits[chosen]; o != nil {
		x.born(o)
		st.env[o] = v
	}
	var out []*c20St
	for _, o := range x.block(chosen.Body, []*c20St{st}) {
		if o.ctl == c20cBrk && o.lbl == "" {
			o.ctl = c20cRun
		}
		out = append(out, o)
	}
	return out
}
