package rules

import (
	"go/ast"
	"sort"
	"strings"

	"osmcheck/core"
)

// W7 every walk is remembered; every walk looks at the context
//
// Termination "in useful time" and prompt cancellation need more than the cycle cut: an activation of the DFS that has
// recursed into members and then returns nil (the iteration goes on) must leave a record that makes a later activation
// for the same id return at once — the id must be in the set the entry test consults — otherwise the relation is walked
// again from every parent that references it. With the cut `return nil` leaving nothing behind, relations on a cycle are
// never memoised: on a ladder of cycles the number of history lookups doubles per layer.
//
//	memo@dfs <reason>            every nil way out that can follow a recursive call passes a store of the id into the
//	                             set tested on entry
//	cancel-latency@dfs <reason>  … and passes a test of the ordering's context (ctx.Err() / a select on Done) made by
//	                             the walk itself, so that an activation never returns "carry on" without having looked
//
// Ways out with a result known to be non-nil, and `return ctx.Err()`, end the whole iteration and are exempt. <reason> is
// "cycle-cut" for the ways out taken when the path scan found an ancestor, "recorded"/"tested" for the ways out that
// satisfy the obligation, "other" for anything else.
func c14W7(r *core.R) {
	m := c14Get(r)
	if m == nil {
		return
	}
	g, wf, fn := m.wg, m.walkFacts(), m.walk.Name()
	entry := []*c14State{g.entry}
	if len(wf.recs) == 0 {
		r.Bad("memo@dfs", m.walk.Decl.Pos(), "%s never calls itself", fn)
		return
	}
	// the ways out that can follow a recursive call and tell the caller to carry on
	afterRec := g.reach(c14Succs(g.statesOf(m.recNodes()...), nil), nil, nil)
	// … cancellation ends the iteration: ways out only reached through the cancelled edge of a test of the ordering's
	// context, or through a Done case of a select, are exempt whatever the helper in between returns
	cancelled := c14Edges{}
	for _, n := range m.atoms(g) {
		if subj, nilWhen := c14NilTest(m.atomVal(g, n)); subj != nil && m.isMethodOn(g, subj, m.fCtx, "context.Context", "Err") {
			cancelled[n] = -nilWhen
		}
	}
	doneClauses := map[*ast.CommClause]bool{}
	for _, n := range g.execNodes() {
		if st, ok := n.ast.(ast.Stmt); ok && c14SelectComm(n) {
			if e := c14CommRecv(st); e != nil && m.isDoneRecv(g, n.ctx, e, n) {
				if cl, ok := n.ctx.fn.par[n.ast].(*ast.CommClause); ok {
					doneClauses[cl] = true
				}
			}
		}
	}
	notCancelled := g.reach(entry, nil, c14SkipAny(cancelled.skip, func(s *c14State, e c14Edge) bool { return e.sel != nil && doneClauses[e.sel] }))
	var exits []*c14State
	for _, s := range afterRec.exits() {
		abs, val, _ := m.exitVal(g, s)
		if abs == c14NonNil || (abs != c14Nil && val != nil && m.isMethodOn(g, val, m.fCtx, "context.Context", "Err")) || !notCancelled[s] {
			continue
		}
		exits = append(exits, s)
	}
	// stores of the id into the set the entry test consults: the test guards all walking (no recursion and no history
	// lookup is reached from the entry without its not-yet-visited edge)
	var stores []*c14Node
	guarded := len(wf.idTests) > 0
	if guarded {
		open := g.reach(entry, nil, wf.idTests.inverse().skip)
		guarded = !open.hasNode(m.recNodes()...)
		for _, h := range wf.history {
			guarded = guarded && !open.hasNode(h.n)
		}
	}
	if guarded {
		for _, st := range wf.stores {
			if m.isIDParam(wf.storeKey[st]) {
				stores = append(stores, st)
			}
		}
	}
	// the walk's own looks at the context
	var looks []*c14Node
	for _, n := range m.atoms(g) {
		if subj, _ := c14NilTest(m.atomVal(g, n)); subj != nil && m.isMethodOn(g, subj, m.fCtx, "context.Context", "Err") {
			looks = append(looks, n)
		}
	}
	for _, n := range g.execNodes() {
		if st, ok := n.ast.(ast.Stmt); ok && c14SelectComm(n) {
			if e := c14CommRecv(st); e != nil && m.isDoneRecv(g, n.ctx, e, n) {
				looks = append(looks, n)
			}
		}
	}
	// the ways out taken when the path scan found an ancestor
	cut := c14Edges{}
	for _, rec := range wf.recs {
		if rec.idVal != nil {
			scans, _ := m.scansFor(rec.idVal, rec.n)
			for _, sc := range scans {
				for n, v := range sc.match {
					cut[n] = v
				}
			}
		}
	}
	afterCut := g.reach(cut.targets(g), nil, nil)

	report := func(kind string, okLabel string, sat func(*c14State) bool, okText, badText string) {
		groups := map[string][]*c14State{}
		for _, s := range exits {
			label := okLabel
			if !sat(s) {
				label = "other"
				if afterCut[s] {
					label = "cycle-cut"
				}
			}
			groups[label] = append(groups[label], s)
		}
		var labels []string
		for l := range groups {
			labels = append(labels, l)
		}
		sort.Strings(labels)
		for _, l := range labels {
			ss := groups[l]
			sort.Slice(ss, func(i, j int) bool { return ss[i].id < ss[j].id })
			var where []string
			seen := map[*c14Node]bool{}
			for _, s := range ss {
				if !seen[s.n] {
					seen[s.n] = true
					where = append(where, "`"+m.nodeSrc(s.n)+"` ("+m.rel(s.n.pos())+")")
				}
			}
			c := kind + "@dfs " + l
			if l == okLabel {
				r.OK(c, ss[0].n.pos(), "%d way(s) out of %s after a recursive call with a result that lets the iteration go on, e.g. %s: %s", len(where), fn, where[0], okText)
			} else {
				r.Bad(c, ss[0].n.pos(), "%s leaves %s with a result that lets the iteration go on, after members may have been walked, %s", strings.Join(where, ", "), fn, badText)
			}
		}
		if len(exits) == 0 {
			r.OKTrivial(kind+"@dfs "+okLabel, m.walk.Decl.Pos(), "no way out of %s with a result that lets the iteration go on can follow a recursive call", fn)
		}
	}
	report("memo", "recorded",
		func(s *c14State) bool { return len(stores) > 0 && !g.reach(entry, c14StopAt(stores...), nil)[s] },
		"every path to it stores the id into the set whose membership test on entry guards all walking, so the relation is never walked again",
		"without the id having been stored into the set the entry test consults: the relation is not memoised and is walked again, with everything below it, from every parent that references it (relations on a cycle: the number of history lookups doubles with every layer of a ladder of cycles; the iteration ends only after exponentially many lookups and Close/cancellation waits as long)")
	report("cancel-latency", "tested",
		func(s *c14State) bool { return len(looks) > 0 && !g.reach(entry, c14StopAt(looks...), nil)[s] },
		"every path to it passes a test of the ordering's context made by the walk itself",
		"without the walk having looked at the ordering's context (ctx.Err() / select on Done) on that path: a sub-walk made only of such activations never notices Close or cancellation; the context is only tested when an id is about to be emitted")
}
