package rules

import (
	"go/ast"
	"go/token"
	"go/types"
)

// Tables of pointers to the cached iterators ("switch -> lookup table"): `[N]**Iterator{1: &dec.versions, ...}` read
// once into a local, returned by a function of the package, or written in place.

// iterTableStore: lhs is `*T[idx]` (or `*(T[idx])`) where T is such a table; it returns entry -> decoder field and idx.
func (cm *c01Model) iterTableStore(fi *FuncInfo, lhs ast.Expr) (map[int64]*types.Var, ast.Expr) {
	st, ok := ast.Unparen(lhs).(*ast.StarExpr)
	if !ok {
		return nil, nil
	}
	ix, ok := ast.Unparen(st.X).(*ast.IndexExpr)
	if !ok {
		return nil, nil
	}
	tab := cm.iterTable(fi, ix.X, 0)
	if len(tab) == 0 {
		return nil, nil
	}
	return tab, ix.Index
}

// iterTable resolves expression e (read in fi) to a constant table entry -> iterator field of the per-worker decoder.
func (cm *c01Model) iterTable(fi *FuncInfo, e ast.Expr, depth int) map[int64]*types.Var {
	info := cm.m.info
	if depth > 3 || e == nil {
		return nil
	}
	if fi != nil {
		e = c01Expand(info, fi.Decl.Body, e)
	}
	e = ast.Unparen(e)
	switch x := e.(type) {
	case *ast.CompositeLit:
		out := map[int64]*types.Var{}
		next := int64(0)
		for _, el := range x.Elts {
			v := el
			if kv, ok := el.(*ast.KeyValueExpr); ok {
				k, okc := constInt(info, kv.Key)
				if !okc {
					return nil
				}
				next, v = k, kv.Value
			}
			if ue, ok := ast.Unparen(v).(*ast.UnaryExpr); ok && ue.Op == token.AND {
				if f := fieldOf(info, ue.X); f != nil && namedPath(f.Type()) == protoscanIter {
					out[next] = f
				}
			}
			next++
		}
		return out
	case *ast.CallExpr:
		if tf := c01Callee(cm.m.pk, x); tf != nil {
			if body := singleReturnExpr(tf); body != nil {
				return cm.iterTable(tf, body, depth+1)
			}
		}
	case *ast.Ident:
		// a package-level table declared with a literal
		if v, ok := info.Uses[x].(*types.Var); ok && v.Parent() == cm.m.pk.Types.Scope() {
			for _, file := range cm.m.pk.Syntax {
				for _, d := range file.Decls {
					gd, ok := d.(*ast.GenDecl)
					if !ok {
						continue
					}
					for _, sp := range gd.Specs {
						if vs, ok := sp.(*ast.ValueSpec); ok {
							for i, nm := range vs.Names {
								if info.Defs[nm] == types.Object(v) && i < len(vs.Values) {
									return cm.iterTable(nil, vs.Values[i], depth+1)
								}
							}
						}
					}
				}
			}
		}
	}
	return nil
}
