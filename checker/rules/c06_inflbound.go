package rules

import (
	"go/ast"
	"go/token"
	"go/types"

	"osmcheck/core"
)

// C06.E16 — the inflated data is bounded before it is compared with the declared size.
//
// Comparing the length of the inflated data with raw_size only helps after the data has been inflated: a tiny blob can
// inflate to gigabytes, and "wrong uncompressed size" then ends in memory exhaustion instead of an error. Every call
// that drains the decompressor below the blob-data function must therefore be limited: the reader it drains is (a
// wrapper around) io.LimitReader / *io.LimitedReader, or the call itself copies a fixed amount (io.CopyN, io.ReadFull /
// io.ReadAtLeast into a buffer, whose size E11 bounds). The reader is followed through locals, parameters, results of
// package functions and the standard wrappers. The construct is keyed on the blob-data function, whichever helper
// holds the call.
func c06E16(r *core.R) {
	m := c01PBFModel(r)
	if m == nil {
		return
	}
	info := m.info
	fs := r.P.Fset
	bd := c01BlobDataFunc(r.P, m)
	if bd == nil {
		r.Anchor("function that turns a blob into its data (touches both raw and zlib_data)")
		return
	}
	var limited func(f *c01Fn, e ast.Expr, idx, depth int) bool
	limited = func(f *c01Fn, e ast.Expr, idx, depth int) bool {
		if e == nil || depth > 8 {
			return false
		}
		e = ast.Unparen(e)
		switch x := e.(type) {
		case *ast.Ident:
			o := objOf(info, x)
			if o == nil {
				return false
			}
			if pi := c01ParamIndex(info, f.fi, o); pi >= 0 && f.body == f.fi.Decl.Body {
				n, all := 0, true
				for _, caller := range allFuncs(m.pk) {
					cf := c01FnOf(r.P, caller)
					ast.Inspect(caller.Decl.Body, func(y ast.Node) bool {
						if call, ok := y.(*ast.CallExpr); ok && callee(info, call) == f.fi.Obj && pi < len(call.Args) {
							n++
							if !limited(cf.innermost(call), call.Args[pi], 0, depth+1) {
								all = false
							}
						}
						return true
					})
				}
				return n > 0 && all
			}
			ds := c01Defs(info, f.body, o)
			if len(ds) == 0 {
				return false
			}
			for _, d := range ds {
				di := 0
				if d.index >= 0 {
					di = d.index
				}
				if d.rhs == nil || !limited(f, d.rhs, di, depth+1) {
					return false
				}
			}
			return true
		case *ast.UnaryExpr:
			if cl, ok := ast.Unparen(x.X).(*ast.CompositeLit); ok && x.Op == token.AND && namedPath(info.TypeOf(cl)) == "io.LimitedReader" {
				return true
			}
			return false
		case *ast.TypeAssertExpr:
			return limited(f, x.X, 0, depth+1)
		case *ast.CallExpr:
			if c01IsConversion(info, x) && len(x.Args) == 1 {
				return limited(f, x.Args[0], 0, depth+1)
			}
			fn := callee(info, x)
			if fn == nil {
				return false
			}
			if isPkgFunc(fn, "io", "LimitReader") {
				return true
			}
			if tf := c01Callee(m.pk, x); tf != nil {
				g := c01FnOf(r.P, tf)
				n, all := 0, true
				ast.Inspect(tf.Decl.Body, func(y ast.Node) bool {
					if _, isLit := y.(*ast.FuncLit); isLit {
						return false
					}
					ret, ok := y.(*ast.ReturnStmt)
					if !ok || idx >= len(ret.Results) {
						return true
					}
					if len(ret.Results) > 1 && c01IsErrNonNilExpr(info, ret.Results[len(ret.Results)-1], g.factsAtPos(ret.Pos())) {
						return true
					}
					n++
					if !limited(g, ret.Results[idx], 0, depth+1) {
						all = false
					}
					return true
				})
				return n > 0 && all
			}
			name := fn.Name()
			if fn.Pkg() != nil {
				name = fn.Pkg().Path() + "." + name
			}
			if c06ReaderWrappers[name] {
				for _, a := range x.Args {
					if t := info.TypeOf(a); t != nil {
						if _, isIface := t.Underlying().(*types.Interface); isIface && limited(f, a, 0, depth+1) {
							return true
						}
					}
				}
			}
		}
		return false
	}
	c := "inflate-bound@" + bd.Name()
	ndrain := 0
	var bad []string
	var bpos token.Pos
	for _, fi := range c01Reachable(r.P, bd) {
		if isGenerated(r.P, fi.Decl.Pos()) {
			continue
		}
		f0 := c01FnOf(r.P, fi)
		ast.Inspect(fi.Decl.Body, func(n ast.Node) bool {
			call, ok := n.(*ast.CallExpr)
			if !ok {
				return true
			}
			var rd ast.Expr
			switch c06DrainKind(info, call) {
			case "ReadFrom", "ReadAll":
				rd = call.Args[0]
			case "Copy":
				rd = call.Args[1]
			case "CopyN", "ReadFull", "ReadAtLeast":
				ndrain++
				return true // copies a fixed amount
			default:
				return true
			}
			ndrain++
			if !limited(f0.innermost(call), rd, 0, 0) {
				bad = append(bad, "`"+src(fs, call)+"` in "+fi.Name())
				if !bpos.IsValid() {
					bpos = call.Pos()
				}
			}
			return true
		})
	}
	switch {
	case ndrain == 0:
		r.Anchor("call that drains the decompressor below " + bd.Name())
	case len(bad) > 0:
		r.Bad(c, bpos, "%v drains the decompressor without a limit: the whole inflated stream is read into memory before its length is compared with the declared raw_size, so a small blob that inflates to gigabytes (a zlib bomb, or simply a wrong raw_size) exhausts memory and kills the process instead of ending the scan in the size error. The reader has to be limited by the declared size (io.LimitReader(r, raw_size+1), io.CopyN, io.ReadFull into a raw_size buffer plus a probe)", bad)
	default:
		r.OK(c, bd.Decl.Pos(), "every call that drains the decompressor below %s reads through a limiter or copies a fixed amount (%d call(s))", bd.Name(), ndrain)
	}
	_ = core.ModulePath
}
