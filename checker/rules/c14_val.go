package rules

// Canonical values for the C14 rules: an expression evaluated at a program point of an explored graph is
// rewritten into a term over the *stable* leaves of the computation (parameters of the root, loop variables,
// constants, fields, calls), looking through
//   - local variables with a unique reaching definition (`mid := osm.RelationID(m.Ref)`, `if x := f(); …`),
//   - parameters of followed callees (bound to the caller's argument),
//   - followed callees with a single `return E`,
//   - conversions are kept, parentheses and explicit dereferences dropped, `(&x).f` is `x.f`.
// Two expressions with the same term denote the same value provided none of the leaf variables is written
// between the two evaluation points (checked by sameValue). Renaming locals, introducing or removing
// temporaries, named constants and helper functions do not change the term.

import (
	"fmt"
	"go/ast"
	"go/constant"
	"go/token"
	"go/types"
	"strings"

	"golang.org/x/tools/go/cfg"
)

type c14Val struct {
	k    byte // 'v' variable, 'c' constant, 'n' nil, 'f' field, 'i' index, 's' slice, 'C' call, 'T' conversion, 'b' binary, 'u' unary, '&' address, 't' tuple element, 'r' receive, 'L' composite literal, 'o' opaque
	key  string
	obj  types.Object // variable, field or callee
	ctx  *c14Ctx      // owner of a variable
	x, y *c14Val
	args []*c14Val
	op   token.Token
	cv   constant.Value
	idx  int
	typ  types.Type
	name string // builtin name
	node ast.Node
	at   *c14Node // evaluation point of calls, index expressions and receives
}

func (v *c14Val) String() string {
	if v == nil {
		return "<nil>"
	}
	return v.key
}

func c14Keys(vs []*c14Val) string {
	var parts []string
	for _, v := range vs {
		parts = append(parts, v.key)
	}
	return strings.Join(parts, ",")
}

func c14AtID(n *c14Node) int {
	if n == nil {
		return -1
	}
	return n.id
}

func (g *c14Graph) opaque(e ast.Node) *c14Val {
	return &c14Val{k: 'o', key: fmt.Sprintf("o#%d", g.e.nid(e)), node: e}
}

func (g *c14Graph) varVal(owner *c14Ctx, o types.Object) *c14Val {
	return &c14Val{k: 'v', key: c14VarKey(owner, g.e, o), obj: o, ctx: owner}
}

func c14StripAddr(v *c14Val) *c14Val {
	for v != nil && v.k == '&' {
		v = v.x
	}
	return v
}

// canon returns the term of e evaluated at node at (a node of g in activation ctx).
func (g *c14Graph) canon(ctx *c14Ctx, e ast.Expr, at *c14Node) *c14Val {
	mk := fmt.Sprintf("%d|%p|%d", ctx.id, e, c14AtID(at))
	if v := g.valMemo[mk]; v != nil && g.fromStates == nil {
		return v
	}
	g.valDepth++
	var v *c14Val
	if g.valDepth > 60 {
		v = g.opaque(e)
	} else {
		v = g.canon1(ctx, e, at)
	}
	g.valDepth--
	if v.node == nil {
		v.node = e
	}
	if g.fromStates == nil {
		g.valMemo[mk] = v
	}
	return v
}

func (g *c14Graph) canon1(ctx *c14Ctx, e ast.Expr, at *c14Node) *c14Val {
	info := ctx.fn.info
	e = ast.Unparen(e)
	if tv, ok := info.Types[e]; ok {
		if tv.Value != nil {
			return &c14Val{k: 'c', key: "c(" + tv.Value.ExactString() + ")", cv: tv.Value, typ: tv.Type}
		}
		if tv.IsNil() {
			return &c14Val{k: 'n', key: "nil"}
		}
	}
	switch x := e.(type) {
	case *ast.Ident:
		o := objOf(info, x)
		if v, ok := o.(*types.Var); ok && !v.IsField() {
			owner := c14OwnerCtx(ctx, o)
			if owner == nil {
				return g.varVal(nil, o)
			}
			return g.resolveVar(ctx, owner, o, at)
		}
		if o != nil {
			return &c14Val{k: 'o', key: fmt.Sprintf("O%d", g.e.oid(o)), obj: o}
		}
	case *ast.SelectorExpr:
		if f := fieldOf(info, x); f != nil {
			raw := g.canon(ctx, x.X, at)
			b := c14StripAddr(raw)
			// a field of a struct value known to be a particular composite literal: held by value, or reached through
			// `&T{…}` when nothing in the package ever assigns that field (a struct that only carries captured variables)
			lit := raw
			if raw.k == '&' && raw.x != nil && raw.x.k == 'L' && !g.e.fieldAssigned(f) {
				lit = raw.x
			}
			if lit.k == 'L' && !g.e.keepStruct[namedPath(lit.typ)] {
				if v := g.fieldOfLiteral(lit, f); v != nil {
					return v
				}
			}
			return &c14Val{k: 'f', key: fmt.Sprintf("f%d(%s)", g.e.oid(f), b.key), obj: f, x: b, at: at}
		}
		if o := info.Uses[x.Sel]; o != nil {
			if v, ok := o.(*types.Var); ok && !v.IsField() {
				return g.varVal(nil, o) // package-level variable of another package
			}
			if _, isPkg := info.Uses[identOf(x.X)].(*types.PkgName); isPkg {
				return &c14Val{k: 'o', key: fmt.Sprintf("O%d", g.e.oid(o)), obj: o}
			}
			// method value
			b := g.canon(ctx, x.X, at)
			return &c14Val{k: 'o', key: fmt.Sprintf("M%d(%s)", g.e.oid(o), b.key), obj: o, x: b}
		}
	case *ast.StarExpr:
		return g.canon(ctx, x.X, at)
	case *ast.IndexExpr:
		a, b := c14StripAddr(g.canon(ctx, x.X, at)), g.canon(ctx, x.Index, at)
		return &c14Val{k: 'i', key: "i(" + a.key + "," + b.key + ")", x: a, y: b, at: at}
	case *ast.SliceExpr:
		v := &c14Val{k: 's', x: g.canon(ctx, x.X, at), at: at}
		key := "s(" + v.x.key
		for _, p := range []ast.Expr{x.Low, x.High, x.Max} {
			if p == nil {
				v.args = append(v.args, nil)
				key += ",_"
			} else {
				a := g.canon(ctx, p, at)
				v.args = append(v.args, a)
				key += "," + a.key
			}
		}
		v.key = key + ")"
		return v
	case *ast.UnaryExpr:
		a := g.canon(ctx, x.X, at)
		switch x.Op {
		case token.AND:
			return &c14Val{k: '&', key: "&" + a.key, x: a}
		case token.ARROW:
			return &c14Val{k: 'r', key: fmt.Sprintf("recv@%d(%s)", c14AtID(at), a.key), x: a, at: at}
		}
		return &c14Val{k: 'u', key: x.Op.String() + "(" + a.key + ")", op: x.Op, x: a}
	case *ast.BinaryExpr:
		l, op, r, ok := cmpNorm(x)
		if !ok {
			l, op, r = x.X, x.Op, x.Y
		}
		a, b := g.canon(ctx, l, at), g.canon(ctx, r, at)
		return &c14Val{k: 'b', key: "(" + a.key + op.String() + b.key + ")", op: op, x: a, y: b}
	case *ast.CompositeLit:
		return &c14Val{k: 'L', key: fmt.Sprintf("L#%d", g.e.nid(x)), node: x, typ: info.TypeOf(x), ctx: ctx, at: at}
	case *ast.CallExpr:
		if tv, ok := info.Types[x.Fun]; ok && tv.IsType() && len(x.Args) == 1 {
			a := g.canon(ctx, x.Args[0], at)
			return &c14Val{k: 'T', key: "T(" + types.TypeString(tv.Type, nil) + "," + a.key + ")", typ: tv.Type, x: a}
		}
		var args []*c14Val
		for _, a := range x.Args {
			args = append(args, g.canon(ctx, a, at))
		}
		if b := builtinName(info, x); b != "" {
			return &c14Val{k: 'C', key: fmt.Sprintf("C(%s@%d;%s)", b, c14AtID(at), c14Keys(args)), name: b, args: args, at: at, node: x}
		}
		// a followed callee stands for the value it returns when only one of its return statements can have produced
		// the value seen at this point (c14_result.go)
		if cc := g.ctxs[c14CtxKey{ctx, x}]; cc != nil && cc.fn.nres == 1 {
			if v := g.followedResult(ctx, x, 0, at); v != nil {
				return v
			}
		}
		v := &c14Val{k: 'C', args: args, at: at, node: x}
		recv := ""
		if fn := callee(info, x); fn != nil {
			v.obj = fn
			if sel, ok := ast.Unparen(x.Fun).(*ast.SelectorExpr); ok && fn.Type().(*types.Signature).Recv() != nil {
				v.x = c14StripAddr(g.canon(ctx, sel.X, at))
				recv = v.x.key
			}
			v.key = fmt.Sprintf("C(F%d@%d;%s;%s)", g.e.oid(fn), c14AtID(at), recv, c14Keys(args))
			return v
		}
		v.x = g.canon(ctx, x.Fun, at)
		v.key = fmt.Sprintf("C(dyn@%d;%s;%s)", c14AtID(at), v.x.key, c14Keys(args))
		return v
	}
	return g.opaque(e)
}

// resolveVar looks through a local variable with a unique reaching definition.
func (g *c14Graph) resolveVar(ctx, owner *c14Ctx, o types.Object, at *c14Node) *c14Val {
	plain := g.varVal(owner, o)
	if owner.fn.untrack[o] {
		return plain
	}
	// a variable of an enclosing function seen from the root of another graph (closure, go statement):
	// its value is the one at the point where this graph was entered
	og := owner.g
	if owner != ctx {
		c := ctx
		for c != nil && c.parent != owner {
			c = c.parent
		}
		if c == nil {
			return plain
		}
		if c.g != og {
			if c.callNode == nil {
				return plain
			}
			at = c.callNode
		}
	}
	if at == nil || at.ctx.g != og {
		return plain
	}
	defs, entry := og.reachingDefs(owner, o, at)
	if len(defs) != 1 || entry {
		if len(defs) == 0 && entry && owner == og.root && og.root.parent != nil {
			// parameter of the root of a graph entered through a call/go statement of another graph
			if a := c14Bindings(owner.fn, og.root.call)[o]; a != nil && og.root.callNode != nil {
				pg := og.root.parent.g
				return pg.canon(og.root.parent, a, og.root.callNode)
			}
		}
		return plain
	}
	d := defs[0]
	v := og.defValue(d, owner, o, at)
	if v == nil {
		return plain
	}
	if !og.stable(v, d, at) {
		return plain
	}
	return v
}

// writes reports whether executing node n assigns variable o of activation owner.
func (g *c14Graph) writes(n *c14Node, owner *c14Ctx, o types.Object) bool {
	if !n.exec() {
		// entering a followed call binds the callee's parameters
		if cc := g.ctxs[c14CtxKey{n.ctx, n.inl[n.step]}]; cc == owner {
			if o == owner.fn.recv {
				return true
			}
			for _, p := range owner.fn.params {
				if p == o {
					return true
				}
			}
			for _, ro := range owner.fn.results { // named results are zeroed on entry
				if ro != nil && ro == o {
					return true
				}
			}
		}
		return false
	}
	// the node may belong to a followed function literal that captures the variable from owner
	if n.ctx != owner && (n.ctx.fn.lit == nil || c14OwnerCtx(n.ctx, o) != owner) {
		return false
	}
	info := n.ctx.fn.info
	is := func(e ast.Expr) bool { return e != nil && objOf(info, e) == o }
	if n.tail() {
		if n.blk.Kind == cfg.KindRangeLoop {
			if rs, ok := n.blk.Stmt.(*ast.RangeStmt); ok {
				return is(rs.Key) || is(rs.Value)
			}
		}
		return false
	}
	// `x.f = …` / `x.f.g++` on a struct held by value changes x
	isField := func(e ast.Expr) bool {
		for {
			sel, ok := ast.Unparen(e).(*ast.SelectorExpr)
			if !ok {
				return false
			}
			if t := info.TypeOf(sel.X); t != nil {
				if _, isStruct := t.Underlying().(*types.Struct); isStruct && is(sel.X) {
					return true
				}
			}
			e = sel.X
		}
	}
	switch x := c14EffectAst(n).(type) {
	case *ast.AssignStmt:
		for _, l := range x.Lhs {
			if is(l) || isField(l) {
				return true
			}
		}
	case *ast.IncDecStmt:
		return is(x.X) || isField(x.X)
	case *ast.ValueSpec:
		for _, nm := range x.Names {
			if info.Defs[nm] == o {
				return true
			}
		}
	}
	return false
}

// reachingDefs returns the nodes whose assignment of (owner, o) can reach node at, and whether the entry of the
// graph reaches it without any assignment.
func (g *c14Graph) reachingDefs(owner *c14Ctx, o types.Object, at *c14Node) (defs []*c14Node, entry bool) {
	seen := map[*c14State]bool{}
	got := map[*c14Node]bool{}
	var work []*c14State
	starts := g.byNode[at]
	if fs, ok := g.fromStates[at]; ok {
		starts = fs // only the states of `at` that lie on the paths of interest (c14_result.go)
	}
	for _, s := range starts {
		if len(s.in) == 0 {
			entry = true
		}
		work = append(work, s.in...)
	}
	for len(work) > 0 {
		s := work[len(work)-1]
		work = work[:len(work)-1]
		if seen[s] {
			continue
		}
		seen[s] = true
		if g.writes(s.n, owner, o) {
			if !got[s.n] {
				got[s.n] = true
				defs = append(defs, s.n)
			}
			continue
		}
		if len(s.in) == 0 {
			entry = true
		}
		work = append(work, s.in...)
	}
	return defs, entry
}

// defValue returns the term assigned to (owner, o) by definition node d, or nil when the definition is not a plain
// assignment of a value (loop variables, ++, op-assignments).
func (g *c14Graph) defValue(d *c14Node, owner *c14Ctx, o types.Object, use *c14Node) *c14Val {
	if !d.exec() {
		call := d.inl[d.step]
		if a := c14Bindings(owner.fn, call)[o]; a != nil {
			return g.canon(d.ctx, a, d)
		}
		for _, ro := range owner.fn.results {
			if ro != nil && ro == o {
				switch c14ZeroVal(o.Type()) {
				case c14Nil:
					return &c14Val{k: 'n', key: "nil"}
				case c14False:
					return &c14Val{k: 'c', key: "c(false)", cv: constant.MakeBool(false)}
				}
			}
		}
		return nil
	}
	dctx := d.ctx // the definition may sit in a followed function literal that captures the variable
	info := dctx.fn.info
	tuple := func(rhs ast.Expr, i int) *c14Val {
		if call, ok := ast.Unparen(rhs).(*ast.CallExpr); ok {
			if v := g.followedResult(dctx, call, i, use); v != nil {
				return v
			}
		}
		t := g.canon(dctx, rhs, d)
		return &c14Val{k: 't', key: fmt.Sprintf("t%d(%s)", i, t.key), idx: i, x: t, at: d}
	}
	switch x := c14EffectAst(d).(type) {
	case *ast.AssignStmt:
		if x.Tok != token.ASSIGN && x.Tok != token.DEFINE {
			return nil
		}
		for i, l := range x.Lhs {
			if objOf(info, l) != o {
				continue
			}
			if len(x.Lhs) == len(x.Rhs) {
				if call, ok := ast.Unparen(x.Rhs[i]).(*ast.CallExpr); ok {
					if v := g.followedResult(dctx, call, 0, use); v != nil {
						return v
					}
				}
				return g.canon(dctx, x.Rhs[i], d)
			}
			if len(x.Rhs) == 1 {
				return tuple(x.Rhs[0], i)
			}
		}
	case *ast.ValueSpec:
		for i, nm := range x.Names {
			if info.Defs[nm] != o {
				continue
			}
			switch {
			case len(x.Values) == len(x.Names):
				return g.canon(dctx, x.Values[i], d)
			case len(x.Values) == 1:
				return tuple(x.Values[0], i)
			case len(x.Values) == 0:
				switch c14ZeroVal(o.Type()) {
				case c14Nil:
					return &c14Val{k: 'n', key: "nil"}
				case c14False:
					return &c14Val{k: 'c', key: "c(false)", cv: constant.MakeBool(false)}
				}
			}
		}
	}
	return nil
}

// leaves collects the variables of a term.
func (v *c14Val) leaves(out *[]*c14Val) {
	if v == nil {
		return
	}
	if v.k == 'v' {
		*out = append(*out, v)
	}
	v.x.leaves(out)
	v.y.leaves(out)
	for _, a := range v.args {
		a.leaves(out)
	}
}

// mentions reports whether term v contains a sub-term with the given key.
func (v *c14Val) mentions(key string) bool {
	if v == nil {
		return false
	}
	if v.key == key {
		return true
	}
	if v.x.mentions(key) || v.y.mentions(key) {
		return true
	}
	for _, a := range v.args {
		if a.mentions(key) {
			return true
		}
	}
	return false
}

// between returns the nodes on the paths from a to b that do not pass a or b in the middle.
func (g *c14Graph) between(a, b *c14Node) map[*c14Node]bool {
	stop := func(s *c14State) bool { return s.n == a || s.n == b }
	fwd := g.reach(c14Succs(g.byNode[a], nil), stop, nil)
	// backward
	back := map[*c14State]bool{}
	var work []*c14State
	for _, s := range g.byNode[b] {
		work = append(work, s.in...)
	}
	for len(work) > 0 {
		s := work[len(work)-1]
		work = work[:len(work)-1]
		if back[s] {
			continue
		}
		back[s] = true
		if stop(s) {
			continue
		}
		work = append(work, s.in...)
	}
	out := map[*c14Node]bool{}
	for s := range fwd {
		if back[s] && s.n != a && s.n != b {
			out[s.n] = true
		}
	}
	return out
}

// stable reports whether no leaf variable of v is written between nodes a and b.
func (g *c14Graph) stable(v *c14Val, a, b *c14Node) bool {
	if a == nil || b == nil || a == b {
		return true
	}
	var ls []*c14Val
	v.leaves(&ls)
	if len(ls) == 0 {
		return true
	}
	var mid map[*c14Node]bool
	for _, l := range ls {
		if l.ctx == nil || l.ctx.g != g {
			continue
		}
		if mid == nil {
			mid = g.between(a, b)
		}
		for n := range mid {
			if g.writes(n, l.ctx, l.obj) {
				return false
			}
		}
	}
	return true
}

// sameValue: equal terms whose leaves are not written between the two evaluation points (in either order).
func (g *c14Graph) sameValue(v1 *c14Val, n1 *c14Node, v2 *c14Val, n2 *c14Node) bool {
	if v1 == nil || v2 == nil || v1.key != v2.key {
		return false
	}
	return g.stable(v1, n1, n2)
}

// rangeVar describes a loop variable.
type c14RangeVar struct {
	loop  *c14Loop
	isKey bool
}

// rangeVarOf tells whether term v is a variable bound by a range statement, or the counter of a counting loop
// (and never assigned elsewhere).
func (g *c14Graph) rangeVarOf(v *c14Val) *c14RangeVar {
	if v == nil || v.k != 'v' || v.ctx == nil || v.ctx.g != g {
		return nil
	}
	var res *c14RangeVar
	var others []*c14Node
	for _, n := range g.nodeList {
		if len(g.byNode[n]) == 0 || !g.writes(n, v.ctx, v.obj) {
			continue
		}
		rs, ok := n.blk.Stmt.(*ast.RangeStmt)
		if !n.tail() || n.blk.Kind != cfg.KindRangeLoop || !ok {
			others = append(others, n)
			continue
		}
		if res != nil {
			return nil
		}
		info := v.ctx.fn.info
		res = &c14RangeVar{loop: &c14Loop{ctx: n.ctx, blk: n.blk, stmt: rs}, isKey: rs.Key != nil && objOf(info, rs.Key) == v.obj}
	}
	if len(others) == 0 {
		return res
	}
	if res != nil {
		return nil // also assigned by something else
	}
	for _, l := range g.loops() {
		if l.ctx != v.ctx {
			continue
		}
		if i, _ := g.countingLoop(l); i == v.obj {
			fs := l.stmt.(*ast.ForStmt)
			for _, n := range others {
				if n.ast != ast.Node(fs.Init) && n.ast != ast.Node(fs.Post) {
					return nil
				}
			}
			return &c14RangeVar{loop: l, isKey: true}
		}
	}
	return nil
}

// rangeX returns the term of the expression a range loop (or counting loop) iterates over, evaluated where the loop is entered.
func (g *c14Graph) rangeX(l *c14Loop) *c14Val {
	rs, ok := l.stmt.(*ast.RangeStmt)
	if !ok {
		if _, x := g.countingLoop(l); x != nil {
			for _, n := range g.execNodes() {
				if n.ctx == l.ctx && n.blk == l.blk && n.atom != nil {
					return g.canon(l.ctx, x, n)
				}
			}
		}
		return nil
	}
	for _, n := range g.byAst[rs.X] {
		if n.ctx == l.ctx {
			return g.canon(l.ctx, rs.X, n)
		}
	}
	return nil
}

// elemOf reports whether term v is the element of the current iteration of range loop l: the loop's value variable,
// or X[key] for the loop's key variable and the ranged expression X.
func (g *c14Graph) elemOf(v *c14Val, l *c14Loop) bool {
	v = c14StripAddr(v)
	if v == nil {
		return false
	}
	same := func(a *c14Loop) bool { return a.ctx == l.ctx && a.blk == l.blk }
	if rv := g.rangeVarOf(v); rv != nil {
		return !rv.isKey && same(rv.loop)
	}
	if v.k == 'i' {
		idx := v.y
		if _, _, off := g.countingLoopOff(l); off == -1 {
			// `for i := len(X); i > 0; i-- { … X[i-1] … }`
			if idx.k != 'b' || idx.op != token.SUB || idx.y.k != 'c' || idx.y.key != "c(1)" {
				return false
			}
			idx = idx.x
		}
		if rv := g.rangeVarOf(idx); rv != nil && rv.isKey && same(rv.loop) {
			if x := g.rangeX(l); x != nil && c14StripAddr(x).key == v.x.key {
				return true
			}
		}
	}
	return false
}
