package rules

import "strings"

// Layout compatibility of a hand-written time writer and its hand-written reader.
//
// Reference: package time, func Parse: "When parsing (only), the input may contain a fractional second field
// immediately after the seconds field, even if the layout does not signify its presence. In that case either a comma
// or a decimal point followed by a maximal series of digits is parsed as a fractional second." A fractional field of
// nines in the reader's layout accepts any number of digits (or none); one of zeros accepts exactly that many.
//
// So a writer may format with the reader's layout plus a fractional-seconds field right after the seconds ("05"), and
// it has to: a layout without the field drops the sub-second part of the time on marshalling (osm.Date wraps a
// time.Time with nanosecond resolution; the notes API itself writes whole seconds, which the reader keeps accepting).

// c04SplitFraction splits a layout into the layout without the fractional-seconds field that follows the seconds, and
// that field ("" when there is none).
func c04SplitFraction(layout string) (base, frac string) {
	for i := 0; i+2 < len(layout); i++ {
		if layout[i] != '0' || layout[i+1] != '5' || (layout[i+2] != '.' && layout[i+2] != ',') {
			continue
		}
		j := i + 3
		if j >= len(layout) || (layout[j] != '0' && layout[j] != '9') {
			continue
		}
		d := layout[j]
		for j < len(layout) && layout[j] == d {
			j++
		}
		if j < len(layout) && layout[j] >= '0' && layout[j] <= '9' {
			continue // a run of digits that goes on is no fractional-seconds field
		}
		return layout[:i+2] + layout[j:], layout[i+2 : j]
	}
	return layout, ""
}

// c04FractionKeepsNanos: the fractional field has nanosecond resolution.
func c04FractionKeepsNanos(frac string) bool { return len(frac) == 10 }

// c04LayoutReadBy: text formatted with layout `w` is parsed by time.Parse with layout `r`.
func c04LayoutReadBy(w, r string) bool {
	if w == r {
		return true
	}
	wb, wf := c04SplitFraction(w)
	rb, rf := c04SplitFraction(r)
	if wb != rb {
		return false
	}
	switch {
	case rf == "", strings.HasSuffix(rf, "9"):
		return true // implicit fraction after the seconds field / a field of nines: any number of digits, or none
	case wf == "":
		return false // the reader demands digits the writer does not write
	}
	return strings.HasSuffix(wf, "0") && len(wf) == len(rf)
}

// c04LayoutReadByAny: one of the reader's layouts parses what the writer's layout produces.
func c04LayoutReadByAny(w string, readers []string) bool {
	for _, r := range readers {
		if c04LayoutReadBy(w, r) {
			return true
		}
	}
	return false
}
