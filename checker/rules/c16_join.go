package rules

// c16_join.go — evaluation of mputil.Join on abstract segment lists and the check of its result.

import (
	"fmt"
	"go/types"
	"sort"
	"strings"
)

// c16Verdict of one scenario: "" = as demanded; bad = the code does something else; undecided = the evaluator
// could not follow the code (the rule then reports Unknown, never OK).
type c16Verdict struct {
	bad, undecided string
}

func (v c16Verdict) ok() bool { return v.bad == "" && v.undecided == "" }

// c16Single runs a scenario that must not depend on any opaque decision and returns its value.
func (e *c16Env) single(hooks map[string]c16Hook, run func(m *c16M) c16Val) (c16Val, c16Verdict) {
	outs, complete := c16Explore(e.r.P, hooks, run)
	if !complete || len(outs) != 1 {
		return nil, c16Verdict{undecided: fmt.Sprintf("the result depends on %d+ decisions the evaluator cannot take (%s)", len(outs), c16ChoicesText(outs[0].choices))}
	}
	return c16Settle(outs[0])
}

// c16Settle classifies the end of a path.
func c16Settle(o c16Outcome) (c16Val, c16Verdict) {
	switch {
	case strings.HasPrefix(o.err, "panic"):
		return nil, c16Verdict{bad: "the code panics: " + o.err}
	case o.err != "":
		return nil, c16Verdict{undecided: o.err + " " + strings.Join(o.notes, "; ")}
	}
	return o.val, c16Verdict{}
}

// runJoin evaluates Join(segs) and reads the groups back.
func (e *c16Env) runJoin(segs []c16Seg) ([][]c16Seg, c16Verdict) {
	sig := e.join.Obj.Type().(*types.Signature)
	if sig.Params().Len() != 1 || sig.Results().Len() != 1 {
		return nil, c16Verdict{undecided: "mputil.Join no longer maps one list of segments to one list of groups"}
	}
	pt := sig.Params().At(0).Type()
	val, v := e.single(nil, func(m *c16M) c16Val { return m.callFunc(e.join, nil, e.segments(pt, segs)) })
	if !v.ok() {
		return nil, v
	}
	groups, ok := c16ReadGroups(val)
	if !ok {
		return nil, c16Verdict{undecided: "the result of Join is not a concrete list of groups of segments: " + c16Show(val)}
	}
	return groups, c16Verdict{}
}

func c16ReadGroups(val c16Val) ([][]c16Seg, bool) {
	outer, ok := val.(c16Slice)
	if !ok {
		return nil, false
	}
	var groups [][]c16Seg
	for _, g := range outer.elems() {
		gs, ok := g.(c16Slice)
		if !ok {
			return nil, false
		}
		var group []c16Seg
		for _, sv := range gs.elems() {
			s, ok := c16ReadSeg(sv)
			if !ok {
				return nil, false
			}
			group = append(group, s)
		}
		groups = append(groups, group)
	}
	return groups, true
}

// joinVerdict evaluates Join on segs and checks the result.
func (e *c16Env) joinVerdict(segs []c16Seg) c16Verdict {
	groups, v := e.runJoin(segs)
	if !v.ok() {
		return v
	}
	if why := c16CheckJoin(segs, groups); why != "" {
		return c16Verdict{bad: why}
	}
	return c16Verdict{}
}

// c16Components: the expected grouping, by shared end points, of the segments with at least two points.
func c16Components(segs []c16Seg) [][]int {
	parent := map[int]int{}
	var find func(int) int
	find = func(x int) int {
		if parent[x] != x {
			parent[x] = find(parent[x])
		}
		return parent[x]
	}
	ends := map[string][]int{}
	for _, s := range segs {
		if len(s.toks) <= 1 {
			continue
		}
		parent[s.idx] = s.idx
		ends[s.toks[0]] = append(ends[s.toks[0]], s.idx)
		ends[s.toks[len(s.toks)-1]] = append(ends[s.toks[len(s.toks)-1]], s.idx)
	}
	for _, ids := range ends {
		for _, id := range ids[1:] {
			parent[find(id)] = find(ids[0])
		}
	}
	by := map[int][]int{}
	for id := range parent {
		by[find(id)] = append(by[find(id)], id)
	}
	var out [][]int
	for _, ids := range by {
		sort.Ints(ids)
		out = append(out, ids)
	}
	sort.Slice(out, func(i, j int) bool { return out[i][0] < out[j][0] })
	return out
}

// c16CheckJoin compares the groups Join returned with what the property demands for the input:
//   - every input segment with >= 2 points is in exactly one group, the others in none;
//   - Index and Orientation are kept, Reversed is toggled exactly when the line runs the other way;
//   - the lines of a group, concatenated, are the member ways glued end to end with every joining point once;
//   - the groups are the connected components of the input (a ring cut into pieces comes back as one closed group).
func c16CheckJoin(in []c16Seg, groups [][]c16Seg) string {
	byIdx := map[int]c16Seg{}
	for _, s := range in {
		byIdx[s.idx] = s
	}
	seen := map[int]int{}
	var got [][]int
	for gi, g := range groups {
		if len(g) == 0 {
			return fmt.Sprintf("group %d is empty", gi)
		}
		var ids []int
		var glued, concat []string
		for k, s := range g {
			orig, ok := byIdx[s.idx]
			if !ok {
				return fmt.Sprintf("group %d holds a segment with Index %d that was not in the input", gi, s.idx)
			}
			seen[s.idx]++
			ids = append(ids, s.idx)
			if s.orient != orig.orient {
				return fmt.Sprintf("segment %d: Orientation changed from %d to %d", s.idx, orig.orient, s.orient)
			}
			o := orig.toks
			if s.reversed != orig.reversed {
				o = c16Rev(o)
			}
			if !c16Trimmed(s.toks, o) {
				return fmt.Sprintf("segment %d: line %v with Reversed=%v is not the way %v (input Reversed=%v) in the direction the flag announces, less its joining points", s.idx, s.toks, s.reversed, orig.toks, orig.reversed)
			}
			if k == 0 {
				glued = append(glued, o...)
			} else {
				if glued[len(glued)-1] != o[0] {
					return fmt.Sprintf("group %d: segment %d (%v) was attached after a piece ending in %s: the ends do not meet", gi, s.idx, o, glued[len(glued)-1])
				}
				glued = append(glued, o[1:]...)
			}
			concat = append(concat, s.toks...)
		}
		if !c16SameToks(glued, concat) {
			return fmt.Sprintf("group %d: the lines concatenate to %v, the member ways glued end to end are %v (a coordinate was lost, duplicated or invented)", gi, concat, glued)
		}
		sort.Ints(ids)
		got = append(got, ids)
	}
	for _, s := range in {
		switch {
		case len(s.toks) <= 1 && seen[s.idx] != 0:
			return fmt.Sprintf("segment %d has %d point(s) and cannot be part of a ring, but it was kept", s.idx, len(s.toks))
		case len(s.toks) > 1 && seen[s.idx] != 1:
			return fmt.Sprintf("segment %d (%v) appears %d times in the result instead of once", s.idx, s.toks, seen[s.idx])
		}
	}
	sort.Slice(got, func(i, j int) bool { return got[i][0] < got[j][0] })
	if want := c16Components(in); fmt.Sprint(want) != fmt.Sprint(got) {
		return fmt.Sprintf("segments grouped as %v, connected pieces are %v", got, want)
	}
	return ""
}

// c16Trimmed: l is o, possibly without its first and/or last point, and not empty.
func c16Trimmed(l, o []string) bool {
	for lo := 0; lo <= 1; lo++ {
		for hi := 0; hi <= 1; hi++ {
			if lo+hi < len(o) && c16SameToks(l, o[lo:len(o)-hi]) {
				return true
			}
		}
	}
	return false
}

func c16SegsText(ss []c16Seg) string {
	parts := []string{}
	for _, s := range ss {
		x := fmt.Sprintf("#%d%v", s.idx, s.toks)
		if s.reversed {
			x += "R"
		}
		parts = append(parts, x)
	}
	return strings.Join(parts, " ")
}
