package rules

import (
	"go/ast"
	"go/token"
	"go/types"
	"strings"

	"golang.org/x/tools/go/cfg"

	"osmcheck/core"
)

// ---------------------------------------------------------------- E4
//
// The function that turns a blob into bytes is evaluated on abstract blobs ("carries data in no supported encoding",
// "carries zlib data"): its CFG is walked taking each branch according to the atoms `blob.X != nil` /
// `len(blob.GetX()) > 0`; a `return g(...)` that forwards the results of another function of the package is followed
// into g. What is decided at the returns reached does not depend on switch vs if, branch order or helper extraction.

// c06Ret is a return statement reached by the abstract walk, with the function it is in.
type c06Ret struct {
	f   *c01Fn
	ret *ast.ReturnStmt
	// outer maps an expression read in f to the expression (and function) it stands for when it is a parameter of a
	// function the walk entered through a forwarded call (`return g(blob.GetX(), ...)`): the argument of that call
	outer func(e ast.Expr) (*c01Fn, ast.Expr)
}

// c06OuterOf builds the resolver for callee g entered from f (itself resolved by up) through call.
func c06OuterOf(g *c01Fn, call *ast.CallExpr, f *c01Fn, up func(ast.Expr) (*c01Fn, ast.Expr)) func(ast.Expr) (*c01Fn, ast.Expr) {
	return func(e ast.Expr) (*c01Fn, ast.Expr) {
		info := g.info
		x := c01StripConv(info, c01Expand(info, g.body, c01StripConv(info, e)))
		if id, ok := x.(*ast.Ident); ok {
			if idx := c01ParamIndex(info, g.fi, objOf(info, id)); idx >= 0 && idx < len(call.Args) && len(c01Defs(info, g.body, objOf(info, id))) == 0 {
				if up != nil {
					return up(call.Args[idx])
				}
				return f, c01StripConv(info, c01Expand(info, f.body, c01StripConv(info, call.Args[idx])))
			}
		}
		return g, e
	}
}

// c06BlobField names the data field of the generated Blob that expression e (read in f) denotes:
// `blob.X`, `blob.GetX()`, `len(...)` of either, or a local read once from one of them.
func c06BlobField(f *c01Fn, e ast.Expr) string {
	info := f.info
	e = c01StripConv(info, c01Expand(info, f.body, e))
	if call, ok := e.(*ast.CallExpr); ok && builtinName(info, call) == "len" && len(call.Args) == 1 {
		e = c01StripConv(info, c01Expand(info, f.body, call.Args[0]))
	}
	if sel, ok := e.(*ast.SelectorExpr); ok {
		if fl := fieldOf(info, sel); fl != nil && c01IsGenerated(selRecv(info, sel), "Blob") && c01IsByteSlice(fl.Type()) {
			return fl.Name()
		}
	}
	if call, ok := e.(*ast.CallExpr); ok {
		if fn := callee(info, call); fn != nil && strings.HasPrefix(fn.Name(), "Get") && c01IsGenerated(c01RecvTypeOf(fn), "Blob") && c01IsByteSlice(fn.Type().(*types.Signature).Results().At(0).Type()) {
			return strings.TrimPrefix(fn.Name(), "Get")
		}
	}
	return ""
}

// c06BlobAtom evaluates an atom for the abstract blob that carries data only in encoding `present` ("" = none).
func c06BlobAtom(f *c01Fn, present string) func(ast.Expr) c01Tri {
	info := f.info
	return func(a ast.Expr) c01Tri {
		if x, neq, ok := c01NilCmp(a); ok {
			if fld := c06BlobField(f, x); fld != "" {
				return c01Bool((fld == present) == neq)
			}
		}
		if l, op, rr, ok := cmpNorm(a); ok && (op == token.LSS || op == token.LEQ) {
			// 0 < len(x), 1 <= len(x), len(x) < 1, len(x) <= 0
			if cv, okc := constInt(info, l); okc {
				if fld := c06BlobField(f, rr); fld != "" && ((op == token.LSS && cv == 0) || (op == token.LEQ && cv == 1)) {
					return c01Bool(fld == present)
				}
			}
			if cv, okc := constInt(info, rr); okc {
				if fld := c06BlobField(f, l); fld != "" && ((op == token.LSS && cv == 1) || (op == token.LEQ && cv == 0)) {
					return c01Bool(fld != present)
				}
			}
		}
		return c01U
	}
}

// c06ReturnsUnder lists the returns reachable in f for the abstract blob; forwarded calls are followed.
func c06ReturnsUnder(p *core.Program, f *c01Fn, present string, depth int) []c06Ret {
	return c06ReturnsUnderCtx(p, f, present, depth, nil)
}

func c06ReturnsUnderCtx(p *core.Program, f *c01Fn, present string, depth int, outer func(ast.Expr) (*c01Fn, ast.Expr)) []c06Ret {
	var out []c06Ret
	if outer == nil {
		outer = func(e ast.Expr) (*c01Fn, ast.Expr) {
			return f, c01StripConv(f.info, c01Expand(f.info, f.body, c01StripConv(f.info, e)))
		}
	}
	atom := c06BlobAtom(f, present)
	seen := map[*cfg.Block]bool{f.g.Blocks[0]: true}
	work := []*cfg.Block{f.g.Blocks[0]}
	for len(work) > 0 {
		b := work[len(work)-1]
		work = work[:len(work)-1]
		for _, n := range b.Nodes {
			ret, ok := n.(*ast.ReturnStmt)
			if !ok {
				continue
			}
			if len(ret.Results) == 1 && depth < 3 {
				if call, isCall := ast.Unparen(ret.Results[0]).(*ast.CallExpr); isCall {
					if tf := c01Callee(f.pk, call); tf != nil {
						g := c01FnOf(p, tf)
						out = append(out, c06ReturnsUnderCtx(p, g, present, depth+1, c06OuterOf(g, call, f, outer))...)
						continue
					}
				}
			}
			out = append(out, c06Ret{f, ret, outer})
		}
		cond := f.condOf(b)
		for si, nb := range b.Succs {
			if cond != nil && len(b.Succs) == 2 {
				v := c01Eval(f.info, cond, atom)
				if (si == 0 && v == c01F) || (si == 1 && v == c01T) {
					continue
				}
			}
			if !seen[nb] {
				seen[nb] = true
				work = append(work, nb)
			}
		}
	}
	return out
}

func (rt c06Ret) isErr() bool {
	if len(rt.ret.Results) == 0 {
		return false
	}
	return c01IsErrNonNilExpr(rt.f.info, rt.ret.Results[len(rt.ret.Results)-1], rt.f.factsAtPos(rt.ret.Pos()))
}

// c06IsRawSize: e (read in f) is the blob's declared raw size.
func c06IsRawSize(f *c01Fn, e ast.Expr) bool {
	info := f.info
	e = c01StripConv(info, c01Expand(info, f.body, c01StripConv(info, e)))
	if call, ok := e.(*ast.CallExpr); ok {
		fn := callee(info, call)
		return fn != nil && fn.Name() == "GetRawSize" && c01IsGenerated(c01RecvTypeOf(fn), "Blob")
	}
	if st, ok := e.(*ast.StarExpr); ok {
		e = ast.Unparen(st.X)
	}
	if sel, ok := e.(*ast.SelectorExpr); ok {
		fl := fieldOf(info, sel)
		return fl != nil && fl.Name() == "RawSize" && c01IsGenerated(selRecv(info, sel), "Blob")
	}
	return false
}

// c06LenOf: the container (buffer or slice) whose length e denotes, or the drain call whose byte count it is.
func c06LenOf(f *c01Fn, e ast.Expr) (ast.Expr, *ast.CallExpr) {
	info := f.info
	e = c01StripConv(info, e)
	if id, ok := e.(*ast.Ident); ok {
		if o := objOf(info, id); o != nil {
			if ds := c01Defs(info, f.body, o); len(ds) == 1 && ds[0].rhs != nil {
				if call, ok := ast.Unparen(ds[0].rhs).(*ast.CallExpr); ok && ds[0].index <= 0 {
					if c06DrainKind(info, call) != "" {
						return nil, call // n, err := buf.ReadFrom(r)
					}
					return c06LenOfCall(info, call), nil
				}
			}
		}
		return nil, nil
	}
	if call, ok := e.(*ast.CallExpr); ok {
		return c06LenOfCall(info, call), nil
	}
	return nil, nil
}

func c06E4(r *core.R) {
	m := c01PBFModel(r)
	if m == nil {
		return
	}
	fs := r.P.Fset
	fi := c01BlobDataFunc(r.P, m)
	if fi == nil {
		r.Anchor("function dispatching on the blob encoding (Raw / ZlibData)")
		return
	}
	f0 := c01FnOf(r.P, fi)
	// (a) a blob in none of the supported encodings ends in an error
	c := "encoding-switch@" + fi.Name() + " default"
	none := c06ReturnsUnder(r.P, f0, "", 0)
	var badRet *c06Ret
	for i := range none {
		if !none[i].isErr() {
			badRet = &none[i]
		}
	}
	switch {
	case len(none) == 0:
		r.Unknown(c, fi.Decl.Pos(), "no return is reachable for a blob without data in a supported encoding")
	case badRet != nil:
		r.Bad(c, badRet.ret.Pos(), "for a blob that carries neither raw nor zlib data `%s` is reachable, which does not return an error: a blob in an unsupported encoding is decoded as an empty block (silent success)", src(fs, badRet.ret))
	default:
		r.OK(c, none[0].ret.Pos(), "a blob that carries neither raw nor zlib data only reaches returns of a non-nil error (%d)", len(none))
	}
	// (b) zlib path: the length of the decompressed data is compared with raw_size before it is returned
	nz := 0
	type cmp struct {
		f     *c01Fn
		cont  ast.Expr
		drain *ast.CallExpr
		outer func(ast.Expr) (*c01Fn, ast.Expr)
	}
	var cmps []cmp
	for _, rt := range c06ReturnsUnder(r.P, f0, "ZlibData", 0) {
		if rt.isErr() {
			continue
		}
		nz++
		f := rt.f
		cc := "raw_size@" + fi.Name()
		proved := false
		for _, fact := range f.factsAtPos(rt.ret.Pos()) {
			a, b, ok := c01EqFact(fact)
			if !ok {
				continue
			}
			for _, pr := range [][2]ast.Expr{{a, b}, {b, a}} {
				if f2, e2 := rt.outer(pr[1]); !c06IsRawSize(f2, e2) {
					continue
				}
				if cont, dr := c06LenOf(f, pr[0]); cont != nil || dr != nil {
					proved = true
					cmps = append(cmps, cmp{f, cont, dr, rt.outer})
				}
			}
		}
		if proved {
			r.OK(cc, rt.ret.Pos(), "the decompressed length is compared with raw_size before the data is returned; a mismatch does not reach this return")
		} else {
			r.Bad(cc, rt.ret.Pos(), "decompressed data is returned without comparing its length with the blob's raw_size: a truncated or corrupt compressed blob is decoded as if complete")
		}
	}
	if nz == 0 {
		r.Anchor("return of the decompressed data in " + fi.Name())
		return
	}
	// (c) the compared length is that of the whole decompressed stream
	cw := "raw_size whole-stream@" + fi.Name()
	for _, cp := range cmps {
		c06WholeStreamCheck(r, cw, cp.f, cp.cont, cp.drain, cp.outer)
	}
}

// c06WholeStreamCheck: the call that fills the container whose length is compared with raw_size drains the
// decompressor itself (or a wrapper that cannot cut the stream at or below raw_size).
func c06WholeStreamCheck(r *core.R, cw string, f *c01Fn, lenContainer ast.Expr, drainFromLen *ast.CallExpr, outer func(ast.Expr) (*c01Fn, ast.Expr)) {
	info := f.info
	fs := r.P.Fset
	var drains []*ast.CallExpr
	if drainFromLen != nil {
		drains = append(drains, drainFromLen)
	} else {
		ast.Inspect(f.body, func(n ast.Node) bool {
			call, ok := n.(*ast.CallExpr)
			if !ok {
				return true
			}
			kind := c06DrainKind(info, call)
			if kind == "" {
				return true
			}
			var dst ast.Expr
			switch kind {
			case "ReadFrom":
				dst = ast.Unparen(call.Fun).(*ast.SelectorExpr).X
			case "Copy", "CopyN":
				dst = call.Args[0]
			case "ReadFull", "ReadAtLeast":
				dst = call.Args[1]
			case "ReadAll":
				if as, ok := f.par[call].(*ast.AssignStmt); ok && len(as.Lhs) >= 1 {
					dst = as.Lhs[0]
				}
			}
			if dst != nil && c06SameContainer(info, f.body, dst, lenContainer) {
				drains = append(drains, call)
			}
			return true
		})
	}
	if len(drains) == 0 {
		r.Unknown(cw, f.fi.Decl.Pos(), "the call that fills `%s` from the decompressor was not found (ReadFrom / io.Copy / io.ReadAll)", src(fs, lenContainer))
		return
	}
	isRaw := func(e ast.Expr) bool {
		f2, e2 := outer(e)
		return c06IsRawSize(f2, e2)
	}
	for _, dr := range drains {
		kind := c06DrainKind(info, dr)
		var rd ast.Expr
		switch kind {
		case "ReadFrom", "ReadAll":
			rd = dr.Args[0]
		case "Copy":
			rd = dr.Args[1]
		case "ReadFull", "ReadAtLeast":
			r.Unknown(cw, dr.Pos(), "`%s` reads a fixed number of bytes from the decompressor; whether the rest of the stream is checked is not modelled", src(fs, dr))
			continue
		case "CopyN":
			// a copy of raw_size + c bytes (c >= 1) still lets the comparison see data that inflates beyond raw_size
			if c06AboveRaw(info, f, dr.Args[2], isRaw) {
				rd = dr.Args[1]
				break
			}
			r.Bad(cw, dr.Pos(), "`%s` copies a limited number of bytes that is not provably above raw_size: the length compared with raw_size is not that of the whole decompressed stream, so data that inflates beyond raw_size is cut silently", src(fs, dr))
			continue
		default:
			r.Bad(cw, dr.Pos(), "`%s` copies a limited number of bytes: the length compared with raw_size is not that of the whole decompressed stream, so data that inflates beyond raw_size is cut silently", src(fs, dr))
			continue
		}
		why, status := c06WholeStream(info, f, rd, isRaw, 0, outer)
		switch status {
		case "ok":
			r.OK(cw, dr.Pos(), "`%s` drains %s: the length compared with raw_size is that of the whole decompressed stream", src(fs, dr), why)
		case "bad":
			r.Bad(cw, dr.Pos(), "`%s`: %s; the comparison with raw_size can no longer see data that inflates beyond the declared size, which is cut silently and decoded as a complete block", src(fs, dr), why)
		default:
			r.Unknown(cw, dr.Pos(), "`%s`: %s", src(fs, dr), why)
		}
	}
}

// c06AboveRaw: n is RAW + c with a constant c >= 1 (through locals defined once and conversions).
func c06AboveRaw(info *types.Info, f *c01Fn, n ast.Expr, isRaw func(ast.Expr) bool) bool {
	n = c01StripConv(info, c01Expand(info, f.body, c01StripConv(info, n)))
	be, ok := n.(*ast.BinaryExpr)
	if !ok || be.Op != token.ADD {
		return false
	}
	for _, pr := range [][2]ast.Expr{{be.X, be.Y}, {be.Y, be.X}} {
		if cv, okc := constInt(info, pr[1]); okc && cv >= 1 && isRaw(pr[0]) {
			return true
		}
	}
	return false
}
