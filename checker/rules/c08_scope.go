package rules

import (
	"go/ast"
	"go/types"
	"sort"
	"strings"

	"golang.org/x/tools/go/cfg"

	"osmcheck/core"
)

// C08.O7 — a skip flag decides about the elements of its own kind and about nothing else.
//
// The value of every boolean knob of the Scanner (SkipNodes, SkipWays, SkipRelations) is followed through the worker
// role: expressions, locals, struct fields of the package, results of functions (also results chosen under a branch
// that depends on a flag), arguments, boolean accumulations. Every branch condition the value reaches must be one of
//
//	(a) a condition evaluated while the fields of a PrimitiveGroup message are scanned (inside the loop over that
//	    message in the function that holds it, or in a helper that is handed the message): there it selects between
//	    decoding and passing over the current field, i.e. elements of one kind (which flag belongs to which field is
//	    O3's obligation);
//	(b) a condition that can only hold when every skip flag is set (then dropping anything is the same as skipping
//	    element by element).
//
// Any other condition — one that lets a flag end the scan of a block, bypass the decoding of a group, or drop a
// block's result — makes the presence of a skipped kind in a block or group decide about elements of other kinds:
// "some group of the block is skipped" is not "every element of the block is skipped".
func c08O7(r *core.R) {
	cm := c01ModelOrAnchor(r)
	if cm == nil {
		return
	}
	m := cm.m
	info := m.info
	fs := r.P.Fset
	// the flags
	var flags []*types.Var
	if st, ok := m.scannerT.Underlying().(*types.Struct); ok {
		for i := 0; i < st.NumFields(); i++ {
			f := st.Field(i)
			if f.Exported() && strings.HasPrefix(f.Name(), "Skip") && types.Identical(f.Type().Underlying(), types.Typ[types.Bool]) {
				flags = append(flags, f)
			}
		}
	}
	if len(flags) == 0 {
		r.Anchor("boolean Skip* knobs of the Scanner")
		return
	}
	bit := map[*types.Var]uint{}
	for i, f := range flags {
		bit[f] = 1 << uint(i)
	}
	// private copies of the flags carry the flag's bit
	for cf, k := range c08KnobAliases(m) {
		if b, ok := bit[k]; ok {
			bit[cf] = b
		}
	}
	allBits := uint(1)<<uint(len(flags)) - 1
	bodies := c01RoleBodies(m, "worker")
	obj := map[types.Object]uint{}
	res := map[*types.Func]uint{}
	var taint func(e ast.Expr) uint
	taint = func(e ast.Expr) uint {
		var t uint
		ast.Inspect(e, func(n ast.Node) bool {
			switch x := n.(type) {
			case *ast.FuncLit:
				return false
			case *ast.SelectorExpr:
				if f := fieldOf(info, x); f != nil {
					t |= bit[f] | obj[f]
				}
			case *ast.Ident:
				if o := objOf(info, x); o != nil {
					t |= obj[o]
				}
			case *ast.CallExpr:
				if fn := callee(info, x); fn != nil {
					t |= res[fn]
				}
			}
			return true
		})
		return t
	}
	// the values a flag travels in: booleans, integers (counters, bit sets) and tables of those; never errors,
	// pointers or decoded data
	var isCarrier func(t types.Type, depth int) bool
	isCarrier = func(t types.Type, depth int) bool {
		if t == nil || depth > 3 {
			return false
		}
		switch u := t.Underlying().(type) {
		case *types.Basic:
			return u.Info()&(types.IsBoolean|types.IsInteger) != 0
		case *types.Array:
			return isCarrier(u.Elem(), depth+1)
		case *types.Slice:
			return isCarrier(u.Elem(), depth+1)
		case *types.Map:
			return isCarrier(u.Elem(), depth+1)
		}
		return false
	}
	isBool := func(t types.Type) bool { return isCarrier(t, 0) }
	// taint of the conditions that control node n (implicit flows into boolean targets)
	ctrl := func(par map[ast.Node]ast.Node, n ast.Node) uint {
		var t uint
		child := n
		for p := par[n]; p != nil; child, p = p, par[p] {
			switch s := p.(type) {
			case *ast.IfStmt:
				if child != s.Init && child != ast.Node(s.Cond) {
					t |= taint(s.Cond)
				}
			case *ast.SwitchStmt:
				if s.Tag != nil {
					t |= taint(s.Tag)
				}
			case *ast.CaseClause:
				for _, ce := range s.List {
					t |= taint(ce)
				}
			case *ast.ForStmt:
				if s.Cond != nil && child == ast.Node(s.Body) {
					t |= taint(s.Cond)
				}
			case *ast.FuncLit, *ast.FuncDecl:
				return t
			}
		}
		return t
	}
	set := func(o types.Object, t uint, changed *bool) {
		if o != nil && t != 0 && isCarrier(o.Type(), 0) && obj[o]|t != obj[o] {
			obj[o] |= t
			*changed = true
		}
	}
	lobj := func(e ast.Expr) types.Object {
		if sel, ok := ast.Unparen(e).(*ast.SelectorExpr); ok {
			if f := fieldOf(info, sel); f != nil {
				if f.Pkg() == m.pk.Types && bit[f] == 0 {
					return f
				}
				return nil
			}
		}
		if ix, ok := ast.Unparen(e).(*ast.IndexExpr); ok {
			return c01RootObj(info, ix.X)
		}
		return objOf(info, e)
	}
	for changed, round := true, 0; changed && round < 8; round++ {
		changed = false
		for _, body := range bodies {
			par := body.fn.par
			var fnObj *types.Func
			if fd, ok := body.u.node.(*ast.FuncDecl); ok {
				fnObj, _ = info.Defs[fd.Name].(*types.Func)
			}
			m.walkUnit(body.u, func(n ast.Node) bool {
				switch s := n.(type) {
				case *ast.AssignStmt:
					for i, l := range s.Lhs {
						var rh ast.Expr
						if len(s.Rhs) == len(s.Lhs) {
							rh = s.Rhs[i]
						} else if len(s.Rhs) == 1 {
							rh = s.Rhs[0]
						}
						if rh == nil {
							continue
						}
						t := taint(rh)
						if isBool(info.TypeOf(l)) {
							t |= ctrl(par, s)
						}
						set(lobj(l), t, &changed)
					}
				case *ast.IncDecStmt:
					set(lobj(s.X), ctrl(par, s), &changed)
				case *ast.ValueSpec:
					for i, nm := range s.Names {
						if i < len(s.Values) {
							set(info.Defs[nm], taint(s.Values[i]), &changed)
						}
					}
				case *ast.KeyValueExpr:
					if id, ok := s.Key.(*ast.Ident); ok {
						if f, isF := info.Uses[id].(*types.Var); isF && f.IsField() && f.Pkg() == m.pk.Types {
							set(f, taint(s.Value), &changed)
						}
					}
				case *ast.ReturnStmt:
					if fnObj == nil {
						return true
					}
					var t uint
					for _, e := range s.Results {
						if isBool(info.TypeOf(e)) {
							t |= taint(e) | ctrl(par, s)
						}
					}
					if t != 0 && res[fnObj]|t != res[fnObj] {
						res[fnObj] |= t
						changed = true
					}
				case *ast.CallExpr:
					if tf := c01Callee(m.pk, s); tf != nil {
						for i, a := range s.Args {
							if t := taint(a); t != 0 {
								set(c01Param(info, tf, i), t, &changed)
							}
						}
					}
				}
				return true
			})
		}
	}
	// the functions that scan a PrimitiveGroup message, and the loops over it
	groupLoop := func(fn *c01Fn, b *cfg.Block) bool {
		for _, l := range c01Loops(fn) {
			if !l.blocks[b] {
				continue
			}
			cond := fn.condOf(l.head)
			if cond != nil && c01ContainsCall(cond, func(call *ast.CallExpr) bool {
				if !isMethod(callee(info, call), protoscanMsg, "Next") {
					return false
				}
				sel, ok := ast.Unparen(call.Fun).(*ast.SelectorExpr)
				if !ok {
					return false
				}
				mv := cm.msgVarOf(sel.X)
				return mv != nil && mv.msg == "PrimitiveGroup"
			}) {
				return true
			}
		}
		return false
	}
	hasGroupParam := func(fi *FuncInfo) bool {
		for _, mv := range cm.vars {
			if mv.msg == "PrimitiveGroup" && mv.fi != nil && fi != nil && mv.fi.Obj == fi.Obj && len(mv.binds) > 0 {
				return true
			}
		}
		return false
	}
	n := 0
	for _, body := range bodies {
		fn := body.fn
		for _, b := range fn.g.Blocks {
			if !b.Live {
				continue
			}
			cond := fn.condOf(b)
			if cond == nil {
				continue
			}
			t := taint(cond)
			if t == 0 {
				continue
			}
			n++
			var names []string
			for _, f := range flags {
				if t&bit[f] != 0 {
					names = append(names, f.Name())
				}
			}
			sort.Strings(names)
			c := "flag scope@" + body.name + " " + src(fs, cond)
			switch {
			case groupLoop(fn, b) || hasGroupParam(body.u.fi):
				r.OK(c, cond.Pos(), "%v reach this condition while the fields of a primitive group are scanned: it selects between decoding and passing over the current field only", names)
			case t == allBits && c08ImpliesAll(info, fn, cond, flags):
				r.OK(c, cond.Pos(), "the condition can only hold when every skip flag is set")
			default:
				r.Bad(c, cond.Pos(), "the value of %v reaches `%s` in %s, outside the scan of a primitive group's fields: there a skip flag decides about more than the elements of its own kind (a whole block, a whole group, or a result is dropped as soon as something in it is of a skipped kind, \"some\" instead of \"every\"); elements of the kinds that are not skipped go missing from blocks that mix kinds", names, src(fs, cond), body.name)
			}
		}
	}
	if n == 0 {
		r.Anchor("branch conditions that depend on a skip flag")
	}
}

// c08ImpliesAll: cond (single-definition locals expanded) is false whenever one of the flags is false, whatever the
// other atoms are.
func c08ImpliesAll(info *types.Info, fn *c01Fn, cond ast.Expr, flags []*types.Var) bool {
	e := c01Expand(info, fn.body, cond)
	for _, off := range flags {
		v := c01Eval(info, e, func(a ast.Expr) c01Tri {
			a = c01Expand(info, fn.body, a)
			if sel, ok := ast.Unparen(a).(*ast.SelectorExpr); ok {
				if f := fieldOf(info, sel); f == off {
					return c01F
				}
			}
			return c01U
		})
		if v != c01F {
			return false
		}
	}
	return true
}
