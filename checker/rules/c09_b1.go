package rules

import (
	"fmt"
	"go/ast"
	"go/token"
	"go/types"
	"sort"
	"strings"

	"osmcheck/core"
)

// c09MakeLen resolves the constant length of a byte buffer: a local made with `make([]byte, K)`, or a parameter bound
// at every call to such a buffer (through any number of helpers). ok=false when the lengths differ or are not constant.
func c09MakeLen(m *pbfModel, e ast.Expr, seen map[types.Object]bool) (int64, bool) {
	e = ast.Unparen(e)
	if call, ok := e.(*ast.CallExpr); ok && builtinName(m.info, call) == "make" && len(call.Args) == 2 {
		return constInt(m.info, call.Args[1])
	}
	// an array (or a pointer to one): the length is part of the type (`var size [4]byte` ... `size[:]`)
	if t := m.info.TypeOf(e); t != nil {
		if pt, ok := t.Underlying().(*types.Pointer); ok {
			t = pt.Elem()
		}
		if at, ok := t.Underlying().(*types.Array); ok {
			return at.Len(), true
		}
	}
	if se, ok := e.(*ast.SliceExpr); ok && se.High == nil && se.Max == nil {
		if se.Low == nil {
			return c09MakeLen(m, se.X, seen) // `b[:]`: the whole buffer
		}
		if lo, isC := constInt(m.info, se.Low); isC && lo == 0 {
			return c09MakeLen(m, se.X, seen)
		}
	}
	if f := fieldOf(m.info, e); f != nil {
		// a buffer kept in a struct field: every initialisation of the field in the package is a make of that length
		return c09FieldMakeLen(m, f)
	}
	o := objOf(m.info, e)
	if o == nil || seen[o] {
		return 0, false
	}
	seen[o] = true
	defer delete(seen, o)
	defs := m.defsOf(o)
	if len(defs) == 0 {
		return 0, false
	}
	var k int64 = -1
	for _, d := range defs {
		if d.kind != "assign" && d.kind != "arg" {
			return 0, false
		}
		v, ok := c09MakeLen(m, d.e, seen)
		if !ok || (k >= 0 && k != v) {
			return 0, false
		}
		k = v
	}
	return k, k >= 0
}

func c09B1(r *core.R) {
	m := modelOrAnchor(r)
	if m == nil {
		return
	}
	f := c09Resolve(r, m)
	if f == nil {
		return
	}
	info := m.info
	br := f.blockReader
	_ = m.byDecl[br.Obj]
	c09ReaderConsumption(r, m)
	// the increment
	c := "increment@block-reader " + f.counter.Name()
	var inc *ast.AssignStmt
	for _, as := range f.incs {
		if as.Tok == token.ADD_ASSIGN && m.funcAt(as.Pos()) == br && len(as.Lhs) == 1 {
			inc = as
		}
	}
	if inc == nil || len(f.incs) != 1 {
		r.Bad(c, br.Decl.Pos(), "the byte counter %s is written at %d sites; exactly one `+=` in the block reader is required", f.counter.Name(), len(f.incs))
		return
	}
	// the function in which the bytes of a block are added up: the block reader itself, or the helper whose result
	// the block reader adds to the counter (`n` of `hdr, blob, n, err := readBlock(..)`; `dec.bytesRead += n`)
	acct := br
	sumExpr := inc.Rhs[0]
	if o, ok := objOf(info, stripConv(info, sumExpr)).(*types.Var); ok && !o.IsField() {
		if defs := m.defsOf(o); len(defs) == 1 && defs[0].kind == "result" {
			if call, ok := ast.Unparen(defs[0].e).(*ast.CallExpr); ok {
				if fn := callee(info, call); fn != nil && m.funcs[fn] != nil {
					var sums []ast.Expr
					for _, ret := range m.returnsOf(m.funcs[fn], defs[0].idx) {
						if ret == nil {
							sums = nil
							break
						}
						if _, isConst := constInt(info, ret); !isConst {
							sums = append(sums, ret) // (the constant returns are the failure returns)
						}
					}
					if len(sums) == 1 {
						acct, sumExpr = m.funcs[fn], sums[0]
					}
				}
			}
		}
	}
	if fn, e := c09SumInResultStruct(m, sumExpr); fn != nil {
		acct, sumExpr = fn, e // `b, err := readBlock(..)`; `dec.bytesRead += b.size`
	}
	acctU := m.byDecl[acct.Obj]
	// the reads: io.ReadFull calls in the block reader and the helpers it calls; the buffer expressed at the block reader's level
	type read struct {
		call *ast.CallExpr
		buf  ast.Expr  // buffer expression in the block reader's own body (nil: could not be mapped)
		pos  token.Pos // position in the block reader's body
	}
	var reads []read
	m.deepWalkOpt(acctU, true, func(s *pbfSite, n ast.Node) bool {
		call, ok := n.(*ast.CallExpr)
		if !ok {
			return true
		}
		buf, isFull := pbfFullRead(info, call)
		if !isFull {
			return true
		}
		for i := len(s.frames) - 1; i > 0 && buf != nil; i-- {
			link, _ := s.frames[i-1].link.(*ast.CallExpr)
			po := objOf(info, buf)
			if link == nil || po == nil {
				buf = nil
				break
			}
			// the parameter must not be re-sliced or reassigned inside the helper
			if countAssignsTo(info, s.frames[i].u.fi.Decl.Body, po, s.frames[i].u.fi.Decl.Pos(), s.frames[i].u.fi.Decl.End()) > 0 {
				buf = nil
				break
			}
			buf = argForParam(info, s.frames[i].u.fi, link, po)
		}
		reads = append(reads, read{call: call, buf: buf, pos: s.rootPos(n)})
		return true
	})
	sort.SliceStable(reads, func(i, j int) bool { return reads[i].pos < reads[j].pos })
	// length expression of each buffer at its read
	var wantConst int64
	var wantTerms []ast.Expr
	okLens := true
	type readLen struct {
		buf     ast.Expr
		isConst bool
		k       int64
		term    ast.Expr
	}
	var lens []readLen
	for k, rd := range reads {
		c := fmt.Sprintf("read@block-reader #%d", k+1)
		if rd.buf == nil {
			okLens = false
			r.Bad(c, rd.call.Pos(), "`%s` does not read exactly a buffer handed down unchanged from %s: the number of bytes consumed for this part is not the buffer length the counter accounts for", src(r.P.Fset, rd.call), br.Name())
			continue
		}
		var lenDesc string
		if se, ok := ast.Unparen(rd.buf).(*ast.SliceExpr); ok && se.Low == nil && se.High != nil {
			if v, ok := constInt(info, se.High); ok {
				wantConst += v
			} else {
				wantTerms = append(wantTerms, se.High)
			}
			lenDesc = src(r.P.Fset, se.High)
		} else if bo := objOf(info, rd.buf); bo != nil {
			// last re-slice `b = b[:n]` before the read, in the block reader
			var hi ast.Expr
			ast.Inspect(acct.Decl.Body, func(n ast.Node) bool {
				as, ok := n.(*ast.AssignStmt)
				if !ok || len(as.Lhs) != 1 || len(as.Rhs) != 1 || objOf(info, as.Lhs[0]) != bo || as.Pos() > rd.pos {
					return true
				}
				if se, ok := ast.Unparen(as.Rhs[0]).(*ast.SliceExpr); ok && se.Low == nil && se.High != nil {
					hi = se.High // `b = b[:n]`, `b := bufs.header[:n]`
				} else {
					hi = nil
				}
				return true
			})
			if hi != nil {
				wantTerms = append(wantTerms, hi)
				lenDesc = src(r.P.Fset, hi)
			} else if v, ok := c09MakeLen(m, rd.buf, map[types.Object]bool{}); ok {
				wantConst += v
				lenDesc = fmt.Sprintf("%d (its make)", v)
			} else {
				okLens = false
			}
		} else if v, ok := c09MakeLen(m, rd.buf, map[types.Object]bool{}); ok {
			// a buffer kept in a struct field (scratch buffers grouped in a struct)
			wantConst += v
			lenDesc = fmt.Sprintf("%d (its make)", v)
		} else {
			okLens = false
		}
		// what `len(buf)` of this read stands for (the increment may be written as a sum of len() of the buffers)
		{
			rl := readLen{buf: rd.buf}
			if nT := len(wantTerms); nT > 0 && lenDesc == src(r.P.Fset, wantTerms[nT-1]) {
				rl.term = wantTerms[nT-1]
			} else if lenDesc != "" {
				rl.isConst = true
				if se, ok := ast.Unparen(rd.buf).(*ast.SliceExpr); ok && se.High != nil {
					rl.k, _ = constInt(info, se.High)
				} else {
					rl.k, _ = c09MakeLen(m, rd.buf, map[types.Object]bool{})
				}
			}
			lens = append(lens, rl)
		}
		if lenDesc != "" {
			r.OK(c, rd.call.Pos(), "io.ReadFull consumes exactly len(%s) = %s bytes on success", src(r.P.Fset, rd.buf), lenDesc)
		} else {
			r.Unknown(c, rd.call.Pos(), "the length of buffer `%s` at this read could not be derived (neither a re-slice in %s nor a make with a constant length)", src(r.P.Fset, rd.buf), br.Name())
		}
	}
	if !okLens || len(reads) < 2 {
		r.Unknown(c, inc.Pos(), "could not derive the length of every buffer read for a block (%d reads found)", len(reads))
		return
	}
	// terms of the RHS
	var gotConst int64
	var gotTerms []ast.Expr
	var split func(e ast.Expr) bool
	splitDepth := 0
	split = func(e ast.Expr) bool {
		e = stripConv(info, e)
		if v, ok := constInt(info, e); ok {
			gotConst += v
			return true
		}
		if be, ok := e.(*ast.BinaryExpr); ok {
			if be.Op != token.ADD {
				return false
			}
			return split(be.X) && split(be.Y)
		}
		// len(buf) of a buffer that was read: the length that read consumed
		if call, ok := e.(*ast.CallExpr); ok && builtinName(info, call) == "len" && len(call.Args) == 1 {
			for _, rl := range lens {
				if rl.buf != nil && sameExpr(info, call.Args[0], rl.buf) {
					if rl.isConst {
						gotConst += rl.k
					} else if rl.term != nil {
						gotTerms = append(gotTerms, rl.term)
					} else {
						return false
					}
					return true
				}
			}
		}
		// the sum kept in a field of a result struct / in a local with one definition
		if splitDepth < 4 {
			if base, fld := m.structLocalField(e); base != nil {
				if inits, ok := m.fieldInits(base, 0, fld, map[types.Object]bool{}, 0); ok && len(inits) == 1 {
					splitDepth++
					defer func() { splitDepth-- }()
					return split(inits[0])
				}
			}
			if o, ok := objOf(info, e).(*types.Var); ok && !o.IsField() {
				if defs := m.defsOf(o); len(defs) == 1 && defs[0].kind == "assign" {
					if _, isBin := stripConv(info, defs[0].e).(*ast.BinaryExpr); isBin {
						splitDepth++
						defer func() { splitDepth-- }()
						return split(defs[0].e)
					}
				}
			}
		}
		gotTerms = append(gotTerms, e)
		return true
	}
	if !split(sumExpr) {
		r.Unknown(c, inc.Pos(), "increment `%s` is not a sum", src(r.P.Fset, inc))
		return
	}
	resolveLocal := func(e ast.Expr) ast.Expr {
		// a length read once into a local (`size := h.GetDatasize()`) stands for its definition
		if o, ok := objOf(info, stripConv(info, e)).(*types.Var); ok && !o.IsField() {
			if defs := m.defsOf(o); len(defs) == 1 && (defs[0].kind == "assign") {
				return defs[0].e
			}
		}
		return e
	}
	same := func(a, b ast.Expr) bool {
		return sameExprG(info, a, b) || sameExprG(info, resolveLocal(a), resolveLocal(b))
	}
	match := gotConst == wantConst && len(gotTerms) == len(wantTerms)
	used := make([]bool, len(wantTerms))
	for _, gt := range gotTerms {
		found := false
		for i, wt := range wantTerms {
			if !used[i] && same(gt, wt) {
				used[i], found = true, true
				break
			}
		}
		if !found {
			match = false
		}
	}
	// order, on every path: the increment comes after all reads, success returns have passed it, failure returns have not
	total := len(reads)
	const incBit = 1 << 8
	early, noInc, incOnFail := token.NoPos, token.NoPos, token.NoPos
	t := m.newTracer()
	t.inlineOnly(m, func(u *unit) bool { return m.unitReadsInput(u) })
	t.Event = func(st int, ev *pbfEvent) int {
		switch ev.kind {
		case "call":
			if _, isFull := pbfFullRead(info, ev.n.(*ast.CallExpr)); isFull && st&0xff < 0xff {
				return st + 1
			}
		case "node":
			if ev.n == ast.Node(inc) {
				if st&0xff < total && acct == br {
					early = inc.Pos()
				}
				return st | incBit
			}
		case "return":
			if ev.depth != 0 {
				return st
			}
			ret, _ := ev.n.(*ast.ReturnStmt)
			success := ret == nil || len(ret.Results) == 0 || isNilIdent(ret.Results[len(ret.Results)-1])
			pos := br.Decl.Pos()
			if ret != nil {
				pos = ret.Pos()
			}
			if success && st&incBit == 0 {
				noInc = pos
			}
			if !success && st&incBit != 0 {
				incOnFail = pos
			}
		}
		return st
	}
	t.Run(br, br.Decl.Body, 0)
	if acct != br {
		// the length is added up by a helper: there, the sum is only returned after all the reads were made (a
		// failed read leaves through a return of the constant 0), and the block reader adds what the helper returned
		ta := m.newTracer()
		ta.inlineOnly(m, func(u *unit) bool { return m.unitReadsInput(u) })
		ta.Event = func(st int, ev *pbfEvent) int {
			switch ev.kind {
			case "call":
				if _, isFull := pbfFullRead(info, ev.n.(*ast.CallExpr)); isFull && st < 0xff {
					return st + 1
				}
			case "return":
				if ret, _ := ev.n.(*ast.ReturnStmt); ret != nil && ev.depth == 0 {
					for _, res := range ret.Results {
						if res == sumExpr && st < total {
							early = ret.Pos()
						}
					}
				}
			}
			return st
		}
		ta.Run(acct, acct.Decl.Body, 0)
		t.incomplete = append(t.incomplete, ta.incomplete...)
	}
	var want []string
	for _, wt := range wantTerms {
		want = append(want, src(r.P.Fset, wt))
	}
	sort.Strings(want)
	switch {
	case len(t.incomplete) > 0:
		r.Unknown(c, inc.Pos(), "the block reader could not be followed on every path: %s", strings.Join(t.incomplete, "; "))
	case !match:
		r.Bad(c, inc.Pos(), "`%s` does not add exactly the bytes read for the block: expected %d + %s (the lengths of the buffers handed to io.ReadFull); a wrong count makes every later reported offset point into the middle of a block", src(r.P.Fset, inc), wantConst, strings.Join(want, " + "))
	case early.IsValid():
		r.Bad(c, inc.Pos(), "the counter is increased before all %d reads of the block have been made: a failed read would leave it pointing past the last complete block", total)
	case incOnFail.IsValid():
		r.Bad(c, incOnFail, "%s can return an error after the counter was increased: the counter would point past the last complete block", br.Name())
	case noInc.IsValid():
		r.Bad(c, noInc, "%s can return successfully without having increased the counter", br.Name())
	default:
		r.OK(c, inc.Pos(), "`%s` = %d (constant buffer lengths, fixed by their make) + %s, on every path after all %d reads, exactly on the success returns", src(r.P.Fset, inc), wantConst, strings.Join(want, " + "), len(reads))
	}
}

// c09FieldMakeLen: every value given to struct field f in the package (composite literal element or assignment other
// than a re-slice of itself) is `make([]byte, K)` with one constant K.
func c09FieldMakeLen(m *pbfModel, f *types.Var) (int64, bool) {
	var k int64 = -1
	ok := true
	note := func(e ast.Expr) {
		call, isCall := ast.Unparen(e).(*ast.CallExpr)
		if !isCall || builtinName(m.info, call) != "make" || len(call.Args) != 2 {
			ok = false
			return
		}
		v, isConst := constInt(m.info, call.Args[1])
		if !isConst || (k >= 0 && k != v) {
			ok = false
			return
		}
		k = v
	}
	for _, fi := range m.funcs {
		ast.Inspect(fi.Decl.Body, func(n ast.Node) bool {
			switch x := n.(type) {
			case *ast.KeyValueExpr:
				if id, isID := x.Key.(*ast.Ident); isID && m.info.Uses[id] == f {
					note(x.Value)
				}
			case *ast.AssignStmt:
				for i, l := range x.Lhs {
					if fieldOf(m.info, l) == f {
						if len(x.Lhs) != len(x.Rhs) {
							ok = false
						} else {
							note(x.Rhs[i]) // (a re-slice of the field is not a make: the length is then not constant)
						}
					}
				}
			}
			return true
		})
	}
	return k, ok && k >= 0
}
