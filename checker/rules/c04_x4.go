package rules

import (
	"go/token"
	"go/types"
	"strings"

	"osmcheck/core"
)

// c04X4: Action.MarshalXML and Action.UnmarshalXML agree (both observed, not pattern-matched).
func c04X4(r *core.R) {
	c03Init(r)
	var root *c04Root
	for _, rt := range c04Roots(r.P) {
		if rt.tname == "Action" {
			root = rt
		}
	}
	am := c03BuildActionModel(r, []string{"type"}, []string{"old", "new"})
	if root == nil || am == nil {
		r.Anchor("osm.Action MarshalXML/UnmarshalXML")
		return
	}
	if am.aborted != "" {
		r.Unknown("explore@"+am.un.Name(), am.un.Decl.Pos(), "%s could not be explored completely: %s", am.un.Name(), am.aborted)
		return
	}
	trs, ab := c04Run(r.P, root, c04AllSet, "all set")
	if ab != "" || len(trs) == 0 {
		r.Unknown("explore@"+root.name, root.fi.Decl.Pos(), "%s could not be explored: %s", root.name, ab)
		return
	}
	// attributes written (name -> field) and read (name -> field)
	wmap := map[string]string{}
	for _, tr := range trs {
		rts := tr.rootTokens()
		if len(rts) == 0 {
			continue
		}
		as, _ := c04AttrsOf(tr, root, rts[0].tok)
		for _, a := range as {
			if p, ok := c04RecvPath(root, a.value); ok && a.nameOK && len(p) == 1 {
				wmap[a.name] = p[0].Name()
			}
		}
	}
	reads := map[string]string{}
	for a, f := range am.AttrRead {
		if a != "" && !strings.HasPrefix(f, "?") {
			reads[a] = f
		}
	}
	names := map[string]bool{}
	for k := range reads {
		names[k] = true
	}
	for k := range wmap {
		names[k] = true
	}
	if len(names) == 0 {
		r.Bad("attr type@Action", root.fi.Decl.Pos(), "neither Action.MarshalXML nor Action.UnmarshalXML handles any attribute: the action type is lost")
	}
	for _, n := range c03SortedKeys(names) {
		c := "attr " + n + "@Action"
		switch {
		case wmap[n] == "":
			r.Bad(c, am.un.Decl.Pos(), "Action.UnmarshalXML reads attribute %q into Action.%s but Action.MarshalXML never writes it (it writes %v): after a round trip the field is empty", n, reads[n], c04Keys(wmap))
		case reads[n] == "":
			r.Bad(c, root.fi.Decl.Pos(), "Action.MarshalXML writes attribute %q from Action.%s but Action.UnmarshalXML stores the value of no attribute of that name (it reads %v): after a round trip Action.%s is empty", n, wmap[n], c04Keys(reads), wmap[n])
		case reads[n] != wmap[n]:
			r.Bad(c, root.fi.Decl.Pos(), "attribute %q is written from Action.%s but read into Action.%s", n, wmap[n], reads[n])
		default:
			r.OK(c, root.fi.Decl.Pos(), "written from and read into Action.%s", wmap[n])
		}
	}
	// blocks: wrapper name -> field written inside it; vs child element name -> field stored
	type blk struct {
		field string
		pos   token.Pos
	}
	wr := map[string]blk{}
	for _, tr := range trs {
		for _, em := range tr.emits {
			w := tr.wrappersOf(em)
			if len(w) == 1 && w[0].kind == "const" && len(em.path) > 1 {
				wr[w[0].s] = blk{em.path[0].Name(), em.ev.Node.Pos()}
			}
		}
	}
	rd := c04ActionReads(am)
	blocks := map[string]bool{}
	for n := range wr {
		blocks[n] = true
	}
	for p, l := range rd {
		if !strings.Contains(p, ".") {
			blocks[l] = true
		}
	}
	for _, n := range c03SortedKeys(blocks) {
		c := "block " + n + "@Action"
		w, hasW := wr[n]
		rfield := ""
		for p, l := range rd {
			if l == n && !strings.Contains(p, ".") {
				rfield = strings.TrimPrefix(p, "!")
			}
		}
		switch {
		case !hasW:
			r.Bad(c, am.un.Decl.Pos(), "Action.UnmarshalXML reads <%s> into Action.%s but Action.MarshalXML never writes such a block", n, rfield)
		case rfield == "":
			r.Bad(c, w.pos, "Action.MarshalXML writes Action.%s as <%s> but Action.UnmarshalXML stores no <%s> child into a field: the block is lost", w.field, n, n)
		case rfield != w.field:
			r.Bad(c, w.pos, "<%s> is written from Action.%s but Action.UnmarshalXML stores it into Action.%s: old and new data change places (or one is lost) over a round trip", n, w.field, rfield)
		default:
			r.OK(c, w.pos, "<%s> written from and read into Action.%s", n, w.field)
		}
	}
	c04Embedded(r, root)
}

// c04Embedded: the directly embedded element may be nil (modify/delete actions): nothing is read through it.
func c04Embedded(r *core.R, root *c04Root) {
	st, _ := root.T.Underlying().(*types.Struct)
	found := false
	for i := 0; st != nil && i < st.NumFields(); i++ {
		f := st.Field(i)
		if _, isPtr := f.Type().Underlying().(*types.Pointer); !f.Embedded() || !isPtr {
			continue
		}
		found = true
		c := "embedded@" + root.name
		ntr, ab := c04Run(r.P, root, c04Nil([]*types.Var{f}), "nil embedded")
		bad := false
		for _, tr := range ntr {
			if len(tr.nilderef) > 0 {
				e := tr.nilderef[0]
				r.Bad(c, e.Node.Pos(), "with the embedded %s nil, %s reaches `%s` (%s; call chain %s): marshalling a modify/delete action (no directly embedded element) panics", f.Name(), root.name, src(r.P.Fset, e.Node), e.Why, e.Frame.Stack())
				bad = true
			} else if tr.path.End == "panic" {
				r.Bad(c, tr.path.Pos, "with the embedded %s nil a path of %s panics", f.Name(), root.name)
				bad = true
			}
			if bad {
				break
			}
		}
		switch {
		case bad:
		case ab != "":
			r.Unknown(c, root.fi.Decl.Pos(), "%s could not be explored: %s", root.name, ab)
		default:
			r.OK(c, root.fi.Decl.Pos(), "with the embedded %s nil nothing is read through it on any path (the write is guarded by a nil test, in %s or in what it calls)", f.Name(), root.name)
		}
	}
	if !found {
		r.Unknown("embedded@"+root.name, root.fi.Decl.Pos(), "osm.Action no longer embeds a pointer to the directly held element")
	}
}

// c04X5: Date is written as the layout-formatted text it is parsed from.
func c04X5(r *core.R) {
	c03Init(r)
	c03DateLayout(r, "layout@Date", true)
	obs := c03ObserveDate(r)
	if obs == nil {
		return
	}
	c := "text@Date"
	var rtT types.Type
	if len(obs.decode) == 1 {
		if _, vt, why := c03DecodeTarget(obs.decode[0]); why == "" {
			rtT = vt
		}
	}
	isStr := func(t types.Type) bool {
		if t == nil {
			return false
		}
		b, ok := t.Underlying().(*types.Basic)
		return ok && b.Info()&types.IsString != 0
	}
	if obs.aborted != "" {
		r.Unknown(c, obs.ma.Decl.Pos(), "Date's XML methods could not be explored completely: %s", obs.aborted)
		return
	}
	if len(obs.encode) != 1 || rtT == nil {
		r.Unknown(c, obs.ma.Decl.Pos(), "expected one EncodeElement in Date.MarshalXML and one DecodeElement into a local in Date.UnmarshalXML, found %d and %d", len(obs.encode), len(obs.decode))
		return
	}
	wrote := obs.encode[0].Args[0]
	formatted := len(obs.format) == 1 && wrote.Call == obs.format[0].Call
	switch {
	case isStr(wrote.T) && isStr(c03Deref(rtT)) && formatted:
		r.OK(c, obs.encode[0].Node.Pos(), "the layout-formatted text (a %s) is written as the character data of the handed element, and decoded into a %s", c03Short(wrote.T), c03Short(c03Deref(rtT)))
	case isStr(wrote.T) && isStr(c03Deref(rtT)):
		r.Bad(c, obs.encode[0].Node.Pos(), "Date.MarshalXML encodes `%s`, which is not the result of formatting the time with the layout", src(r.P.Fset, obs.encode[0].Call.Args[0]))
	default:
		r.Bad(c, obs.encode[0].Node.Pos(), "Date.MarshalXML encodes a %s but Date.UnmarshalXML decodes the element text into a %s and parses it with the layout: what is written is not the layout-formatted text that is read", c03ShortT(wrote.T), c03Short(c03Deref(rtT)))
	}
}

// c04ActionReads maps the Go path (below Action) each child element name of Action.UnmarshalXML ends up in -> name,
// as observed by the C03 action model.
func c04ActionReads(m *c03ActionModel) map[string]string {
	out := map[string]string{}
	if m == nil {
		return out
	}
	for l, rd := range m.Elems {
		switch {
		case rd.Why == "":
			out[rd.GoPath] = l
		case rd.Raw != "":
			out["!"+rd.Raw] = l // the raw field even when the tag disagrees, for the symmetry rule
		}
	}
	return out
}
