package rules

import "osmcheck/core"

// c20Benign4: part 4 of the behaviour-preserving variants of C20 (see c20_benign.go).
func c20Benign4() []core.Mutant {
	return []core.Mutant{
		{Name: "getchangeset-named-results-bare-returns", File: "osmapi/changeset.go",
			Find: `func (ds *Datasource) getChangeset(ctx context.Context, url string) (*osm.Changeset, error) {
	css := &osm.OSM{}
	if err := ds.getFromAPI(ctx, url, &css); err != nil {
		return nil, err
	}

	if l := len(css.Changesets); l != 1 {
		return nil, fmt.Errorf("wrong number of changesets, expected 1, got %v", l)
	}

	return css.Changesets[0], nil
}
`,
			Replace: `func (ds *Datasource) getChangeset(ctx context.Context, url string) (cs *osm.Changeset, err error) {
	css := &osm.OSM{}
	if err = ds.getFromAPI(ctx, url, &css); err != nil {
		return
	}

	if l := len(css.Changesets); l != 1 {
		err = fmt.Errorf("wrong number of changesets, expected 1, got %v", l)
		return
	}

	cs = css.Changesets[0]
	return
}
`},
		{Name: "relations-idlist-helper-with-accessor-callback-first-iteration-peeled", File: "osmapi/relation.go",
			Find: `	data := make([]byte, 0, 11*len(ids))
	for i, id := range ids {
		if i != 0 {
			data = append(data, byte(','))
		}
		data = strconv.AppendInt(data, int64(id), 10)
	}
	url := ds.baseURL() + "/relations?relations=" + string(data)
	if len(params) > 0 {
		url += "&" + params
	}

	o := &osm.OSM{}
	if err := ds.getFromAPI(ctx, url, &o); err != nil {
		return nil, err
	}

	return o.Relations, nil
}
`,
			Replace: `	url := ds.baseURL() + "/relations?relations=" + idList(len(ids), func(i int) int64 { return int64(ids[i]) })
	if len(params) > 0 {
		url += "&" + params
	}

	o := &osm.OSM{}
	if err := ds.getFromAPI(ctx, url, &o); err != nil {
		return nil, err
	}

	return o.Relations, nil
}

// idList formats n ids as a comma separated list, at(i) being the i-th id.
func idList(n int, at func(i int) int64) string {
	if n == 0 {
		return ""
	}

	list := strconv.AppendInt(make([]byte, 0, 11*n), at(0), 10)
	for i := 1; i < n; i++ {
		list = append(list, ',')
		list = strconv.AppendInt(list, at(i), 10)
	}

	return string(list)
}
`},
		{Name: "nodes-id-loop-while-form-counter-declared-outside", File: "osmapi/node.go",
			Find: `	for i, id := range ids {
		if i != 0 {
			data = append(data, byte(','))
		}
		data = strconv.AppendInt(data, int64(id), 10)
	}
`,
			Replace: `	i := 0
	for i < len(ids) {
		if i != 0 {
			data = append(data, byte(','))
		}
		data = strconv.AppendInt(data, int64(ids[i]), 10)
		i++
	}
`},
		{Name: "ways-id-loop-guard-and-labelled-break-switch-separator", File: "osmapi/way.go",
			Find: `	for i, id := range ids {
		if i != 0 {
			data = append(data, byte(','))
		}
		data = strconv.AppendInt(data, int64(id), 10)
	}
`,
			Replace: `	n := len(ids)
ids:
	for i := 0; ; i++ {
		if i == n {
			break ids
		}
		switch {
		case i > 0:
			data = append(data, byte(','))
		}
		data = strconv.AppendInt(data, int64(ids[i]), 10)
	}
`},
		{Name: "nodes-first-id-peeled-then-range-over-tail", File: "osmapi/node.go",
			Find: `	for i, id := range ids {
		if i != 0 {
			data = append(data, byte(','))
		}
		data = strconv.AppendInt(data, int64(id), 10)
	}
`,
			Replace: `	if len(ids) > 0 {
		data = strconv.AppendInt(data, int64(ids[0]), 10)
		for _, id := range ids[1:] {
			data = append(data, ',')
			data = strconv.AppendInt(data, int64(id), 10)
		}
	}
`},
		{Name: "ways-callback-iterator-returning-bool", File: "osmapi/way.go",
			Find: `	for i, id := range ids {
		if i != 0 {
			data = append(data, byte(','))
		}
		data = strconv.AppendInt(data, int64(id), 10)
	}
`,
			Replace: `	each := func(visit func(i int, id int64) bool) {
		for i, id := range ids {
			if !visit(i, int64(id)) {
				break
			}
		}
	}
	each(func(i int, id int64) bool {
		if i != 0 {
			data = append(data, byte(','))
		}
		data = strconv.AppendInt(data, id, 10)
		return true
	})
`},
		{Name: "nodes-single-exit-with-result-variable", File: "osmapi/node.go",
			Find: `	o := &osm.OSM{}
	if err := ds.getFromAPI(ctx, url, &o); err != nil {
		return nil, err
	}

	return o.Nodes, nil
}

// NodeVersion returns`,
			Replace: `	var (
		nodes osm.Nodes
		o     = &osm.OSM{}
	)
	err = ds.getFromAPI(ctx, url, &o)
	if err == nil {
		nodes = o.Nodes
	}

	return nodes, err
}

// NodeVersion returns`},
		{Name: "notessearch-query-through-url-values-literal", File: "osmapi/note.go",
			Find: `	params = append(params, fmt.Sprintf("q=%s", url.QueryEscape(query)))
`,
			Replace: `	params = append(params, url.Values{"q": {query}}.Encode())
`},
		{Name: "at-option-in-time-utc", File: "osmapi/options.go",
			Find: `	return append(p, "at="+o.t.UTC().Format("2006-01-02T15:04:05Z")), nil
`,
			Replace: `	return append(p, "at="+o.t.In(time.UTC).Format("2006-01-02T15:04:05Z")), nil
`},
		{Name: "status-helper-returning-untyped-nil-for-200", File: "osmapi/datasource.go",
			Find: `	if resp.StatusCode == http.StatusNotFound {
		return &NotFoundError{URL: url}
	}

	if resp.StatusCode == http.StatusForbidden {
		return &ForbiddenError{URL: url}
	}

	if resp.StatusCode == http.StatusGone {
		return &GoneError{URL: url}
	}

	if resp.StatusCode == http.StatusRequestURITooLong {
		return &RequestURITooLongError{URL: url}
	}

	if resp.StatusCode != http.StatusOK {
		return &UnexpectedStatusCodeError{
			Code: resp.StatusCode,
			URL:  url,
		}
	}

	return xml.NewDecoder(resp.Body).Decode(item)
}
`,
			Replace: `	if err := statusError(resp.StatusCode, url); err != nil {
		return err
	}

	return xml.NewDecoder(resp.Body).Decode(item)
}

// statusError maps the status code of a response to its typed error, nil for a 200.
func statusError(code int, url string) error {
	switch code {
	case http.StatusOK:
		return nil
	case http.StatusNotFound:
		return &NotFoundError{URL: url}
	case http.StatusForbidden:
		return &ForbiddenError{URL: url}
	case http.StatusGone:
		return &GoneError{URL: url}
	case http.StatusRequestURITooLong:
		return &RequestURITooLongError{URL: url}
	}
	return &UnexpectedStatusCodeError{Code: code, URL: url}
}
`},
	}
}
